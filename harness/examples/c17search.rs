// exploration tools c17search / c17fam / c17one (not part of any check): the middle-slab extent margin
// ext/L - (w - 2) of stroked lines on the REAL library (C17 `thick-middle-width`), used to search for
// counterexamples before proving (EG/Props/C17.lean quotes the searched ranges).
//   c17search R W [1]   all (dx,dy) with max <= R (all octants unless 1), widths 3..=W
//   c17fam dlo dhi Dlo Dhi wcap [1]   min in dlo..=dhi, max in Dlo..=Dhi, widths up to min(wcap, 6 max/min + 10) (or wcap)
//   c17one dx dy w [1]  one stroke: bands and the crosses of its middle-slab pixels
use embedded_graphics::{pixelcolor::BinaryColor, prelude::*, primitives::{Line, PrimitiveStyle}};
fn main() {
    let args: Vec<i64> = std::env::args().skip(1).map(|a| a.parse().unwrap()).collect();
    let (r, wmax) = (args[0] as i32, args[1] as u32);
    let mut worst = f64::MAX;
    let mut fails = 0u64;
    let mut worst_by_w = vec![f64::MAX; wmax as usize + 1];
    for dx in 0..=r { for dy in 0..=dx {
        if dx == 0 && dy == 0 { continue; }
        for (sx, sy) in [(1, 1), (1, -1), (-1, 1), (-1, -1)] { for swap in [false, true] {
            let (ex, ey) = if swap { (dy * sx, dx * sy) } else { (dx * sx, dy * sy) };
            if args.len() > 2 && args[2] == 1 && !(sx == 1 && sy == 1 && !swap) { continue; }
            for w in 3..=wmax {
                let (ddx, ddy) = (ex as i128, ey as i128);
                let l2 = ddx * ddx + ddy * ddy;
                let (mut cmin, mut cmax, mut n) = (i128::MAX, i128::MIN, 0);
                for Pixel(p, _) in Line::new(Point::new(0, 0), Point::new(ex, ey)).into_styled(PrimitiveStyle::with_stroke(BinaryColor::On, w)).pixels() {
                    let (vx, vy) = (p.x as i128, p.y as i128);
                    let cross = ddx * vy - ddy * vx;
                    let dot = ddx * vx + ddy * vy;
                    if (2 * dot - l2) * (2 * dot - l2) <= 4 * l2 { n += 1; cmin = cmin.min(cross); cmax = cmax.max(cross); }
                }
                let ext = if n > 0 { cmax - cmin } else { -1 };
                let wi = w as i128;
                let ok = n > 0 && ext * ext >= (wi - 2) * (wi - 2) * l2;
                let margin = ext as f64 / (l2 as f64).sqrt() - (w as f64 - 2.0);
                if !ok { fails += 1; if fails < 20 { println!("FAIL (0,0)-({},{}) w={} margin {:.4}", ex, ey, w, margin); } }
                if margin < worst { worst = margin; println!("worst (0,0)-({},{}) w={} margin {:.4} px", ex, ey, w, margin); }
                if margin < worst_by_w[w as usize] { worst_by_w[w as usize] = margin; }
            }
        }}
    }}
    println!("fails={} worst={:.5}", fails, worst);
    for w in 3..=wmax { print!("w{}:{:.3} ", w, worst_by_w[w as usize]); }
    println!();
}
