// exploration tool (not part of any check): see the header of c17search.rs; run with `cargo run --offline --release --example <name> -- args`
use embedded_graphics::{pixelcolor::BinaryColor, prelude::*, primitives::{Line, PrimitiveStyle}};
fn main() {
    let a: Vec<i64> = std::env::args().skip(1).map(|a| a.parse().unwrap()).collect();
    let (dlo, dhi, bigd_lo, bigd_hi, wcap) = (a[0] as i32, a[1] as i32, a[2] as i32, a[3] as i32, a[4]);
    let mut worst = f64::MAX; let mut fails = 0u64;
    for d in dlo..=dhi { for bd in bigd_lo.max(d)..=bigd_hi {
        let wmax = if a.len() > 5 { wcap } else { wcap.min(6 * bd as i64 / d.max(1) as i64 + 10) } as u32;
        for w in 3..=wmax {
            let (ddx, ddy) = (bd as i128, d as i128);
            let l2 = ddx * ddx + ddy * ddy;
            let (mut cmin, mut cmax, mut n) = (i128::MAX, i128::MIN, 0);
            for Pixel(p, _) in Line::new(Point::new(0, 0), Point::new(bd, d)).into_styled(PrimitiveStyle::with_stroke(BinaryColor::On, w)).pixels() {
                let (vx, vy) = (p.x as i128, p.y as i128);
                let dot = ddx * vx + ddy * vy;
                if (2 * dot - l2) * (2 * dot - l2) <= 4 * l2 { let cross = ddx * vy - ddy * vx; n += 1; cmin = cmin.min(cross); cmax = cmax.max(cross); }
            }
            let ext = if n > 0 { cmax - cmin } else { -1 };
            let wi = w as i128;
            let ok = n > 0 && ext * ext >= (wi - 2) * (wi - 2) * l2;
            let margin = ext as f64 / (l2 as f64).sqrt() - (w as f64 - 2.0);
            if !ok { fails += 1; if fails < 40 { println!("FAIL (0,0)-({},{}) w={} margin {:.5}", bd, d, w, margin); } }
            if margin < worst { worst = margin; println!("worst (0,0)-({},{}) w={} margin {:.5} px", bd, d, w, margin); }
        }
    }}
    println!("fails={} worst={:.6}", fails, worst);
}
