// exploration tool (not part of any check): see the header of c17search.rs; run with `cargo run --offline --release --example <name> -- args`
use embedded_graphics::{pixelcolor::BinaryColor, prelude::*, primitives::{Line, PrimitiveStyle}};
fn main() {
    let a: Vec<i32> = std::env::args().skip(1).map(|a| a.parse().unwrap()).collect();
    let (ex, ey, w) = (a[0], a[1], a[2] as u32);
    let (ddx, ddy) = (ex as i128, ey as i128);
    let l2 = ddx * ddx + ddy * ddy;
    let l = (l2 as f64).sqrt();
    let d = ddx.abs().max(ddy.abs());
    let mut bands: std::collections::BTreeMap<i128, Vec<(i128, i128, bool)>> = Default::default();
    for Pixel(p, _) in Line::new(Point::new(0, 0), Point::new(ex, ey)).into_styled(PrimitiveStyle::with_stroke(BinaryColor::On, w)).pixels() {
        let (vx, vy) = (p.x as i128, p.y as i128);
        let cross = ddx * vy - ddy * vx;
        let dot = ddx * vx + ddy * vy;
        let mid = (2 * dot - l2) * (2 * dot - l2) <= 4 * l2;
        // band index: 2cross in (2Dn - D, 2Dn + D] or mirrored
        let n = (2 * cross + d).div_euclid(2 * d);
        bands.entry(n).or_default().push((cross, dot, mid));
    }
    println!("L={:.4} D={} bands={} need ext >= {:.3}", l, d, bands.len(), (w as f64 - 2.0) * l);
    let (mut cmin, mut cmax) = (i128::MAX, i128::MIN);
    for (n, v) in &bands {
        let m: Vec<i128> = v.iter().filter(|x| x.2).map(|x| x.0).collect();
        for c in &m { cmin = cmin.min(*c); cmax = cmax.max(*c); }
        if a.len() > 3 { println!("band {} pts {} mid crosses {:?}", n, v.len(), m); }
    }
    println!("mid cross range [{}, {}] ext {} = {:.3} px", cmin, cmax, cmax - cmin, (cmax - cmin) as f64 / l);
}
