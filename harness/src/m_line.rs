//! module `line` (serves C17, thin-line part; C07 translation of thin lines) — `Line::points()`.
//!
//! Streams (every result line is compared with the Lean model `EG.Model.Line`):
//!   line.points x0 y0 x1 y1          -> the points in iteration order `x,y;x,y;...`; lines with more
//!                                       than 64 points: `n=<count> first=<pt> last=<pt> h=<hash>`
//!                                       (hash over all points in order, see `pts_digest`)
//!   line.translate x0 y0 x1 y1 dx dy -> points of `line.translate((dx,dy))` (same format)
//!
//! Oracle (property C17, thin-line sentence, as predicates on the real results; Lean statements
//! mirrored: `points_head`, `points_last`, `points_length`, `points_steps`,
//! `points_within_half_pixel`, `points_zero_length`, `line_points_in_box`, `line_points_translate`):
//!   * first point = start, last point = end                                  (C17:line-first/-last)
//!   * number of points = max(|dx|, |dy|) + 1                                  (C17:line-length)
//!   * consecutive points differ by exactly 1 along the major axis (the axis with the larger
//!     |delta|; on a tie both axes move by 1) and by at most 1 along the minor (C17:line-step)
//!   * every point p satisfies |2 (dx (p.y-y0) - dy (p.x-x0))| <= max(|dx|,|dy|), i.e. it is
//!     within half a pixel of the ideal line measured along the minor axis; exact i64 arithmetic
//!                                                                            (C17:line-halfpixel)
//!   * every point lies coordinate-wise between start and end                 (C17:line-box)
//!   * `translate(d).points()` = `points()` shifted by d                      (C07:line-translate)
use crate::common::*;
use embedded_graphics::{prelude::*, primitives::Line};

pub struct M;

/// Canonical text of a point list: the full list up to 64 points, a digest beyond.
/// Digest: h_0 = 0, h_{i+1} = (h_i * 1000003 + (x + 2^31) * 65599 + (y + 2^31)) mod 2^64.
pub fn pts_digest(pts: &[Point]) -> String {
    if pts.len() <= 64 {
        return fmt_pts(pts.iter().copied());
    }
    let mut h: u64 = 0;
    for p in pts {
        let ux = (p.x as i64 + (1i64 << 31)) as u64;
        let uy = (p.y as i64 + (1i64 << 31)) as u64;
        h = h.wrapping_mul(1_000_003).wrapping_add(ux.wrapping_mul(65_599)).wrapping_add(uy);
    }
    format!("n={} first={} last={} h={}", pts.len(), fmt_pt(pts[0]), fmt_pt(pts[pts.len() - 1]), h)
}

/// The thin-line oracle (the first sentence of C17 as predicates on the real point list).
pub fn thin_line_oracle(ctx: &mut Ctx, s: Point, e: Point, pts: &[Point]) {
    let (dx, dy) = ((e.x - s.x) as i64, (e.y - s.y) as i64);
    let n = dx.abs().max(dy.abs());
    ctx.expect(pts.first() == Some(&s), "C17:line-first", || format!("{:?}->{:?} first {:?}", s, e, pts.first()));
    ctx.expect(pts.last() == Some(&e), "C17:line-last", || format!("{:?}->{:?} last {:?}", s, e, pts.last()));
    ctx.expect(pts.len() as i64 == n + 1, "C17:line-length", || format!("{:?}->{:?} len {} want {}", s, e, pts.len(), n + 1));
    let y_major = dy.abs() >= dx.abs();
    let mut step_ok = true;
    for w in pts.windows(2) {
        let (sx, sy) = ((w[1].x - w[0].x) as i64, (w[1].y - w[0].y) as i64);
        let (maj, min) = if y_major { (sy, sx) } else { (sx, sy) };
        if maj.abs() != 1 || min.abs() > 1 {
            step_ok = false;
        }
        // the major coordinate moves towards the end point
        if maj != if y_major { dy.signum() } else { dx.signum() } {
            step_ok = false;
        }
    }
    ctx.expect(step_ok, "C17:line-step", || format!("{:?}->{:?} bad step", s, e));
    let mut half_ok = true;
    let mut box_ok = true;
    for p in pts {
        let cross = dx * (p.y - s.y) as i64 - dy * (p.x - s.x) as i64;
        if (2 * cross).abs() > n {
            half_ok = false;
        }
        if p.x < s.x.min(e.x) || p.x > s.x.max(e.x) || p.y < s.y.min(e.y) || p.y > s.y.max(e.y) {
            box_ok = false;
        }
    }
    ctx.expect(half_ok, "C17:line-halfpixel", || format!("{:?}->{:?} point off the ideal line by more than 1/2", s, e));
    ctx.expect(box_ok, "C17:line-box", || format!("{:?}->{:?} point outside the box of the end points", s, e));
}

fn classify(ctx: &mut Ctx, s: Point, e: Point) {
    let (dx, dy) = (e.x - s.x, e.y - s.y);
    let key = if dx == 0 && dy == 0 {
        "line:zero-length"
    } else if dy == 0 {
        "line:horizontal"
    } else if dx == 0 {
        "line:vertical"
    } else if dx.abs() == dy.abs() {
        "line:diagonal"
    } else {
        // octant number 0..7 counter-clockwise in screen coordinates from +x
        match (dx > 0, dy > 0, dx.abs() > dy.abs()) {
            (true, true, true) => "line:octant0",
            (true, true, false) => "line:octant1",
            (false, true, false) => "line:octant2",
            (false, true, true) => "line:octant3",
            (false, false, true) => "line:octant4",
            (false, false, false) => "line:octant5",
            (true, false, false) => "line:octant6",
            (true, false, true) => "line:octant7",
        }
    };
    ctx.count(key);
    let n = dx.abs().max(dy.abs());
    ctx.count(if n <= 9 { "line:len<=9" } else if n <= 64 { "line:len<=64" } else { "line:len>64" });
}

/// starting points over which the exhaustive end-point grids are repeated
pub const STARTS: [(i32, i32); 3] = [(0, 0), (-7, 4), (1000, -513)];

impl Module for M {
    fn name(&self) -> &'static str {
        "line"
    }
    fn rule(&self) -> &'static str {
        "all lines start -> start + (dx,dy) with (dx,dy) in [-R,R]^2 (R = 9 quick, 20 thorough: all octants, \
         horizontal, vertical, diagonal, zero length) from 3 start points (origin, negative, far), then seeded random \
         lines with |coordinates| up to 30000; non-trivial = start != end; distinct = distinct op text"
    }

    fn generate(&self, pid: &str, tier: Tier, rng: &mut Rng, emit: &mut dyn FnMut(String)) {
        let r: i32 = if tier == Tier::Quick { 9 } else { 20 };
        if pid == "C07" {
            // translation of thin lines
            let r = if tier == Tier::Quick { 5 } else { 9 };
            for dx in -r..=r {
                for dy in -r..=r {
                    for (tx, ty) in [(0, 0), (3, -2), (-11, -17), (250, 1)] {
                        emit(format!("line.translate -2 3 {} {} {} {}", -2 + dx, 3 + dy, tx, ty));
                    }
                }
            }
            let n = if tier == Tier::Quick { 500 } else { 20_000 };
            for _ in 0..n {
                let sc = *rng.pick(&[30i64, 300, 3000]);
                emit(format!(
                    "line.translate {} {} {} {} {} {}",
                    rng.range(-sc, sc),
                    rng.range(-sc, sc),
                    rng.range(-sc, sc),
                    rng.range(-sc, sc),
                    rng.range(-sc, sc),
                    rng.range(-sc, sc)
                ));
            }
            return;
        }
        for (sx, sy) in STARTS {
            for dx in -r..=r {
                for dy in -r..=r {
                    emit(format!("line.points {} {} {} {}", sx, sy, sx + dx, sy + dy));
                }
            }
        }
        // random long lines
        let n = if tier == Tier::Quick { 1500 } else { 100_000 };
        for _ in 0..n {
            let sc = *rng.pick(&[40i64, 40, 40, 300, 300, 300, 300, 2000, 2000, 2000, 2000, 30000]);
            let (x0, y0) = (rng.range(-sc, sc), rng.range(-sc, sc));
            // now and then an exactly axis-parallel / diagonal / nearly diagonal long line
            let (x1, y1) = match rng.below(12) {
                0 => (rng.range(-sc, sc), y0),
                1 => (x0, rng.range(-sc, sc)),
                2 => {
                    let d = rng.range(-sc, sc);
                    (x0 + d, y0 + if rng.chance(1, 2) { d } else { -d })
                }
                3 => {
                    let d = rng.range(-sc, sc);
                    (x0 + d, y0 + d + rng.range(-1, 1))
                }
                _ => (rng.range(-sc, sc), rng.range(-sc, sc)),
            };
            emit(format!("line.points {} {} {} {}", x0, y0, x1, y1));
        }
    }

    fn execute(&self, op: &str, ctx: &mut Ctx) -> String {
        let mut t = Toks::new(op);
        match t.str() {
            "line.points" => {
                let s = t.point();
                let e = t.point();
                let line = Line::new(s, e);
                let pts: Vec<Point> = line.points().collect();
                if pts.len() <= 300 {
                    iter_protocol_check(ctx, "iterator-protocol:line-points", line.points(), 300);
                }
                classify(ctx, s, e);
                if s != e {
                    ctx.nontrivial(op);
                }
                thin_line_oracle(ctx, s, e, &pts);
                pts_digest(&pts)
            }
            "line.translate" => {
                let s = t.point();
                let e = t.point();
                let d = t.point();
                let line = Line::new(s, e);
                let base: Vec<Point> = line.points().collect();
                let moved: Vec<Point> = line.translate(d).points().collect();
                let mut l2 = line;
                l2.translate_mut(d);
                let moved2: Vec<Point> = l2.points().collect();
                ctx.count("line:translate");
                if s != e && d != Point::zero() {
                    ctx.nontrivial(op);
                }
                let shifted: Vec<Point> = base.iter().map(|p| *p + d).collect();
                ctx.expect(moved == shifted, "C07:line-translate", || format!("{:?}->{:?} by {:?}", s, e, d));
                ctx.expect(moved2 == shifted, "C07:line-translate-mut", || format!("{:?}->{:?} by {:?}", s, e, d));
                pts_digest(&moved)
            }
            _ => panic!("unknown op {}", op),
        }
    }
}
