//! C06 — not built yet.
use crate::common::*;

pub struct C06;

impl Prop for C06 {
    fn id(&self) -> &'static str {
        "C06"
    }
    fn rule(&self) -> &'static str {
        "not built yet"
    }
    fn generate(&self, _tier: Tier, _rng: &mut Rng, _emit: &mut dyn FnMut(String)) {}
    fn execute(&self, op: &str, _ctx: &mut Ctx) -> String {
        panic!("unknown op {}", op)
    }
}
