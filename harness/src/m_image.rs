//! module `image` (serves C09, and the image parts of C01, C02, C07) — raw images, sub-images and
//! the `Image` wrapper.
//!
//! Streams (every result line is compared with the Lean model `EG.Model.ImageRaw`):
//!   <img> = `<bits> <order 0|1> <w> <h> <bytes>`   order 0 = LittleEndianMsb0, 1 = BigEndianLsb0
//!   <obj> = `<img> <ox> <oy> <mode> <nsub> [<ax> <ay> <aw> <ah>]*nsub`
//!           mode 0: `Image::new(d, (ox,oy))`, mode 1: `Image::with_center(d, (ox,oy))`;
//!           `d` = the raw image with `sub_image(area)` applied `nsub` times (0..=2)
//!   image.new   <bits> <order> <w> <h> <len>   -> `ok` | `err:<expected_data_size>`
//!   image.pixel <img>                          -> `pixel()` for y in -1..=h, x in -1..=w
//!   image.draw  <obj> <bx> <by> <bw> <bh>      -> `bb=<rect> r1=<map> r2=<map> log1=<calls> log2=<calls>`
//!        (R1 = draw_iter only, R2 = native fill that drains the colour iterator, both with
//!         bounding box `<bx,by,bw,bh>`; log1 / log2 = their call logs incl. every colour pulled)
//!   image.move  <obj> <dx> <dy>                -> `bb=<rect> mut=<1|0> r1=<map>` of `.translate((dx,dy))`
//!        on an unbounded R1; `mut` = `translate_mut` left the same value as `translate` returned
//!   (`err:<expected>` when `ImageRaw::new` rejects the buffer)
//!   image.wide  <bits> <order> <w> <h>         -> `p00=<v|none>`: `pixel((0,0))` of a zero filled image
//!        of a size beyond i32::MAX (replay only, never generated; the model driver skips it: the
//!        buffer has >= 2^28 bytes. Lean side: `pixel_none_inside_when_width_wraps`)
//!
//! The generic `ImageRaw<C, O>` is instantiated for the 7 raw widths (BinaryColor, Gray2, Gray4,
//! Gray8, Rgb565, Rgb888 and the local `C32` with `Raw = RawU32`) x 2 data orders; colours are
//! printed as raw numbers.
//!
//! Oracle = the property text as predicates against an independent reference (`ref_pixel`: the
//! documented layout with explicit bit arithmetic, rows padded to whole bytes; `ref_clip`: the
//! intersection of an area with a box by interval arithmetic). Lean statements mirrored:
//!   C09: `new_ok_iff`, `pixel_none_iff`, `pixel_eq_load`/`pixel_row_aligned`, `draw_stream`,
//!        `draw_exact`, `sub_area_eq`, `sub_stream`, `sub_image_eq_cropped_image`,
//!        `nested_sub_image`, `with_center`
//!   C01: `image_default_eq_native`   C02: `image_draw_in_bbox`   C07: `image_translate`
use crate::common::*;
use embedded_graphics::{
    image::{GetPixel, Image, ImageDrawable, ImageDrawableExt, ImageRaw, ImageRawError},
    iterator::raw::RawDataSlice,
    pixelcolor::{raw::*, *},
    prelude::*,
    primitives::Rectangle,
};

pub struct M;

const DEPTHS: [u32; 7] = [1, 2, 4, 8, 16, 24, 32];

/// colour type with `Raw = RawU32` (no built-in colour type has it)
#[derive(Copy, Clone, PartialEq, Eq, Debug)]
pub struct C32(RawU32);
impl PixelColor for C32 {
    type Raw = RawU32;
}
impl From<RawU32> for C32 {
    fn from(r: RawU32) -> Self {
        C32(r)
    }
}
impl From<C32> for RawU32 {
    fn from(c: C32) -> Self {
        c.0
    }
}
impl ColNum for C32 {
    fn num(&self) -> u32 {
        self.0.into_inner()
    }
    fn from_num(n: u32) -> Self {
        C32(RawU32::new(n))
    }
}

macro_rules! dispatch {
    ($bits:expr, $ord:expr, $f:ident ( $($a:expr),* )) => {
        match ($bits, $ord) {
            (1, 0) => $f::<BinaryColor, LittleEndianMsb0>($($a),*),
            (1, _) => $f::<BinaryColor, BigEndianLsb0>($($a),*),
            (2, 0) => $f::<Gray2, LittleEndianMsb0>($($a),*),
            (2, _) => $f::<Gray2, BigEndianLsb0>($($a),*),
            (4, 0) => $f::<Gray4, LittleEndianMsb0>($($a),*),
            (4, _) => $f::<Gray4, BigEndianLsb0>($($a),*),
            (8, 0) => $f::<Gray8, LittleEndianMsb0>($($a),*),
            (8, _) => $f::<Gray8, BigEndianLsb0>($($a),*),
            (16, 0) => $f::<Rgb565, LittleEndianMsb0>($($a),*),
            (16, _) => $f::<Rgb565, BigEndianLsb0>($($a),*),
            (24, 0) => $f::<Rgb888, LittleEndianMsb0>($($a),*),
            (24, _) => $f::<Rgb888, BigEndianLsb0>($($a),*),
            (32, 0) => $f::<C32, LittleEndianMsb0>($($a),*),
            (32, _) => $f::<C32, BigEndianLsb0>($($a),*),
            _ => panic!("bad depth"),
        }
    };
}

struct Obj {
    off: Point,
    mode: u32,
    subs: Vec<Rectangle>,
}

struct DrawOut {
    bb: Rectangle,
    r1: Rec,
    r2: Rec,
    /// the same image drawn through the LIBRARY's `clipped(&bbox)` adapter on unbounded targets (draw_iter-only / native)
    c1: PMap,
    c2: PMap,
}
struct MoveOut {
    bb0: Rectangle,
    bb: Rectangle,
    same_as_mut: bool,
    map0: PMap,
    map: PMap,
    /// the moved image drawn on two BOUNDED native-fill targets (box, picture): one cuts the image at its left / top
    /// side, the other at its right / bottom side
    cut: Vec<(Rectangle, PMap)>,
}

fn expected_of(e: ImageRawError) -> usize {
    match e {
        ImageRawError::InvalidDataSize { expected_data_size } => expected_data_size,
    }
}

fn real_new<C, O>(len: usize, size: Size) -> Result<(), usize>
where
    C: ColNum,
    O: DataOrder,
{
    let data = vec![0u8; len];
    ImageRaw::<C, O>::new(&data, size).map(|_| ()).map_err(expected_of)
}

fn real_pixels<C, O>(bytes: &[u8], size: Size) -> Result<Vec<Option<u32>>, usize>
where
    C: ColNum,
    O: DataOrder,
    for<'a> RawDataSlice<'a, C::Raw, O>: IntoIterator<Item = C::Raw>,
{
    let raw = ImageRaw::<C, O>::new(bytes, size).map_err(expected_of)?;
    let mut v = Vec::new();
    for y in -1..=size.height as i32 {
        for x in -1..=size.width as i32 {
            v.push(raw.pixel(Point::new(x, y)).map(|c| c.num()));
        }
    }
    Ok(v)
}

fn real_wide<C, O>(size: Size) -> Result<Option<u32>, usize>
where
    C: ColNum,
    O: DataOrder,
    for<'a> RawDataSlice<'a, C::Raw, O>: IntoIterator<Item = C::Raw>,
{
    let len = ref_bpr(C::Raw::BITS_PER_PIXEL as u32, size.width) * size.height as usize;
    let data = vec![0u8; len]; // zeroed allocation: pages are never touched
    let raw = ImageRaw::<C, O>::new(&data, size).map_err(expected_of)?;
    Ok(raw.pixel(Point::new(0, 0)).map(|c| c.num()))
}

fn make_image<'a, T: ImageDrawable>(d: &'a T, obj: &Obj) -> Image<'a, T> {
    if obj.mode == 0 {
        Image::new(d, obj.off)
    } else {
        Image::with_center(d, obj.off)
    }
}

fn draw_on<T>(d: &T, obj: &Obj, bbox: Rectangle) -> DrawOut
where
    T: ImageDrawable,
    T::Color: ColNum,
{
    let img = make_image(d, obj);
    let mut r1 = R1::<T::Color>::new(bbox);
    let mut r2 = R2::<T::Color>::new(bbox);
    img.draw(&mut r1).unwrap();
    img.draw(&mut r2).unwrap();
    // through the library's own clipping adapter: its `fill_contiguous` skips colours with `nth` / `skip`
    // (iterator::contiguous::Cropped), another consumer of the image's colour stream than the recording targets
    let mut u1 = R1::<T::Color>::unbounded();
    let mut u2 = R2::<T::Color>::unbounded();
    img.draw(&mut u1.clipped(&bbox)).unwrap();
    img.draw(&mut u2.clipped(&bbox)).unwrap();
    DrawOut { bb: img.bounding_box(), r1: r1.rec, r2: r2.rec, c1: u1.rec.map, c2: u2.rec.map }
}

fn move_on<T>(d: &T, obj: &Obj, by: Point) -> MoveOut
where
    T: ImageDrawable + PartialEq,
    T::Color: ColNum,
{
    let img = make_image(d, obj);
    let moved = img.translate(by);
    let mut m = make_image(d, obj);
    m.translate_mut(by);
    let mut t0 = R1::<T::Color>::unbounded();
    let mut t1 = R1::<T::Color>::unbounded();
    img.draw(&mut t0).unwrap();
    moved.draw(&mut t1).unwrap();
    let mb = moved.bounding_box();
    let (w3, h3) = ((mb.size.width / 3) as i32, (mb.size.height / 3) as i32);
    let mut cut = Vec::new();
    for tl in [mb.top_left + Point::new(w3 + 1, h3 + 1), mb.top_left - Point::new(w3 + 1, h3 + 1)] {
        let b = Rectangle::new(tl, mb.size);
        let mut t = R2::<T::Color>::new(b);
        moved.draw(&mut t).unwrap();
        cut.push((b, t.rec.map));
        // the same box on a draw_iter-only target
        let mut t = R1::<T::Color>::new(b);
        moved.draw(&mut t).unwrap();
        cut.push((b, t.rec.map));
    }
    // degenerate boxes (empty, flat, disjoint) on both kinds of target: nothing may be drawn
    for (_, b) in degenerate_boxes(&mb) {
        let (mut d1, mut d2) = (R1::<T::Color>::new(b), R2::<T::Color>::new(b));
        moved.draw(&mut d1).unwrap();
        moved.draw(&mut d2).unwrap();
        cut.push((b, d1.rec.map));
        cut.push((b, d2.rec.map));
    }
    MoveOut { bb0: img.bounding_box(), bb: moved.bounding_box(), same_as_mut: m == moved, map0: t0.rec.map, map: t1.rec.map, cut }
}

macro_rules! with_drawable {
    ($raw:expr, $obj:expr, $f:ident ( $($a:expr),* )) => {
        match $obj.subs.len() {
            0 => $f(&$raw, $obj, $($a),*),
            1 => {
                let s1 = $raw.sub_image(&$obj.subs[0]);
                $f(&s1, $obj, $($a),*)
            }
            _ => {
                let s1 = $raw.sub_image(&$obj.subs[0]);
                let s2 = s1.sub_image(&$obj.subs[1]);
                $f(&s2, $obj, $($a),*)
            }
        }
    };
}

fn real_draw<C, O>(bytes: &[u8], size: Size, obj: &Obj, bbox: Rectangle) -> Result<DrawOut, usize>
where
    C: ColNum,
    O: DataOrder + PartialEq,
    for<'a> RawDataSlice<'a, C::Raw, O>: IntoIterator<Item = C::Raw>,
{
    let raw = ImageRaw::<C, O>::new(bytes, size).map_err(expected_of)?;
    Ok(with_drawable!(raw, obj, draw_on(bbox)))
}

fn real_move<C, O>(bytes: &[u8], size: Size, obj: &Obj, by: Point) -> Result<MoveOut, usize>
where
    C: ColNum,
    O: DataOrder + PartialEq,
    for<'a> RawDataSlice<'a, C::Raw, O>: IntoIterator<Item = C::Raw>,
{
    let raw = ImageRaw::<C, O>::new(bytes, size).map_err(expected_of)?;
    Ok(with_drawable!(raw, obj, move_on(by)))
}

// ---------------------------------------------------------------------------------------------
// Independent reference.
// ---------------------------------------------------------------------------------------------

/// bytes per row: the least number of whole bytes that hold `w` pixels of `bits` bits
fn ref_bpr(bits: u32, w: u32) -> usize {
    let total = w as usize * bits as usize;
    total / 8 + if total % 8 != 0 { 1 } else { 0 }
}

/// pixel `(x, y)` of an image whose rows start on byte boundaries. LittleEndianMsb0: multi-byte
/// pixels least significant byte first, sub-byte pixels from the most significant bits down;
/// BigEndianLsb0: most significant byte first, sub-byte pixels from the least significant bits up.
fn ref_pixel(bits: u32, order: u32, w: u32, h: u32, bytes: &[u8], x: i32, y: i32) -> Option<u32> {
    if x < 0 || y < 0 || x as i64 >= w as i64 || y as i64 >= h as i64 {
        return None;
    }
    let row = &bytes[y as usize * ref_bpr(bits, w)..];
    let x = x as usize;
    if bits < 8 {
        let ppb = (8 / bits) as usize;
        let slot = (x % ppb) as u32;
        let shift = if order == 0 { 8 - bits * (slot + 1) } else { bits * slot };
        Some(((row[x / ppb] >> shift) as u32) & ((1 << bits) - 1))
    } else {
        let n = (bits / 8) as usize;
        let mut v: u32 = 0;
        for j in 0..n {
            let b = row[x * n + j] as u32;
            v |= if order == 0 { b << (8 * j as u32) } else { b << (8 * (n - 1 - j) as u32) };
        }
        Some(v)
    }
}

/// `area` clipped to `0..w x 0..h` by interval arithmetic: `Some((x0, y0, cw, ch))` with `cw, ch > 0`
/// when there is a common point, `None` otherwise.
fn ref_clip(w: u32, h: u32, a: &Rectangle) -> Option<(i64, i64, i64, i64)> {
    let x0 = (a.top_left.x as i64).max(0);
    let y0 = (a.top_left.y as i64).max(0);
    let x1 = (a.top_left.x as i64 + a.size.width as i64).min(w as i64);
    let y1 = (a.top_left.y as i64 + a.size.height as i64).min(h as i64);
    if x1 > x0 && y1 > y0 {
        Some((x0, y0, x1 - x0, y1 - y0))
    } else {
        None
    }
}

/// The region of the root image an object shows: `(origin x, origin y, width, height)` in root
/// coordinates, `None` when it is empty (sub-image chain: each area is clipped to its parent's box
/// and re-based to the parent's origin).
fn ref_region(w: u32, h: u32, subs: &[Rectangle]) -> Option<(i64, i64, i64, i64)> {
    let mut reg = (0i64, 0i64, w as i64, h as i64);
    for a in subs {
        let (x, y, cw, ch) = ref_clip(reg.2 as u32, reg.3 as u32, a)?;
        reg = (reg.0 + x, reg.1 + y, cw, ch);
    }
    if subs.is_empty() || (reg.2 > 0 && reg.3 > 0) {
        Some(reg)
    } else {
        None
    }
}

fn fmt_opt(v: Option<u32>) -> String {
    match v {
        Some(v) => v.to_string(),
        None => "none".into(),
    }
}

fn pattern(pat: u32, len: usize, rng: &mut Rng) -> Vec<u8> {
    (0..len)
        .map(|j| match pat {
            0 => 0x00,
            1 => 0xFF,
            2 => ((j as u32 * 0x3B + 0xA5) ^ (j as u32 * j as u32 * 7)) as u8,
            3 => (0x1B_u32.wrapping_mul(j as u32 + 1) ^ (j as u32 >> 1) ^ 0xC6) as u8,
            _ => rng.next() as u8,
        })
        .collect()
}

const OFFSETS: [(i32, i32); 6] = [(0, 0), (-2, 3), (5, -1), (-4, -3), (1, 1), (3, 7)];
const MOVES: [(i32, i32); 6] = [(1, 0), (0, -1), (-7, 4), (3, 5), (-2, -9), (0, 0)];

/// target boxes: 0 = unbounded-ish, 1 = one that clips
fn target_box(k: u32) -> Rectangle {
    if k == 0 {
        Rectangle::new(Point::new(-64, -64), Size::new(128, 128))
    } else {
        Rectangle::new(Point::new(-1, 1), Size::new(5, 4))
    }
}

/// sub-image areas relative to a `w x h` parent: inside, overlapping, outside, zero sized
fn areas_for(w: i32, h: i32) -> Vec<(i32, i32, u32, u32)> {
    let u = |v: i32| v.max(0) as u32;
    vec![
        // inside
        (0, 0, u(w), u(h)),
        (1, 1, u(w - 2), u(h - 2)),
        (1, 0, 2, 1),
        (w - 1, h - 1, 1, 1),
        (0, 1, u(w), 1),
        (1, 0, 1, u(h)),
        (2, 1, 3, 2),
        (0, 0, 1, 1),
        (w - 1, 0, 1, u(h)),
        (0, h - 1, u(w), 1),
        // overlapping
        (-1, -1, 3, 3),
        (w - 2, h - 2, 4, 4),
        (-2, 1, u(w + 4), 1),
        (1, -3, 2, u(h + 6)),
        (-5, -5, u(w + 10), u(h + 10)),
        // outside
        (w, 0, 2, 2),
        (0, h, 2, 2),
        (-3, -3, 2, 2),
        (w + 1, h + 1, 1, 1),
        // zero sized
        (1, 1, 0, 2),
        (0, 0, 0, 0),
        (1, 1, 2, 0),
        (w + 2, 1, 0, 3),
    ]
}

/// pairs for nested sub-images (second area is relative to the first sub-image)
fn nested_for(w: i32, h: i32) -> Vec<((i32, i32, u32, u32), (i32, i32, u32, u32))> {
    let u = |v: i32| v.max(0) as u32;
    vec![
        ((1, 1, u(w - 1), u(h - 1)), (1, 0, 2, 2)),
        ((1, 0, u(w - 2), u(h)), (0, 1, u(w - 2), 1)),
        ((-1, -1, u(w), u(h)), (1, 1, 4, 4)),
        ((2, 1, 4, 3), (-1, -1, 3, 3)),
        ((0, 0, u(w), u(h)), (w - 1, h - 1, 3, 3)),
        ((1, 1, 3, 2), (3, 0, 2, 2)),
        ((1, 1, 3, 2), (1, 1, 0, 1)),
        ((w, 0, 2, 2), (0, 0, 1, 1)),
        ((1, 1, 0, 2), (0, 0, 1, 1)),
        ((2, 0, u(w - 3), u(h)), (1, 1, u(w - 4), u(h - 1))),
        ((0, 0, u(w), u(h)), (0, 0, u(w), u(h))),
        ((1, 0, u(w - 1), u(h)), (0, 0, u(w - 1), u(h))),
        ((0, 1, u(w), u(h - 1)), (1, 0, u(w - 1), u(h - 1))),
        ((0, 0, u(w - 1), u(h - 1)), (w - 2, h - 2, 1, 1)),
        ((1, 1, u(w - 1), u(h - 1)), (0, 0, 1, u(h - 1))),
    ]
}

fn area_toks(a: &(i32, i32, u32, u32)) -> String {
    format!("{} {} {} {}", a.0, a.1, a.2, a.3)
}

struct Gen<'a> {
    emit: &'a mut dyn FnMut(String),
    k: u32,
}
impl Gen<'_> {
    fn img(bits: u32, order: u32, w: u32, h: u32, bytes: &[u8]) -> String {
        format!("{} {} {} {} {}", bits, order, w, h, fmt_list(bytes.iter()))
    }
    fn draw(&mut self, img: &str, off: (i32, i32), mode: u32, subs: &[(i32, i32, u32, u32)], bx: u32) {
        let mut s = format!("image.draw {} {} {} {} {}", img, off.0, off.1, mode, subs.len());
        for a in subs {
            s.push(' ');
            s.push_str(&area_toks(a));
        }
        s.push(' ');
        s.push_str(&rect_toks(&target_box(bx)));
        (self.emit)(s);
        self.k += 1;
    }
    fn mv(&mut self, img: &str, off: (i32, i32), mode: u32, subs: &[(i32, i32, u32, u32)], d: (i32, i32)) {
        let mut s = format!("image.move {} {} {} {} {}", img, off.0, off.1, mode, subs.len());
        for a in subs {
            s.push(' ');
            s.push_str(&area_toks(a));
        }
        s.push_str(&format!(" {} {}", d.0, d.1));
        (self.emit)(s);
        self.k += 1;
    }
}

impl Module for M {
    fn name(&self) -> &'static str {
        "image"
    }
    fn rule(&self) -> &'static str {
        "ops: 7 raw widths (1,2,4,8,16,24,32 bit) x 2 data orders x every image size 0..=9 x 0..=4 (quick; 0..=20 x 0..=8 \
         thorough) x byte patterns (zeros, ones, two position dependent formulas, seeded random) x draw offsets incl. \
         negative x Image::new / with_center x sub-image areas (inside, overlapping, outside, zero sized; 23 per size) and \
         nested pairs (15 per size) x 2 target boxes (one clipping) on R1 (draw_iter only) and R2 (native fill draining the \
         colour iterator); ImageRaw::new with lengths expected-1, expected, expected+1, 0; pixel() over the box + 1 px margin; \
         then seeded random images / areas / offsets. A draw or move op is non-trivial when the shown region is non-empty; \
         a pixel op when the image is non-empty; a new op when the expected length is non-zero. distinct = distinct op text."
    }

    fn generate(&self, pid: &str, tier: Tier, rng: &mut Rng, emit: &mut dyn FnMut(String)) {
        let quick = tier == Tier::Quick;
        let (max_w, max_h) = if quick { (9u32, 4u32) } else { (20u32, 8u32) };
        let mut g = Gen { emit, k: 0 };
        let c09 = pid == "C09";
        let c07 = pid == "C07";
        // the cross-cutting checks use a thinner slice of the same scope
        let thin = !c09;
        for &bits in &DEPTHS {
            for order in 0..2u32 {
                for h in 0..=max_h {
                    for w in 0..=max_w {
                        if thin && quick && (w > 6 || h > 3) {
                            continue;
                        }
                        if thin && !quick && (w > 12 || h > 5) {
                            continue;
                        }
                        let len = ref_bpr(bits, w) * h as usize;
                        if c09 {
                            let mut lens = vec![len, len + 1, 0];
                            if len > 0 {
                                lens.push(len - 1);
                            }
                            // unpadded length (what a packed layout would need)
                            lens.push((w as usize * h as usize * bits as usize + 7) / 8);
                            lens.sort();
                            lens.dedup();
                            for l in lens {
                                (g.emit)(format!("image.new {} {} {} {} {}", bits, order, w, h, l));
                            }
                            for pat in 0..5 {
                                let bytes = pattern(pat, len, rng);
                                (g.emit)(format!("image.pixel {}", Gen::img(bits, order, w, h, &bytes)));
                            }
                            // a buffer of the wrong length
                            let bytes = pattern(2, len + 1, rng);
                            (g.emit)(format!("image.pixel {}", Gen::img(bits, order, w, h, &bytes)));
                        }
                        let (wi, hi) = (w as i32, h as i32);
                        if !c07 {
                            // full image
                            for pat in 0..5u32 {
                                if thin && pat != 2 && pat != 4 {
                                    continue;
                                }
                                let bytes = pattern(pat, len, rng);
                                let img = Gen::img(bits, order, w, h, &bytes);
                                let off = OFFSETS[((pat + w + h) % 6) as usize];
                                g.draw(&img, off, if pat == 3 { 1 } else { 0 }, &[], pat % 2);
                                if pat == 2 {
                                    g.draw(&img, OFFSETS[((w + 2 * h) % 6) as usize], 1, &[], 1);
                                }
                            }
                            // sub-images
                            for (i, a) in areas_for(wi, hi).iter().enumerate() {
                                if thin && (i as u32 + w + h) % 3 != 0 {
                                    continue;
                                }
                                let pat = 2 + (g.k % 3);
                                let bytes = pattern(pat, len, rng);
                                let img = Gen::img(bits, order, w, h, &bytes);
                                let off = OFFSETS[((g.k / 3) % 6) as usize];
                                let mode = if g.k % 5 == 4 { 1 } else { 0 };
                                let bx = (g.k / 2) % 2;
                                g.draw(&img, off, mode, &[*a], bx);
                            }
                            for (i, (a, b)) in nested_for(wi, hi).iter().enumerate() {
                                if thin && (i as u32 + w + h) % 3 != 0 {
                                    continue;
                                }
                                let pat = 2 + (g.k % 3);
                                let bytes = pattern(pat, len, rng);
                                let img = Gen::img(bits, order, w, h, &bytes);
                                let off = OFFSETS[((g.k / 3) % 6) as usize];
                                let mode = if g.k % 7 == 6 { 1 } else { 0 };
                                let bx = (g.k / 2) % 2;
                                g.draw(&img, off, mode, &[*a, *b], bx);
                            }
                        }
                        if c09 || c07 {
                            let n = if c07 { 3 } else { 1 };
                            for j in 0..n {
                                let bytes = pattern(2 + j, len, rng);
                                let img = Gen::img(bits, order, w, h, &bytes);
                                let off = OFFSETS[((g.k / 2) % 6) as usize];
                                let d = MOVES[(g.k % 6) as usize];
                                match (g.k + j) % 3 {
                                    0 => g.mv(&img, off, j % 2, &[], d),
                                    1 => {
                                        let a = areas_for(wi, hi)[(g.k % 12) as usize];
                                        g.mv(&img, off, 0, &[a], d)
                                    }
                                    _ => {
                                        let (a, b) = nested_for(wi, hi)[(g.k % 6) as usize];
                                        g.mv(&img, off, j % 2, &[a, b], d)
                                    }
                                }
                            }
                        }
                    }
                }
            }
        }
        // seeded random cases (larger sizes, random content / areas / offsets / target boxes)
        let n_rand = match (quick, thin) {
            (true, false) => 1500,
            (true, true) => 400,
            (false, false) => 20_000,
            (false, true) => 4_000,
        };
        let (rw, rh) = if quick { (12, 6) } else { (24, 10) };
        for _ in 0..n_rand {
            let bits = *rng.pick(&DEPTHS);
            let order = rng.below(2) as u32;
            let w = rng.range(0, rw) as u32;
            let h = rng.range(0, rh) as u32;
            let len = ref_bpr(bits, w) * h as usize;
            let bytes = pattern(4, len, rng);
            let img = Gen::img(bits, order, w, h, &bytes);
            let off = (rng.range(-20, 20) as i32, rng.range(-20, 20) as i32);
            let nsub = rng.below(3) as usize;
            let mut subs = Vec::new();
            let (mut pw, mut ph) = (w as i64, h as i64);
            for _ in 0..nsub {
                let a = (
                    rng.range(-2, pw + 1) as i32,
                    rng.range(-2, ph + 1) as i32,
                    rng.range(0, pw + 3) as u32,
                    rng.range(0, ph + 3) as u32,
                );
                subs.push(a);
                // size of the parent for the next level (approximately: clipped size)
                pw = (a.2 as i64).min(pw);
                ph = (a.3 as i64).min(ph);
            }
            let mode = if rng.chance(1, 4) { 1 } else { 0 };
            if c07 || (c09 && rng.chance(1, 8)) {
                let d = (rng.range(-30, 30) as i32, rng.range(-30, 30) as i32);
                g.mv(&img, off, mode, &subs, d);
            } else {
                let bx = if rng.chance(1, 2) {
                    target_box(0)
                } else {
                    Rectangle::new(
                        Point::new(off.0 + rng.range(-3, 3) as i32, off.1 + rng.range(-3, 3) as i32),
                        Size::new(rng.range(0, rw + 2) as u32, rng.range(0, rh + 2) as u32),
                    )
                };
                let mut s = format!("image.draw {} {} {} {} {}", img, off.0, off.1, mode, subs.len());
                for a in &subs {
                    s.push(' ');
                    s.push_str(&area_toks(a));
                }
                s.push(' ');
                s.push_str(&rect_toks(&bx));
                (g.emit)(s);
            }
        }
    }

    fn execute(&self, op: &str, ctx: &mut Ctx) -> String {
        let mut t = Toks::new(op);
        let stream = t.str();
        let bits = t.u32();
        let order = t.u32();
        let size = t.size();
        let (w, h) = (size.width, size.height);
        let expected = ref_bpr(bits, w) * h as usize;
        ctx.count(&format!("{}:bits={}:order={}", stream, bits, order));
        if stream == "image.new" {
            let len = t.usize();
            let got = dispatch!(bits, order, real_new(len, size));
            // new_ok_iff: accepts exactly buffers of `bytes per row (rows padded to whole bytes) * height` bytes
            ctx.expect(got.is_ok() == (len == expected), "C09:new-accepts-exactly", || format!("{} got {:?} expected {}", op, got, expected));
            if let Err(e) = got {
                ctx.expect(e == expected, "C09:new-error-expected-size", || format!("{} reports {} want {}", op, e, expected));
            }
            ctx.count(if len == expected { "new:len=expected" } else if len < expected { "new:len<expected" } else { "new:len>expected" });
            if expected > 0 {
                ctx.nontrivial(op);
            }
            return match got {
                Ok(()) => "ok".into(),
                Err(e) => format!("err:{}", e),
            };
        }
        if stream == "image.wide" {
            let got = dispatch!(bits, order, real_wide(size));
            let got = match got {
                Err(e) => return format!("err:{}", e),
                Ok(g) => g,
            };
            // pixel_none_iff at the point the theorem excludes (`width, height <= i32::MAX`)
            ctx.expect(got.is_some() == (w > 0 && h > 0), "C09:pixel-none-inside-box:size-exceeds-i32", || {
                format!("{} pixel((0,0)) = {:?} although (0,0) is inside the bounding box", op, got)
            });
            return format!("p00={}", fmt_opt(got));
        }
        let bytes: Vec<u8> = t.u32_list().into_iter().map(|b| b as u8).collect();
        if bits < 8 && w % (8 / bits) != 0 {
            ctx.count("width:not-multiple-of-pixels-per-byte");
        } else {
            ctx.count("width:multiple-of-pixels-per-byte");
        }
        match stream {
            "image.pixel" => {
                let got = dispatch!(bits, order, real_pixels(&bytes, size));
                ctx.expect(got.is_ok() == (bytes.len() == expected), "C09:new-accepts-exactly", || format!("{} expected {}", op, expected));
                let px = match got {
                    Err(e) => return format!("err:{}", e),
                    Ok(px) => px,
                };
                let mut i = 0;
                let mut none_ok = true;
                let mut val_ok = true;
                for y in -1..=h as i32 {
                    for x in -1..=w as i32 {
                        let inside = x >= 0 && y >= 0 && (x as u32) < w && (y as u32) < h;
                        // pixel_none_iff: `None` exactly outside the bounding box
                        none_ok &= px[i].is_none() == !inside;
                        // pixel_eq_load / row padding: the documented layout, rows on byte boundaries
                        val_ok &= px[i] == ref_pixel(bits, order, w, h, &bytes, x, y);
                        i += 1;
                    }
                }
                ctx.expect(none_ok, "C09:pixel-none-iff-outside", || format!("{} got {:?}", op, px));
                ctx.expect(val_ok, "C09:pixel-value", || format!("{} got {:?}", op, px));
                if w > 0 && h > 0 {
                    ctx.nontrivial(op);
                }
                fmt_list(px.iter().map(|p| fmt_opt(*p)))
            }
            "image.draw" | "image.move" => {
                let off = t.point();
                let mode = t.u32();
                let nsub = t.usize();
                let subs: Vec<Rectangle> = (0..nsub).map(|_| t.rect()).collect();
                let obj = Obj { off, mode, subs };
                ctx.count(&format!("obj:nsub={}:mode={}", nsub, mode));
                if bytes.len() != expected {
                    // not generated; keep the protocol total
                    let e = dispatch!(bits, order, real_new(bytes.len(), size)).err().unwrap_or(0);
                    return format!("err:{}", e);
                }
                let region = ref_region(w, h, &obj.subs);
                // classify the areas for the input distribution
                {
                    let (mut pw, mut ph) = (w, h);
                    for (lvl, a) in obj.subs.iter().enumerate() {
                        let kind = match ref_clip(pw, ph, a) {
                            _ if a.size.width == 0 || a.size.height == 0 => "zero",
                            None => "outside",
                            Some((x, y, cw, ch)) => {
                                if (x, y) == (a.top_left.x as i64, a.top_left.y as i64) && cw == a.size.width as i64 && ch == a.size.height as i64 {
                                    "inside"
                                } else {
                                    "overlapping"
                                }
                            }
                        };
                        ctx.count(&format!("area:level{}:{}", lvl + 1, kind));
                        match ref_clip(pw, ph, a) {
                            Some((_, _, cw, ch)) => {
                                pw = cw as u32;
                                ph = ch as u32;
                            }
                            None => {
                                pw = 0;
                                ph = 0;
                            }
                        }
                    }
                }
                if let Some((_, _, rw, rh)) = region {
                    if rw > 0 && rh > 0 {
                        ctx.nontrivial(op);
                    }
                }
                // the expected offset: `Image::new` = the given point; `with_center`: the shown region is
                // centred on the given point (extra pixel of even sizes right / below)
                let exp_off = |sz: (i64, i64)| -> (i64, i64) {
                    if obj.mode == 0 {
                        (off.x as i64, off.y as i64)
                    } else {
                        (off.x as i64 - (sz.0 - 1).max(0) / 2, off.y as i64 - (sz.1 - 1).max(0) / 2)
                    }
                };
                if stream == "image.draw" {
                    let bbox = t.rect();
                    ctx.count(if bbox == target_box(0) { "target:wide" } else { "target:clipping" });
                    let out = dispatch!(bits, order, real_draw(&bytes, size, &obj, bbox)).expect("length checked");
                    // expected picture: region pixel p at target point o + p, nothing else
                    let mut want = PMap::new();
                    let mut want_stream: Vec<u32> = Vec::new();
                    if let Some((rx, ry, rw, rh)) = region {
                        let o = exp_off((rw, rh));
                        for py in 0..rh {
                            for px in 0..rw {
                                let c = ref_pixel(bits, order, w, h, &bytes, (rx + px) as i32, (ry + py) as i32).expect("region inside the root image");
                                want_stream.push(c);
                                let q = Point::new((o.0 + px) as i32, (o.1 + py) as i32);
                                if bbox.contains(q) {
                                    want.insert((q.y, q.x), c);
                                }
                            }
                        }
                        // sub_area_eq / with_center: the bounding box is the shown region placed at the offset
                        let want_bb = Rectangle::new(Point::new(o.0 as i32, o.1 as i32), Size::new(rw as u32, rh as u32));
                        if rw > 0 && rh > 0 {
                            ctx.expect(out.bb == want_bb, if obj.mode == 0 { "C09:bounding-box" } else { "C09:with-center" }, || {
                                format!("{} bb {:?} want {:?}", op, out.bb, want_bb)
                            });
                        }
                    } else {
                        ctx.expect(out.bb.is_zero_sized(), "C09:bounding-box", || format!("{} bb {:?} want zero sized", op, out.bb));
                    }
                    // draw_exact / sub_image_eq_cropped_image (both target implementations)
                    ctx.expect(out.r1.map == want, "C09:draw-exact-default-target", || format!("{} got {} want {}", op, out.r1.fmt_map(), fmt_map(&want)));
                    ctx.expect(out.r2.map == want, "C09:draw-exact-native-target", || format!("{} got {} want {}", op, out.r2.fmt_map(), fmt_map(&want)));
                    // ... and through `clipped(&box)` of the library on unbounded targets: the same picture (the clip box
                    // of an unbounded parent is the box itself)
                    ctx.expect(out.c1 == want && out.c2 == want, "C09:draw-exact-through-clipped-adapter", || {
                        format!("{} default {} native {} want {}", op, fmt_map(&out.c1), fmt_map(&out.c2), fmt_map(&want))
                    });
                    // draw_stream / sub_stream (the text): every colour stream handed to fill_contiguous has exactly
                    // width x height colours for the area it is given, and carries, row-major over that area, the pixel the
                    // image shows at each point (before the target clips; R2 drains the iterator and records everything).
                    // NOT the text (the model's call list, validated as `tie-hypothesis` classes: a failure is a broken tie,
                    // not a failing input): that the image is drawn by ONE fill_contiguous call and that its area is the
                    // bounding box.
                    let mut want_full: std::collections::HashMap<(i32, i32), u32> = std::collections::HashMap::new();
                    if let Some((_, _, rw, rh)) = region {
                        let o = exp_off((rw, rh));
                        for py in 0..rh {
                            for px in 0..rw {
                                want_full.insert(((o.0 + px) as i32, (o.1 + py) as i32), want_stream[(py * rw + px) as usize]);
                            }
                        }
                    }
                    let mut fc = 0;
                    let mut other_calls = 0;
                    for c in &out.r2.log {
                        match c {
                            Call::FillContiguous(a, cs) => {
                                fc += 1;
                                let n = a.size.width as usize * a.size.height as usize;
                                let surplus_is_next_row = cs.len() > n && cs.len() <= n + a.size.width as usize;
                                ctx.expect(cs.len() == n, if surplus_is_next_row { "C09:stream-one-row-too-long" } else { "C09:stream-length" }, || {
                                    format!("{} area {} pulled {} colours want {}", op, fmt_rect(a), cs.len(), n)
                                });
                                let colours_ok = cs.iter().take(n).enumerate().all(|(i, c)| {
                                    let q = (a.top_left.x + (i as u32 % a.size.width) as i32, a.top_left.y + (i as u32 / a.size.width) as i32);
                                    want_full.get(&q) == Some(c)
                                });
                                ctx.expect(colours_ok, "C09:stream-colours", || format!("{} area {} pulled {:?} want (whole region) {:?}", op, fmt_rect(a), cs, want_stream));
                                ctx.expect(*a == out.bb, "C09:tie-hypothesis:fill-area-is-bounding-box", || format!("{} area {} bb {}", op, fmt_rect(a), fmt_rect(&out.bb)));
                            }
                            _ => other_calls += 1,
                        }
                    }
                    ctx.expect(fc <= 1 && other_calls == 0, "C09:tie-hypothesis:image-drawn-by-one-fill_contiguous", || {
                        format!("{} {} fill_contiguous calls, {} other calls", op, fc, other_calls)
                    });
                    if fc == 1 {
                        ctx.count("draw:fill_contiguous");
                    } else {
                        ctx.count("draw:nothing");
                    }
                    // C01: the same picture on the draw_iter-only target and on the native target
                    ctx.expect(out.r1.map == out.r2.map, "C01:image-default-vs-native", || format!("{} r1 {} r2 {}", op, out.r1.fmt_map(), out.r2.fmt_map()));
                    // C02: every pixel offered to the target (before clipping) lies inside bounding_box()
                    let mut inside = true;
                    for c in &out.r1.log {
                        if let Call::DrawIter(px) = c {
                            inside &= px.iter().all(|((x, y), _)| out.bb.contains(Point::new(*x, *y)));
                        }
                    }
                    for c in &out.r2.log {
                        if let Call::FillContiguous(a, _) = c {
                            inside &= a.points().all(|p| out.bb.contains(p));
                        }
                    }
                    ctx.expect(inside, "C02:image-outside-bounding-box", || format!("{} bb {} log {}", op, fmt_rect(&out.bb), out.r1.fmt_log()));
                    format!(
                        "bb={} r1={} r2={} log1={} log2={}",
                        fmt_rect(&out.bb),
                        out.r1.fmt_map(),
                        out.r2.fmt_map(),
                        out.r1.fmt_log(),
                        out.r2.fmt_log()
                    )
                } else {
                    let d = t.point();
                    let out = dispatch!(bits, order, real_move(&bytes, size, &obj, d)).expect("length checked");
                    // C07: the translated image draws the same picture shifted by d ...
                    let shifted: PMap = out.map0.iter().map(|((y, x), c)| ((y + d.y, x + d.x), *c)).collect();
                    ctx.expect(out.map == shifted, "C07:image-translate-picture", || format!("{} got {} want {}", op, fmt_map(&out.map), fmt_map(&shifted)));
                    // ... also on a bounded target that cuts the moved image (at the left / top, at the right / bottom):
                    // what is inside the target is the shifted picture (seeded change C07-r3-2 drew "the visible part"
                    // at the wrong place when the image was cut at its left or top side)
                    for (b, m) in &out.cut {
                        let want: PMap = restrict_map(&shifted, b);
                        if b.size.width == 0 || b.size.height == 0 || (want.is_empty() && !shifted.is_empty()) {
                            ctx.count("move:degenerate-bounded-target");
                        }
                        if want.len() != shifted.len() && !want.is_empty() {
                            ctx.count("move:cut-by-a-bounded-target");
                        }
                        ctx.expect(*m == want, "C07:image-translate-picture-on-bounded-target", || format!("{} box {} got {} want {}", op, fmt_rect(b), fmt_map(m), fmt_map(&want)));
                    }
                    // ... its bounding box shifts by d ...
                    let want_bb = Rectangle::new(out.bb0.top_left + d, out.bb0.size);
                    ctx.expect(out.bb == want_bb, "C07:image-translate-bounding-box", || format!("{} bb {:?} want {:?}", op, out.bb, want_bb));
                    // ... and translate_mut leaves the value translate returns
                    ctx.expect(out.same_as_mut, "C07:image-translate-mut", || op.to_string());
                    format!("bb={} mut={} r1={}", fmt_rect(&out.bb), if out.same_as_mut { 1 } else { 0 }, fmt_map(&out.map))
                }
            }
            _ => panic!("unknown op {}", op),
        }
    }
}
