//! module `scale` — C08: rendering is total and allocation-free on display-scale inputs.
//!
//!   scale.shape <shape> <style>                  every query + draw of a styled primitive
//!   scale.text <font 0..3|null> <baseline> <align> <lh kind> <lh value> <colours mask> x y <codepoints>
//!   scale.image <bits> <order> w h x y sx sy sw sh tx ty tw th     image, sub-image, nested sub-image, pixel()
//!   scale.reject <kind> ...                      out-of-range coordinates / indices are rejected without a panic
//!     kind `drawsub <bits> <order> <via> x y w h`: a DIRECT `ImageDrawable::draw_sub_image(&image, &mut target, &area)`
//!     on a 5 x 3 `ImageRaw` (via 0) or on its sub-image (1, 1) 3 x 2 (via 1) — `sub_image()` crops its area, a direct call
//!     does not. Oracle: no panic; nothing is written outside the target area `(0,0) + area.size`; an area not inside the
//!     PARENT image draws nothing; an area inside the addressed image itself draws exactly its pixels; for an area outside
//!     the sub-image but inside its parent (via 1) the text demands nothing beyond "no panic": what happens is recorded in
//!     the counters `obs:drawsub-outside-sub-image-inside-parent-draws-{parent-pixels,nothing}`
//!   scale.adapter <root box> <stack> <job>       shapes / images / text / target calls drawn through clipped, cropped,
//!                                                translated, colour-converted targets and stacks of them (m_scale_adapter.rs)
//!
//! Every call into the library happens with pre-built arguments, on non-allocating counting
//! targets, with the allocation counter armed; the harness is compiled with overflow checks and
//! debug assertions. Oracle: no panic (a panic is reported by main.rs with its site as class),
//! 0 allocations, iteration budgets not exceeded (termination).
#[path = "m_scale_adapter.rs"]
mod adapter;
#[path = "m_scale_chk.rs"]
mod chk;
use crate::common::*;
use crate::shapes::*;
use crate::with_shape;
use embedded_graphics::{
    framebuffer::{buffer_size, Framebuffer},
    image::{GetPixel, Image, ImageRaw},
    mono_font::{ascii, iso_8859_1, MonoTextStyleBuilder},
    pixelcolor::{
        raw::{BigEndianLsb0, LittleEndianMsb0, RawData, RawU1, RawU16, RawU2, RawU24, RawU32, RawU4, RawU8},
        BinaryColor, Gray2, Gray4, Gray8, Rgb565, Rgb888,
    },
    prelude::*,
    primitives::{ContainsPoint, Rectangle, Styled},
    text::{Alignment, Baseline, LineHeight, Text, TextStyleBuilder},
};

pub struct M;

/// Non-allocating target: counts pixels, enforces a budget (termination), optional native fills.
struct Null<C> {
    bbox: Rectangle,
    n: u64,
    budget: u64,
    over: bool,
    native: bool,
    _c: core::marker::PhantomData<C>,
}
impl<C> Null<C> {
    fn new(bbox: Rectangle, native: bool) -> Self {
        Null { bbox, n: 0, budget: 40_000_000, over: false, native, _c: Default::default() }
    }
}
impl<C> Dimensions for Null<C> {
    fn bounding_box(&self) -> Rectangle {
        self.bbox
    }
}
impl<C: PixelColor> DrawTarget for Null<C> {
    type Color = C;
    type Error = core::convert::Infallible;
    fn draw_iter<I: IntoIterator<Item = Pixel<C>>>(&mut self, pixels: I) -> Result<(), Self::Error> {
        for _ in pixels {
            self.n += 1;
            if self.n > self.budget {
                self.over = true;
                break;
            }
        }
        Ok(())
    }
    fn fill_contiguous<I: IntoIterator<Item = C>>(&mut self, area: &Rectangle, colors: I) -> Result<(), Self::Error> {
        if self.native {
            for _ in colors {
                self.n += 1;
                if self.n > self.budget {
                    self.over = true;
                    break;
                }
            }
            Ok(())
        } else {
            self.draw_iter(area.points().zip(colors).map(|(p, c)| Pixel(p, c)))
        }
    }
    fn fill_solid(&mut self, area: &Rectangle, color: C) -> Result<(), Self::Error> {
        if self.native {
            self.n += area.size.width as u64 * area.size.height as u64;
            Ok(())
        } else {
            self.fill_contiguous(area, core::iter::repeat(color))
        }
    }
}

const BIASED: [i64; 16] = [0, 1, 2, 3, 63, 64, 65, 240, 255, 256, 257, 320, 480, 1000, 1023, 1024];
const WIDTHS: [i64; 8] = [0, 1, 2, 3, 5, 64, 127, 128];

fn biased(rng: &mut Rng) -> i64 {
    if rng.chance(3, 4) {
        *rng.pick(&BIASED)
    } else {
        rng.range(0, 1024)
    }
}
fn coord(rng: &mut Rng) -> i64 {
    let v = biased(rng);
    if rng.chance(1, 2) {
        -v
    } else {
        v
    }
}

fn scale_shape(rng: &mut Rng) -> String {
    let (x, y) = (coord(rng), coord(rng));
    // keep top_left + size inside the +-1024 coordinate domain where the property says so
    let sz = |rng: &mut Rng| biased(rng);
    match rng.below(9) {
        0 => format!("rect {} {} {} {}", x, y, sz(rng), sz(rng)),
        1 => format!("circle {} {} {}", x, y, sz(rng)),
        2 => format!("ellipse {} {} {} {}", x, y, sz(rng), sz(rng)),
        3 => {
            let mut s = format!("rrect {} {} {} {}", x, y, sz(rng), sz(rng));
            for _ in 0..4 {
                s.push_str(&format!(" {} {}", sz(rng), sz(rng)));
            }
            s
        }
        4 => format!("tri {} {} {} {} {} {}", x, y, coord(rng), coord(rng), coord(rng), coord(rng)),
        5 => format!("line {} {} {} {}", x, y, coord(rng), coord(rng)),
        6 => {
            let n = rng.range(0, 5);
            let mut s = format!("poly 0 0 {}", n);
            let mut last = (x, y);
            for _ in 0..n {
                if !rng.chance(1, 6) {
                    last = (coord(rng), coord(rng));
                }
                s.push_str(&format!(" {} {}", last.0, last.1));
            }
            s
        }
        7 => format!("arc {} {} {} {} {}", x, y, sz(rng), rng.range(-720, 720) * 1000, rng.range(-720, 720) * 1000),
        _ => format!("sector {} {} {} {} {}", x, y, sz(rng), rng.range(-720, 720) * 1000, rng.range(-720, 720) * 1000),
    }
}

impl Module for M {
    fn name(&self) -> &'static str {
        "scale"
    }
    fn rule(&self) -> &'static str {
        "display-scale domain (|coord| <= 1024, sizes <= 1024, stroke widths 0..=128, line heights <= 1024 px / 400 %), values biased to \
         {0,1,2,3,63,64,65,240,255,256,257,320,480,1000,1023,1024}; degenerate objects (zero sizes, coincident vertices, empty polylines, \
         empty strings and images, null font); rejection ops with out-of-range coordinates / indices; scale.adapter: representative shapes, images, text and target \
         calls drawn through every adapter kind, every ordered pair of kinds and some 3-deep stacks (areas / offsets at display scale, partly or wholly outside, negative, empty) on \
         320x240 / 1024x768 / 1024x1024 / off-origin / empty roots, then seeded random stacks x jobs. Every op runs all constructors, queries \
         and draw() under an armed allocation counter, overflow checks and debug assertions. Model side of the result lines (plain models, Driver/Scale.lean): scale.shape for every \
         shape kind when the styled bounding box and the primitive's box are at most 100 000 px (arcs / sectors through trailing `hk` hook tokens), scale.image, scale.text for a built-in font with \
         both or neither of text / background colour, scale.reject sub; every other scale.shape / scale.text / scale.reject / scale.dotted op is oracle only (`skip`). Non-trivial: the op iterated at least one pixel or point; distinct = op text."
    }

    fn generate(&self, _pid: &str, tier: Tier, rng: &mut Rng, emit: &mut dyn FnMut(String)) {
        // `scale.shape arc|sector ..`: trailing hook tokens for the model side (shapes.rs `with_hooks`; never read by `execute`)
        let mut hooked = |s: String| emit(with_hooks(s));
        let emit: &mut dyn FnMut(String) = &mut hooked;
        let quick = tier == Tier::Quick;
        // degenerate objects first
        for st in ["7 9 1 1", "7 9 128 0", "- 9 3 2", "7 - 0 1", "- - 0 1"] {
            for sh in [
                "rect 0 0 0 0", "rect -1024 -1024 1024 1024", "rect 0 0 1024 1024", "circle 0 0 0", "circle 0 0 1", "circle -512 -512 1024",
                "ellipse 0 0 0 5", "ellipse 0 0 5 0", "ellipse 0 0 1 1024", "ellipse 0 0 1024 1", "ellipse 0 0 320 240", "ellipse -512 -512 1024 1024",
                "rrect 0 0 0 0 0 0 0 0 0 0 0 0", "rrect 0 0 1024 1024 512 512 512 512 512 512 512 512", "rrect 0 0 10 10 1024 1024 1024 1024 1024 1024 1024 1024",
                "rrect 0 0 320 240 200 200 0 0 200 200 0 0",
                "tri 0 0 0 0 0 0", "tri 5 5 5 5 9 9", "tri -1024 -1024 1024 -1024 0 1024", "tri 0 0 10 10 20 20",
                "line 0 0 0 0", "line -1024 -1024 1024 1024", "line -1024 0 1024 1", "line 0 0 1000 0",
                "poly 0 0 0", "poly 0 0 1 5 5", "poly 0 0 2 5 5 5 5", "poly 0 0 3 0 0 10 0 0 0", "poly 0 0 4 -1024 -1024 1024 -1024 1024 1024 -1024 1024",
                "arc 0 0 0 0 90000", "arc 0 0 1024 0 360000", "arc 0 0 1 15000 -720000", "sector 0 0 0 0 90000", "sector -512 -512 1024 -90000 450000", "sector 0 0 2 0 1",
            ] {
                emit(format!("scale.shape {} {}", sh, st));
            }
        }
        // dotted strokes exist for rectangles only; the property does not restrict the stroke style
        for w in [0i64, 1, 2, 3, 4, 5, 8, 9, 10, 33, 1024] {
            for h in [0i64, 1, 2, 3, 4, 7, 8, 240] {
                for sw in [0i64, 1, 2, 3, 4, 5, 8, 64, 128] {
                    for a in 0..3 {
                        emit(format!("scale.dotted rect -3 2 {} {} 7 9 {} {}", w, h, sw, a));
                    }
                }
            }
        }
        for _ in 0..(if quick { 300 } else { 10_000 }) {
            emit(format!("scale.dotted rect {} {} {} {} - 9 {} {}", coord(rng), coord(rng), biased(rng), biased(rng), *rng.pick(&WIDTHS), rng.below(3)));
        }
        let n = if quick { 2500 } else { 36_000 };
        for _ in 0..n {
            let w = if rng.chance(3, 4) { *rng.pick(&WIDTHS) } else { rng.range(0, 128) };
            let f = if rng.chance(1, 2) { "7" } else { "-" };
            let s = if rng.chance(3, 4) { "9" } else { "-" };
            emit(format!("scale.shape {} {} {} {} {}", scale_shape(rng), f, s, w, rng.below(3)));
        }
        // text
        let strings: [&[u32]; 9] = [&[], &[65], &[10], &[10, 10, 10], &[65, 66, 13, 10, 67], &[0x1F600, 0, 9, 127], &[72, 101, 108, 108, 111, 32, 119, 10, 111, 114, 108, 100], &[32, 32, 32], &[0xE9, 0xFC, 10, 0xDF]];
        let nt = if quick { 1200 } else { 18_000 };
        for i in 0..nt {
            let font = if i % 7 == 0 { "null".to_string() } else { format!("{}", rng.below(4)) };
            let (lhk, lhv) = match rng.below(3) {
                0 => (0, 0),
                1 => (1, *rng.pick(&[0i64, 1, 2, 9, 10, 64, 1023, 1024])),
                _ => (2, *rng.pick(&[0i64, 1, 50, 100, 150, 399, 400])),
            };
            let s = strings[rng.below(strings.len() as u64) as usize];
            emit(format!(
                "scale.text {} {} {} {} {} {} {} {} {}",
                font,
                rng.below(4),
                rng.below(3),
                lhk,
                lhv,
                rng.below(16),
                coord(rng),
                coord(rng),
                fmt_list(s.iter())
            ));
        }
        // images
        let ni = if quick { 600 } else { 10_000 };
        for _ in 0..ni {
            let bits = *rng.pick(&[1u32, 2, 4, 8, 16, 24, 32]);
            let w = *rng.pick(&[0i64, 1, 2, 3, 7, 8, 9, 64, 65]);
            let h = *rng.pick(&[0i64, 1, 2, 5, 33]);
            let r = |rng: &mut Rng| rng.range(-3, 70);
            emit(format!(
                "scale.image {} {} {} {} {} {} {} {} {} {} {} {} {} {}",
                bits, rng.below(2), w, h, coord(rng), coord(rng), r(rng), r(rng), r(rng).max(0), r(rng).max(0), r(rng), r(rng), r(rng).max(0), r(rng).max(0)
            ));
        }
        // rejection of out-of-range coordinates / indices
        let big: [i64; 10] = [-1, 0, 1, 7, 8, 9, 1024, 65536, i32::MAX as i64, i32::MIN as i64];
        for bits in [1u32, 2, 4, 8, 16, 24, 32] {
            for order in 0..2 {
                for x in big {
                    for y in [-1i64, 0, 2, 3, i32::MAX as i64, i32::MIN as i64] {
                        emit(format!("scale.reject fb {} {} {} {}", bits, order, x, y));
                        emit(format!("scale.reject imgpixel {} {} {} {}", bits, order, x, y));
                    }
                }
                for len in [0usize, 1, 2, 3, 4, 5, 8] {
                    for idx in [0u64, 1, 2, 3, 7, 8, 9, 63, 64, 65, 1 << 20, (1 << 31) - 1, 1 << 31, (1 << 32) - 1, 1 << 32, 1 << 62, (1 << 63) - 1, 1 << 63, u64::MAX / 3, u64::MAX / 2, u64::MAX - 1, u64::MAX] {
                        emit(format!("scale.reject raw {} {} {} {}", bits, order, len, idx));
                    }
                }
            }
        }
        // DrawTarget calls on a Framebuffer (9 x 3) with areas that are empty, partly or completely outside (round-4 seed
        // C08-r4-1: a `fill_solid` fast path that sliced the buffer out of range for a zero-width, tall area)
        for bits in [1u32, 2, 4, 8, 16, 24, 32] {
            for order in 0..2 {
                for mode in 0..4 {
                    for (x, y) in [(0i64, 0i64), (1, 0), (8, 2), (9, 3), (-1, -1), (3, 1), (-4, 1), (5, -7), (1024, 0), (0, 1024), (-1024, -1024)] {
                        for (w, h) in [(0i64, 0i64), (0, 9), (9, 0), (1, 1), (3, 2), (9, 3), (10, 4), (0, 1024), (1024, 0), (40, 40)] {
                            emit(format!("scale.reject fbdraw {} {} {} {} {} {} {}", bits, order, mode, x, y, w, h));
                        }
                    }
                    for (x, y, w, h) in [(i32::MAX as i64, 0i64, 0i64, 5i64), (0, i32::MAX as i64, 5, 0), (i32::MIN as i64, i32::MIN as i64, 1, 1), (i32::MAX as i64, i32::MAX as i64, 1, 1), (i32::MIN as i64, 0, 0, 0)] {
                        emit(format!("scale.reject fbdraw {} {} {} {} {} {} {}", bits, order, mode, x, y, w, h));
                    }
                }
            }
        }
        for x in [-5i64, -1, 0, 3, 4, 5, 1024, i32::MAX as i64, i32::MIN as i64] {
            for y in [-1i64, 0, 2, 3, i32::MIN as i64] {
                for w in [0i64, 1, 4, 5, 1024, u32::MAX as i64] {
                    for h in [0i64, 1, 3, 4, u32::MAX as i64] {
                        emit(format!("scale.reject sub {} {} {} {}", x, y, w, h));
                    }
                }
            }
        }
        // direct `draw_sub_image` calls: negative corners by 1..=size, touching the edges, beyond right / bottom, zero
        // sizes, extreme corners, huge sizes (the panics of the tree before /repo a083ac5 are in corpus/C08.ops)
        let dxs: [i64; 17] = [i32::MIN as i64, -(1 << 31) + 1, -65536, -6, -5, -4, -1, 0, 1, 2, 4, 5, 6, 65536, (1 << 31) - 6, (1 << 31) - 2, i32::MAX as i64];
        let dys: [i64; 13] = [i32::MIN as i64, -65536, -4, -3, -1, 0, 1, 2, 3, 4, 65536, (1 << 31) - 2, i32::MAX as i64];
        let dws: [i64; 12] = [0, 1, 2, 3, 4, 5, 6, 65536, (1 << 31) - 1, 1 << 31, u32::MAX as i64 - 1, u32::MAX as i64];
        let dhs: [i64; 8] = [0, 1, 2, 3, 4, 65536, 1 << 31, u32::MAX as i64];
        let mut k = 0u64;
        for (bits, order) in [(1u32, 0u32), (1, 1), (2, 0), (2, 1), (4, 0), (4, 1), (8, 0), (16, 0), (16, 1), (24, 0), (24, 1)] {
            for via in 0..2 {
                for &x in &dxs {
                    for &y in &dys {
                        for &w in &dws {
                            for &h in &dhs {
                                let small = x.abs() <= 6 && y.abs() <= 4 && w <= 6 && h <= 4;
                                k += 1;
                                // exhaustive over the small values for the first image, a sample elsewhere
                                if small && bits == 1 && order == 0 && (tier != Tier::Quick || k % 2 == 0) || small && k % 25 == 0 || !small && k % (if tier == Tier::Quick { 211 } else { 41 }) == 0 {
                                    emit(format!("scale.reject drawsub {} {} {} {} {} {} {}", bits, order, via, x, y, w, h));
                                }
                            }
                        }
                    }
                }
            }
        }
        chk::generate(_pid, tier, rng, emit);
        // adapter stacks at display scale (last, so that the ops above keep their seeds)
        adapter::generate(tier, rng, emit);
    }

    fn execute(&self, op: &str, ctx: &mut Ctx) -> String {
        let mut t = Toks::new(op);
        let stream = t.str();
        alloc_reset();
        if stream.starts_with("scale.chk.") {
            return chk::execute(op, ctx);
        }
        if stream == "scale.adapter" {
            return adapter::execute(op, ctx);
        }
        match stream {
            "scale.shape" => {
                let shape = Shape::parse(&mut t);
                let style = parse_style(&mut t);
                ctx.count(&format!("shape:{}", shape.kind()));
                if style.stroke_width >= 64 {
                    ctx.count("shape:wide-stroke");
                }
                let tb = Rectangle::new(Point::new(-1024, -1024), Size::new(2048, 2048));
                let mut probes = [Point::zero(); 6];
                let (n, over) = with_shape!(&shape, p => {
                    let s = Styled::new(p.clone(), style);
                    let mut d1 = Null::<Rgb565>::new(tb, false);
                    let mut d2 = Null::<Rgb565>::new(tb, true);
                    alloc_arm(true);
                    let bb = s.bounding_box();
                    let pb = p.bounding_box();
                    s.draw(&mut d1).unwrap();
                    s.draw(&mut d2).unwrap();
                    let mut n = d1.n + d2.n;
                    let mut over = d1.over || d2.over;
                    let mut k = 0u64;
                    for _ in s.pixels() {
                        k += 1;
                        if k > 40_000_000 { over = true; break; }
                    }
                    n += k;
                    k = 0;
                    for _ in p.points() {
                        k += 1;
                        if k > 40_000_000 { over = true; break; }
                    }
                    n += k;
                    let kp = k;
                    let moved = s.translate(Point::new(3, -2));
                    let _ = moved.bounding_box();
                    alloc_arm(false);
                    // the iterators as iterators (size_hint, nth, fold, count, last, skip, step_by; fresh, after some next(),
                    // exhausted): no panic, and the same items as next() (round-5 seed C08-r5-2: an exact size_hint that
                    // underflows once no row is left); small shapes only
                    if kp <= 200 {
                        iter_protocol_check(ctx, "C08:iterator-protocol:points", p.points(), 200);
                        iter_protocol_check(ctx, "C08:iterator-protocol:pixels", s.pixels(), 600);
                    }
                    probes = [pb.top_left, pb.center(), bb.top_left, bb.center(), pb.top_left + pb.size, Point::new(0, 0)];
                    (n, over)
                });
                // contains() for the shapes that have it
                macro_rules! cont {
                    ($p:expr) => {{
                        alloc_arm(true);
                        let mut c = 0;
                        for q in probes {
                            if $p.contains(q) {
                                c += 1;
                            }
                        }
                        alloc_arm(false);
                        c
                    }};
                }
                let inside = match &shape {
                    Shape::Rect(p) => cont!(p),
                    Shape::Circle(p) => cont!(p),
                    Shape::Ellipse(p) => cont!(p),
                    Shape::RRect(p) => cont!(p),
                    Shape::Tri(p) => cont!(p),
                    Shape::Sector(p) => cont!(p),
                    _ => 0,
                };
                let allocs = alloc_arm(false);
                if n > 0 {
                    ctx.nontrivial(op);
                }
                ctx.expect(allocs == 0, "C08:heap-allocation", || format!("{} allocation(s) inside library calls", allocs));
                ctx.expect(!over, "C08:iteration-budget-exceeded", || "more than 4e7 items from one iterator".into());
                format!("ok n={} in={} alloc={}", n, inside, allocs)
            }
            "scale.dotted" => {
                let shape = Shape::parse(&mut t);
                let style = embedded_graphics::primitives::PrimitiveStyleBuilder::from(&parse_style(&mut t))
                    .stroke_style(embedded_graphics::primitives::StrokeStyle::Dotted)
                    .build();
                ctx.count("dotted:rect");
                let tb = Rectangle::new(Point::new(-2048, -2048), Size::new(4096, 4096));
                let Shape::Rect(r) = shape else { panic!("scale.dotted needs a rect") };
                let s = Styled::new(r, style);
                let mut d1 = Null::<Rgb565>::new(tb, false);
                let mut d2 = Null::<Rgb565>::new(tb, true);
                alloc_arm(true);
                let _ = s.bounding_box();
                s.draw(&mut d1).unwrap();
                s.draw(&mut d2).unwrap();
                let mut k = 0u64;
                for _ in s.pixels() {
                    k += 1;
                    if k > 40_000_000 {
                        break;
                    }
                }
                let allocs = alloc_arm(false);
                if d1.n > 0 {
                    ctx.nontrivial(op);
                }
                ctx.expect(allocs == 0, "C08:heap-allocation", || format!("{} allocation(s)", allocs));
                ctx.expect(!d1.over && !d2.over && k <= 40_000_000, "C08:iteration-budget-exceeded", || "budget".into());
                format!("ok n={} alloc={}", d1.n + d2.n + k, allocs)
            }
            "scale.text" => {
                let font = t.str();
                let baseline = [Baseline::Top, Baseline::Bottom, Baseline::Middle, Baseline::Alphabetic][t.usize()];
                let align = [Alignment::Left, Alignment::Center, Alignment::Right][t.usize()];
                let lhk = t.u32();
                let lhv = t.u32();
                let mask = t.u32();
                let pos = t.point();
                let s: String = t.u32_list().into_iter().map(|c| char::from_u32(c).unwrap_or('?')).collect();
                ctx.count(&format!("text:font-{}", font));
                let mut b = MonoTextStyleBuilder::<Rgb565>::new();
                if font != "null" {
                    b = b.font([&ascii::FONT_4X6, &ascii::FONT_6X10, &ascii::FONT_10X20, &iso_8859_1::FONT_9X18_BOLD][font.parse::<usize>().unwrap()]);
                }
                if mask & 1 != 0 {
                    b = b.text_color(Rgb565::new(1, 2, 3));
                }
                if mask & 2 != 0 {
                    b = b.background_color(Rgb565::new(3, 2, 1));
                }
                if mask & 4 != 0 {
                    b = b.underline();
                }
                if mask & 8 != 0 {
                    b = b.strikethrough_with_color(Rgb565::new(9, 9, 9));
                }
                let cs = b.build();
                let ts = TextStyleBuilder::new()
                    .baseline(baseline)
                    .alignment(align)
                    .line_height(match lhk {
                        0 => LineHeight::Percent(100),
                        1 => LineHeight::Pixels(lhv),
                        _ => LineHeight::Percent(lhv),
                    })
                    .build();
                let text = Text::with_text_style(&s, pos, cs, ts);
                let tb = Rectangle::new(Point::new(-2048, -2048), Size::new(4096, 4096));
                let mut d1 = Null::<Rgb565>::new(tb, false);
                let mut d2 = Null::<Rgb565>::new(tb, true);
                alloc_arm(true);
                let bb = text.bounding_box();
                let n1 = text.draw(&mut d1).unwrap();
                let n2 = text.draw(&mut d2).unwrap();
                let moved = text.translate(Point::new(-7, 9));
                let _ = moved.bounding_box();
                let allocs = alloc_arm(false);
                if d1.n > 0 {
                    ctx.nontrivial(op);
                }
                ctx.expect(allocs == 0, "C08:heap-allocation", || format!("{} allocation(s)", allocs));
                ctx.expect(n1 == n2, "C08:text-next-position-depends-on-target", || format!("{:?} vs {:?}", n1, n2));
                format!("ok n={} next={},{} bb={} alloc={}", d1.n + d2.n, n1.x, n1.y, fmt_rect(&bb), allocs)
            }
            "scale.image" => {
                let bits = t.u32();
                let order = t.u32();
                let size = t.size();
                let pos = t.point();
                let sub = t.rect();
                let sub2 = t.rect();
                ctx.count(&format!("image:{}bpp", bits));
                macro_rules! img {
                    ($c:ty, $o:ty) => {{
                        let bpr = (size.width as usize * bits as usize + 7) / 8;
                        let data: Vec<u8> = (0..bpr * size.height as usize).map(|i| (i * 37 + 11) as u8).collect();
                        let tb = Rectangle::new(Point::new(-2048, -2048), Size::new(4096, 4096));
                        let mut d1 = Null::<$c>::new(tb, false);
                        let mut d2 = Null::<$c>::new(tb, true);
                        alloc_arm(true);
                        let raw = ImageRaw::<$c, $o>::new(&data, size);
                        let mut n = 0u64;
                        let mut some = 0u32;
                        if let Ok(raw) = raw {
                            let im = Image::new(&raw, pos);
                            let _ = im.bounding_box();
                            im.draw(&mut d1).unwrap();
                            im.draw(&mut d2).unwrap();
                            let s1 = raw.sub_image(&sub);
                            let i1 = Image::new(&s1, pos);
                            let _ = i1.bounding_box();
                            i1.draw(&mut d1).unwrap();
                            i1.draw(&mut d2).unwrap();
                            let s2 = s1.sub_image(&sub2);
                            let i2 = Image::with_center(&s2, pos);
                            let _ = i2.bounding_box();
                            i2.draw(&mut d1).unwrap();
                            i2.draw(&mut d2).unwrap();
                            for q in [Point::new(-1, 0), Point::new(0, -1), Point::zero(), Point::new(size.width as i32, 0), Point::new(0, size.height as i32), Point::new(i32::MAX, i32::MAX), Point::new(i32::MIN, 3), sub.top_left] {
                                if raw.pixel(q).is_some() {
                                    some += 1;
                                }
                            }
                            n = d1.n + d2.n;
                        }
                        let allocs = alloc_arm(false);
                        (n, some, allocs, d1.over || d2.over)
                    }};
                }
                let (n, some, allocs, over) = match (bits, order) {
                    (1, 0) => img!(BinaryColor, LittleEndianMsb0),
                    (1, _) => img!(BinaryColor, BigEndianLsb0),
                    (2, 0) => img!(Gray2, LittleEndianMsb0),
                    (2, _) => img!(Gray2, BigEndianLsb0),
                    (4, 0) => img!(Gray4, LittleEndianMsb0),
                    (4, _) => img!(Gray4, BigEndianLsb0),
                    (8, 0) => img!(Gray8, LittleEndianMsb0),
                    (8, _) => img!(Gray8, BigEndianLsb0),
                    (16, 0) => img!(Rgb565, LittleEndianMsb0),
                    (16, _) => img!(Rgb565, BigEndianLsb0),
                    (_, 0) => img!(Rgb888, LittleEndianMsb0),
                    (_, _) => img!(Rgb888, BigEndianLsb0),
                };
                if n > 0 {
                    ctx.nontrivial(op);
                }
                ctx.expect(allocs == 0, "C08:heap-allocation", || format!("{} allocation(s)", allocs));
                ctx.expect(!over, "C08:iteration-budget-exceeded", || "budget".into());
                format!("ok n={} some={} alloc={}", n, some, allocs)
            }
            "scale.reject" => {
                let kind = t.str();
                ctx.count(&format!("reject:{}", kind));
                ctx.nontrivial(op);
                match kind {
                    "fb" | "imgpixel" => {
                        let bits = t.u32();
                        let order = t.u32();
                        let p = Point::new(t.i64() as i32, t.i64() as i32);
                        macro_rules! fb {
                            ($c:ty, $r:ty, $o:ty, $col:expr) => {{
                                let mut fb = Framebuffer::<$c, $r, $o, 9, 3, { buffer_size::<$c>(9, 3) }>::new();
                                let before: Vec<u8> = fb.data().to_vec();
                                let inside = p.x >= 0 && p.x < 9 && p.y >= 0 && p.y < 3;
                                if kind == "fb" {
                                    fb.set_pixel(p, $col);
                                    let got = fb.pixel(p);
                                    if !inside {
                                        ctx.expect(fb.data() == &before[..], "C08:outside-write-changed-bytes", || format!("{:?}", p));
                                        ctx.expect(got.is_none(), "C08:outside-pixel-not-none", || format!("{:?}", p));
                                    } else {
                                        ctx.expect(got == Some($col), "C08:inside-pixel-lost", || format!("{:?}", p));
                                    }
                                    format!("ok inside={}", inside as u8)
                                } else {
                                    let im = fb.as_image();
                                    let got = im.pixel(p);
                                    ctx.expect(got.is_some() == inside, "C08:image-pixel-none-iff-outside", || format!("{:?}", p));
                                    format!("ok inside={}", inside as u8)
                                }
                            }};
                        }
                        match (bits, order) {
                            (1, 0) => fb!(BinaryColor, RawU1, LittleEndianMsb0, BinaryColor::On),
                            (1, _) => fb!(BinaryColor, RawU1, BigEndianLsb0, BinaryColor::On),
                            (2, 0) => fb!(Gray2, RawU2, LittleEndianMsb0, Gray2::new(2)),
                            (2, _) => fb!(Gray2, RawU2, BigEndianLsb0, Gray2::new(2)),
                            (4, 0) => fb!(Gray4, RawU4, LittleEndianMsb0, Gray4::new(9)),
                            (4, _) => fb!(Gray4, RawU4, BigEndianLsb0, Gray4::new(9)),
                            (8, 0) => fb!(Gray8, RawU8, LittleEndianMsb0, Gray8::new(200)),
                            (8, _) => fb!(Gray8, RawU8, BigEndianLsb0, Gray8::new(200)),
                            (16, 0) => fb!(Rgb565, RawU16, LittleEndianMsb0, Rgb565::new(1, 2, 3)),
                            (16, _) => fb!(Rgb565, RawU16, BigEndianLsb0, Rgb565::new(1, 2, 3)),
                            (_, 0) => fb!(Rgb888, RawU24, LittleEndianMsb0, Rgb888::new(1, 2, 3)),
                            (_, _) => fb!(Rgb888, RawU24, BigEndianLsb0, Rgb888::new(1, 2, 3)),
                        }
                    }
                    "fbdraw" => {
                        // mode 0 fill_solid, 1 fill_contiguous (64 colours, alternating), 2 draw_iter (corners of the area and
                        // their outer neighbours), 3 clear. Expected content from plain i64 interval arithmetic.
                        let bits = t.u32();
                        let order = t.u32();
                        let mode = t.u32();
                        let (x, y, w, h) = (t.i64(), t.i64(), t.i64(), t.i64());
                        macro_rules! fbd {
                            ($c:ty, $r:ty, $o:ty, $c1:expr, $c2:expr) => {{
                                let mut fb = Framebuffer::<$c, $r, $o, 9, 3, { buffer_size::<$c>(9, 3) }>::new();
                                let zero = fb.pixel(Point::zero()).unwrap();
                                let area = Rectangle::new(Point::new(x as i32, y as i32), Size::new(w as u32, h as u32));
                                let mut want: Vec<$c> = vec![zero; 27];
                                let mut put = |px: i64, py: i64, c: $c| {
                                    if px >= 0 && px < 9 && py >= 0 && py < 3 {
                                        want[(py * 9 + px) as usize] = c;
                                    }
                                };
                                alloc_arm(true);
                                match mode {
                                    0 => {
                                        fb.fill_solid(&area, $c1).unwrap();
                                    }
                                    1 => {
                                        fb.fill_contiguous(&area, (0..64).map(|i| if i % 2 == 0 { $c1 } else { $c2 })).unwrap();
                                    }
                                    2 => {
                                        let (x, y, w, h) = (x as i32, y as i32, w as i32, h as i32);
                                        let pts = [
                                            Point::new(x, y), Point::new(x.wrapping_sub(1), y), Point::new(x, y.wrapping_sub(1)),
                                            Point::new(x.wrapping_add(w), y.wrapping_add(h)), Point::new(x.wrapping_add(w).wrapping_sub(1), y.wrapping_add(h).wrapping_sub(1)),
                                        ];
                                        fb.draw_iter(pts.iter().map(|p| Pixel(*p, $c2))).unwrap();
                                    }
                                    _ => {
                                        fb.clear($c2).unwrap();
                                    }
                                }
                                let allocs = alloc_arm(false);
                                match mode {
                                    0 => {
                                        for py in 0..3i64 {
                                            for px in 0..9i64 {
                                                if px >= x && px < x + w && py >= y && py < y + h {
                                                    put(px, py, $c1);
                                                }
                                            }
                                        }
                                    }
                                    1 => {
                                        if w > 0 && h > 0 {
                                            for k in 0..64i64.min(w * h) {
                                                put(x + k % w, y + k / w, if k % 2 == 0 { $c1 } else { $c2 });
                                            }
                                        }
                                    }
                                    2 => {
                                        let wr = |v: i64| v as i32 as i64;
                                        for (px, py) in [(x, y), (wr(x - 1), y), (x, wr(y - 1)), (wr(x + w), wr(y + h)), (wr(wr(x + w) - 1), wr(wr(y + h) - 1))] {
                                            put(px, py, $c2);
                                        }
                                    }
                                    _ => {
                                        for py in 0..3 {
                                            for px in 0..9 {
                                                put(px, py, $c2);
                                            }
                                        }
                                    }
                                }
                                let mut bad = 0;
                                for py in 0..3 {
                                    for px in 0..9 {
                                        if fb.pixel(Point::new(px, py)) != Some(want[(py * 9 + px) as usize]) {
                                            bad += 1;
                                        }
                                    }
                                }
                                ctx.expect(bad == 0, "C08:framebuffer-draw-call-content", || format!("{} cell(s) differ", bad));
                                ctx.expect(allocs == 0, "C08:heap-allocation", || format!("{}", allocs));
                                ctx.expect(fb.pixel(Point::new(9, 0)).is_none() && fb.pixel(Point::new(0, 3)).is_none(), "C08:outside-pixel-not-none", || "9,0 / 0,3".into());
                                format!("ok bad={}", bad)
                            }};
                        }
                        match (bits, order) {
                            (1, 0) => fbd!(BinaryColor, RawU1, LittleEndianMsb0, BinaryColor::On, BinaryColor::On),
                            (1, _) => fbd!(BinaryColor, RawU1, BigEndianLsb0, BinaryColor::On, BinaryColor::On),
                            (2, 0) => fbd!(Gray2, RawU2, LittleEndianMsb0, Gray2::new(2), Gray2::new(1)),
                            (2, _) => fbd!(Gray2, RawU2, BigEndianLsb0, Gray2::new(2), Gray2::new(1)),
                            (4, 0) => fbd!(Gray4, RawU4, LittleEndianMsb0, Gray4::new(9), Gray4::new(6)),
                            (4, _) => fbd!(Gray4, RawU4, BigEndianLsb0, Gray4::new(9), Gray4::new(6)),
                            (8, 0) => fbd!(Gray8, RawU8, LittleEndianMsb0, Gray8::new(200), Gray8::new(77)),
                            (8, _) => fbd!(Gray8, RawU8, BigEndianLsb0, Gray8::new(200), Gray8::new(77)),
                            (16, 0) => fbd!(Rgb565, RawU16, LittleEndianMsb0, Rgb565::new(1, 2, 3), Rgb565::new(30, 20, 10)),
                            (16, _) => fbd!(Rgb565, RawU16, BigEndianLsb0, Rgb565::new(1, 2, 3), Rgb565::new(30, 20, 10)),
                            (24, 0) => fbd!(Rgb888, RawU24, LittleEndianMsb0, Rgb888::new(1, 2, 3), Rgb888::new(250, 128, 7)),
                            (24, _) => fbd!(Rgb888, RawU24, BigEndianLsb0, Rgb888::new(1, 2, 3), Rgb888::new(250, 128, 7)),
                            (_, 0) => fbd!(Rgb888, RawU24, LittleEndianMsb0, Rgb888::new(4, 5, 6), Rgb888::new(0, 255, 9)),
                            (_, _) => fbd!(Rgb888, RawU24, BigEndianLsb0, Rgb888::new(4, 5, 6), Rgb888::new(0, 255, 9)),
                        }
                    }
                    "raw" => {
                        let bits = t.u32();
                        let order = t.u32();
                        let len = t.usize();
                        let idx = t.u64() as usize;
                        macro_rules! raw {
                            ($r:ty, $o:ty) => {{
                                let mut buf: Vec<u8> = (0..len).map(|i| (i * 29 + 5) as u8).collect();
                                let before = buf.clone();
                                let capacity = (len as u128 * 8) / bits as u128;
                                let inside = (idx as u128) < capacity;
                                let l = <$r>::load::<$o>(&buf, idx);
                                let s = <$r>::from_u32(0x5A5A_5A5A).store::<$o>(&mut buf, idx);
                                ctx.expect(l.is_some() == inside, "C08:load-none-iff-outside", || format!("len {} idx {}", len, idx));
                                ctx.expect(s.is_ok() == inside, "C08:store-err-iff-outside", || format!("len {} idx {}", len, idx));
                                if !inside {
                                    ctx.expect(buf == before, "C08:outside-store-changed-bytes", || format!("len {} idx {}", len, idx));
                                }
                                format!("ok inside={}", inside as u8)
                            }};
                        }
                        match (bits, order) {
                            (1, 0) => raw!(RawU1, LittleEndianMsb0),
                            (1, _) => raw!(RawU1, BigEndianLsb0),
                            (2, 0) => raw!(RawU2, LittleEndianMsb0),
                            (2, _) => raw!(RawU2, BigEndianLsb0),
                            (4, 0) => raw!(RawU4, LittleEndianMsb0),
                            (4, _) => raw!(RawU4, BigEndianLsb0),
                            (8, 0) => raw!(RawU8, LittleEndianMsb0),
                            (8, _) => raw!(RawU8, BigEndianLsb0),
                            (16, 0) => raw!(RawU16, LittleEndianMsb0),
                            (16, _) => raw!(RawU16, BigEndianLsb0),
                            (24, 0) => raw!(RawU24, LittleEndianMsb0),
                            (24, _) => raw!(RawU24, BigEndianLsb0),
                            (_, 0) => raw!(RawU32, LittleEndianMsb0),
                            (_, _) => raw!(RawU32, BigEndianLsb0),
                        }
                    }
                    "sub" => {
                        let x = t.i64() as i32;
                        let y = t.i64() as i32;
                        let w = t.i64() as u32;
                        let h = t.i64() as u32;
                        let data = [0x5Au8; 3];
                        let raw = ImageRaw::<BinaryColor>::new(&data, Size::new(5, 3)).unwrap();
                        let area = Rectangle::new(Point::new(x, y), Size::new(w, h));
                        let tb = Rectangle::new(Point::new(-64, -64), Size::new(128, 128));
                        let mut d = Null::<BinaryColor>::new(tb, true);
                        alloc_arm(true);
                        let s = raw.sub_image(&area);
                        let bb = s.bounding_box();
                        Image::new(&s, Point::new(1, 1)).draw(&mut d).unwrap();
                        let s2 = s.sub_image(&area);
                        Image::new(&s2, Point::new(1, 1)).draw(&mut d).unwrap();
                        let allocs = alloc_arm(false);
                        ctx.expect(allocs == 0, "C08:heap-allocation", || format!("{}", allocs));
                        ctx.expect(bb.is_zero_sized() || (bb.size.width <= 5 && bb.size.height <= 3), "C08:sub-image-larger-than-parent", || fmt_rect(&bb));
                        format!("ok bb={} n={}", fmt_rect(&bb), d.n)
                    }
                    "drawsub" => {
                        let bits = t.u32();
                        let order = t.u32();
                        let via = t.u32();
                        let area = Rectangle::new(Point::new(t.i64() as i32, t.i64() as i32), Size::new(t.i64() as u32, t.i64() as u32));
                        macro_rules! ds {
                            ($c:ty, $o:ty) => {{
                                let data: Vec<u8> = (0..64u32).map(|i| (i * 37 + 11) as u8).collect();
                                let size = Size::new(5, 3);
                                let len = ((5 * bits as usize + 7) / 8) * 3;
                                let raw = ImageRaw::<$c, $o>::new(&data[..len], size).unwrap();
                                let mut rec = R2::<$c>::unbounded();
                                // (ix, iy, iw, ih): the image the call addresses, in coordinates of `raw`
                                let (ox, oy, iw, ih) = if via == 0 { (0i64, 0i64, 5i64, 3i64) } else { (1, 1, 3, 2) };
                                if via == 0 {
                                    raw.draw_sub_image(&mut rec, &area).unwrap();
                                } else {
                                    let sub = raw.sub_image(&Rectangle::new(Point::new(1, 1), Size::new(3, 2)));
                                    sub.draw_sub_image(&mut rec, &area).unwrap();
                                }
                                let (x, y, w, h) = (area.top_left.x as i64, area.top_left.y as i64, area.size.width as i64, area.size.height as i64);
                                // Two readings of "inside" for via 1 (the area is given in the SUB-image's coordinates): inside the
                                // sub-image itself (`own`), or inside the parent image the sub-image hands the area on to. C08's
                                // text only says that out-of-range areas "are rejected without a panic", and the documentation of
                                // `ImageDrawable::draw_sub_image` only that no drawing operation outside the given area may occur
                                // (every implementation draws the area at the target's origin). So the oracle states:
                                //   * no panic (main.rs), and NOTHING is written outside the target area `(0,0) + area.size`;
                                //   * an area that is not inside the parent image (out of range under either reading) draws nothing;
                                //   * an area inside the addressed image itself draws exactly that image's pixels;
                                //   * an area outside the sub-image but inside its parent (via 1 only): no claim about what is
                                //     drawn - the behaviour is RECORDED as an observation counter.
                                let inside_parent = w > 0 && h > 0 && x + ox >= 0 && y + oy >= 0 && x + ox + w <= 5 && y + oy + h <= 3;
                                let inside_own = w > 0 && h > 0 && x >= 0 && y >= 0 && x + w <= iw && y + h <= ih;
                                ctx.count(if inside_parent { "reject:drawsub-inside" } else { "reject:drawsub-outside" });
                                let in_target_area = rec.rec.outside == 0 && rec.rec.map.keys().all(|(py, px)| 0 <= *px as i64 && (*px as i64) < w && 0 <= *py as i64 && (*py as i64) < h);
                                ctx.expect(in_target_area, "C08:drawsub-writes-outside-the-target-area", || {
                                    format!("area size {}x{}: {}", w, h, rec.rec.log.iter().map(|c| c.fmt()).collect::<Vec<_>>().join("|"))
                                });
                                if !inside_parent {
                                    ctx.expect(rec.rec.log.is_empty(), "C08:drawsub-outside-area-drawn", || format!("{} calls", rec.rec.log.len()));
                                } else if inside_own {
                                    let want: Vec<u32> = (0..h).flat_map(|r| (0..w).map(move |c| (c, r))).map(|(c, r)| raw.pixel(Point::new((x + ox + c) as i32, (y + oy + r) as i32)).unwrap().num()).collect();
                                    let ok = rec.rec.log.len() == 1 && rec.rec.log[0] == Call::FillContiguous(Rectangle::new(Point::zero(), area.size), want.clone());
                                    ctx.expect(ok, "C08:drawsub-inside-area-wrong-pixels", || rec.rec.log.iter().map(|c| c.fmt()).collect::<Vec<_>>().join("|"));
                                } else {
                                    ctx.count(if rec.rec.log.is_empty() {
                                        "obs:drawsub-outside-sub-image-inside-parent-draws-nothing"
                                    } else {
                                        "obs:drawsub-outside-sub-image-inside-parent-draws-parent-pixels"
                                    });
                                }
                                format!("ok inside={} own={} calls={}", inside_parent as u8, inside_own as u8, rec.rec.log.len())
                            }};
                        }
                        match (bits, order) {
                            (1, 0) => ds!(BinaryColor, LittleEndianMsb0),
                            (1, _) => ds!(BinaryColor, BigEndianLsb0),
                            (2, 0) => ds!(Gray2, LittleEndianMsb0),
                            (2, _) => ds!(Gray2, BigEndianLsb0),
                            (4, 0) => ds!(Gray4, LittleEndianMsb0),
                            (4, _) => ds!(Gray4, BigEndianLsb0),
                            (8, 0) => ds!(Gray8, LittleEndianMsb0),
                            (8, _) => ds!(Gray8, BigEndianLsb0),
                            (16, 0) => ds!(Rgb565, LittleEndianMsb0),
                            (16, _) => ds!(Rgb565, BigEndianLsb0),
                            (24, 0) => ds!(Rgb888, LittleEndianMsb0),
                            (24, _) => ds!(Rgb888, BigEndianLsb0),
                            (other, _) => panic!("scale.reject drawsub: no colour type with {} bits", other),
                        }
                    }
                    other => panic!("unknown reject kind {}", other),
                }
            }
            other => panic!("unknown op {}", other),
        }
    }
}
