//! C19 — not built yet.
use crate::common::*;

pub struct C19;

impl Prop for C19 {
    fn id(&self) -> &'static str {
        "C19"
    }
    fn rule(&self) -> &'static str {
        "not built yet"
    }
    fn generate(&self, _tier: Tier, _rng: &mut Rng, _emit: &mut dyn FnMut(String)) {}
    fn execute(&self, op: &str, _ctx: &mut Ctx) -> String {
        panic!("unknown op {}", op)
    }
}
