//! streams `scale.chk.<kernel>` of module `scale` — C08: range of the integer arithmetic.
//!
//! Each op runs ONE public-API function of the library at the given integer arguments (display
//! scale and extreme values far outside it) inside `catch_unwind` and prints a canonical one-line
//! result; a panic (overflow check, debug assertion, slice index, ...) prints exactly `panic`. The
//! Lean model computes the same line with checked arithmetic. Oracle: an op whose arguments are all
//! at display scale never panics.
//!
//!   scale.chk.pt.addsize x y w h            scale.chk.pt.subsize x y w h
//!   scale.chk.rect.br x y w h               scale.chk.rect.contains x y w h px py
//!   scale.chk.rect.isect a(4) b(4)          scale.chk.rect.envelope a(4) b(4)
//!   scale.chk.rect.center x y w h           scale.chk.rect.withcenter cx cy w h
//!   scale.chk.rect.offset x y w h o         scale.chk.rect.resized x y w h nw nh ax ay
//!   scale.chk.rect.anchor x y w h ax ay     scale.chk.rect.translate x y w h dx dy
//!   scale.chk.circle.contains x y d px py   scale.chk.circle.offset x y d o
//!   scale.chk.ellipse.contains x y w h px py   scale.chk.ellipse.offset x y w h o
//!   scale.chk.line.points x0 y0 x1 y1 n     scale.chk.thick x0 y0 x1 y1 w n
//!   scale.chk.join x0 y0 x1 y1 x2 y2 w      scale.chk.img.new bits w h len
//!   scale.chk.raw.load bits order len idx   scale.chk.raw.store bits order len idx
//!   scale.chk.sub pw ph x y w h
//!   scale.chk.text fi cw ch sp bl lhk lhv baseline align x y nlines nchars
//!   + the kernels of m_scale_chk2.rs (triangles, rounded rectangles, sectors / arcs, scanlines, glyphs)
#[path = "m_scale_chk2.rs"]
mod more;
use crate::common::*;
use embedded_graphics::{
    geometry::{AnchorPoint, AnchorX, AnchorY},
    image::{ImageDrawableExt, ImageRaw, ImageRawError},
    mono_font::{ascii, iso_8859_1, MonoFont, MonoTextStyle},
    pixelcolor::{
        raw::{BigEndianLsb0, LittleEndianMsb0, RawData, RawU1, RawU16, RawU2, RawU24, RawU32, RawU4, RawU8},
        BinaryColor, Gray2, Gray4, Gray8, Rgb565, Rgb888,
    },
    prelude::*,
    primitives::{Circle, ContainsPoint, Ellipse, Line, OffsetOutline, Polyline, PrimitiveStyle, Rectangle},
    text::{Alignment, Baseline, LineHeight, Text, TextStyleBuilder},
};

static ZEROS: [u8; 8192] = [0; 8192];

/// Non-recording target: counts what it is given. `fill_solid` is native (the area is counted, not
/// iterated: a target's own fill involves no library arithmetic). The stroke of a thick polyline is
/// drawn one scanline at a time and every scanline walks its edge lines from their start, so a
/// polyline tens of thousands of rows high takes seconds; `limit` lets the target end the draw
/// with an error after that many calls (used only for ops outside the display scale, where every
/// panic observed happens before the first call: the join arithmetic does not depend on the row).
struct Null {
    n: u64,
    calls: u64,
    limit: u64,
}
#[derive(Debug)]
struct Stop;
impl Null {
    fn call(&mut self) -> Result<(), Stop> {
        self.calls += 1;
        if self.calls > self.limit {
            Err(Stop)
        } else {
            Ok(())
        }
    }
}
impl Dimensions for Null {
    fn bounding_box(&self) -> Rectangle {
        Rectangle::new(Point::new(-4096, -4096), Size::new(8192, 8192))
    }
}
impl DrawTarget for Null {
    type Color = BinaryColor;
    type Error = Stop;
    fn draw_iter<I: IntoIterator<Item = Pixel<BinaryColor>>>(&mut self, pixels: I) -> Result<(), Self::Error> {
        self.call()?;
        for _ in pixels {
            self.n += 1;
        }
        Ok(())
    }
    fn fill_solid(&mut self, area: &Rectangle, _color: BinaryColor) -> Result<(), Self::Error> {
        self.call()?;
        self.n += area.size.width as u64 * area.size.height as u64;
        Ok(())
    }
}

fn fonts() -> [&'static MonoFont<'static>; 4] {
    [&ascii::FONT_4X6, &ascii::FONT_6X10, &ascii::FONT_10X20, &iso_8859_1::FONT_9X18_BOLD]
}

// ---------------------------------------------------------------------------------------------
// generator
// ---------------------------------------------------------------------------------------------
const BIASED: [i64; 16] = [0, 1, 2, 3, 63, 64, 65, 240, 255, 256, 257, 320, 480, 1000, 1023, 1024];
const XI: [i64; 24] = [
    i32::MIN as i64,
    i32::MIN as i64 + 1,
    -(1 << 30),
    -65536,
    -46341,
    -46340,
    -32768,
    -32767,
    -2,
    -1,
    0,
    1,
    2,
    32767,
    32768,
    46340,
    46341,
    65535,
    65536,
    1 << 28,
    (1 << 28) + 1,
    1 << 30,
    i32::MAX as i64 - 1,
    i32::MAX as i64,
];
const XU: [i64; 12] = [0, 1, 2, 65535, 65536, 1 << 28, (1 << 31) - 2, (1 << 31) - 1, 1 << 31, (1 << 31) + 1, u32::MAX as i64 - 1, u32::MAX as i64];
const OFFS: [i64; 13] = [-128, -127, -64, -3, -2, -1, 0, 1, 2, 3, 64, 127, 128];
const WIDTHS: [i64; 8] = [0, 1, 2, 3, 5, 64, 127, 128];

fn biased(rng: &mut Rng) -> i64 {
    if rng.chance(3, 4) {
        *rng.pick(&BIASED)
    } else {
        rng.range(0, 1024)
    }
}
fn coord(rng: &mut Rng) -> i64 {
    let v = biased(rng);
    if rng.chance(1, 2) {
        -v
    } else {
        v
    }
}

/// argument kinds of the simple kernels
#[derive(Clone, Copy, PartialEq)]
enum K {
    /// i32 coordinate
    C,
    /// u32 size / diameter
    S,
    /// i32 outline offset
    O,
    /// anchor selector 0..=2
    A,
}
fn ds_val(k: K, rng: &mut Rng) -> i64 {
    match k {
        K::C => coord(rng),
        K::S => biased(rng),
        K::O => {
            if rng.chance(3, 4) {
                *rng.pick(&OFFS)
            } else {
                rng.range(-128, 128)
            }
        }
        K::A => rng.range(0, 2),
    }
}
fn ex_val(k: K, rng: &mut Rng) -> i64 {
    match k {
        K::C | K::O => *rng.pick(&XI),
        K::S => *rng.pick(&XU),
        K::A => rng.range(0, 2),
    }
}
fn join(args: &[i64]) -> String {
    let mut s = String::new();
    for a in args {
        s.push(' ');
        s.push_str(&a.to_string());
    }
    s
}

fn gen_simple(kernel: &str, kinds: &[K], fixed: &[&str], n: usize, rng: &mut Rng, emit: &mut dyn FnMut(String)) {
    let stream = format!("scale.chk.{}", kernel);
    // all-zero arguments and the corners of the display-scale domain
    let corner = |f: &dyn Fn(usize, K) -> i64| -> String {
        let mut ci = 0;
        let v: Vec<i64> = kinds
            .iter()
            .map(|&k| {
                let r = f(ci, k);
                if k == K::C {
                    ci += 1;
                }
                r
            })
            .collect();
        join(&v)
    };
    emit(format!("{}{}", stream, corner(&|_, _| 0)));
    emit(format!("{}{}", stream, corner(&|_, k| match k { K::C => -1152, K::S => 1280, K::O => -128, K::A => 0 })));
    emit(format!("{}{}", stream, corner(&|_, k| match k { K::C => 2176, K::S => 1280, K::O => 128, K::A => 2 })));
    emit(format!("{}{}", stream, corner(&|_, k| match k { K::C => 2176, K::S => 0, K::O => -128, K::A => 1 })));
    emit(format!("{}{}", stream, corner(&|_, k| match k { K::C => -1152, K::S => 1, K::O => 128, K::A => 1 })));
    emit(format!("{}{}", stream, corner(&|i, k| match k { K::C => if (i / 2) % 2 == 0 { -1152 } else { 2176 }, K::S => 1280, K::O => 128, K::A => 2 })));
    emit(format!("{}{}", stream, corner(&|i, k| match k { K::C => if (i / 2) % 2 == 0 { 2176 } else { -1152 }, K::S => 1279, K::O => -127, K::A => 0 })));
    for f in fixed {
        emit(format!("{} {}", stream, f));
    }
    let numeric: Vec<usize> = (0..kinds.len()).filter(|&i| kinds[i] != K::A).collect();
    for i in 0..n {
        let mut v: Vec<i64> = kinds.iter().map(|&k| ds_val(k, rng)).collect();
        if i % 2 == 1 {
            let forced = *rng.pick(&numeric);
            for &j in &numeric {
                if j == forced || rng.chance(1, 3) {
                    v[j] = ex_val(kinds[j], rng);
                }
            }
        }
        emit(format!("{}{}", stream, join(&v)));
    }
}

pub fn generate(pid: &str, tier: Tier, rng: &mut Rng, emit: &mut dyn FnMut(String)) {
    if pid != "C08" {
        return;
    }
    let mult: usize = if tier == Tier::Quick { 1 } else { 20 };
    let n = 200 * mult;
    use K::*;

    gen_simple(
        "pt.addsize",
        &[C, C, S, S],
        &["0 0 2147483648 0", "0 0 0 2147483648", "0 0 2147483647 2147483647", "1 0 2147483647 0", "0 1 0 2147483647", "-2147483648 -2147483648 2147483647 2147483647", "-1 -1 4294967295 4294967295", "2147483647 2147483647 0 0", "2147483646 0 1 0", "2147483646 0 2 0"],
        n,
        rng,
        emit,
    );
    gen_simple(
        "pt.subsize",
        &[C, C, S, S],
        &["0 0 2147483648 0", "0 0 0 2147483648", "0 0 2147483647 2147483647", "-1 0 2147483647 0", "-2 0 2147483647 0", "0 -2 0 2147483647", "2147483647 2147483647 2147483647 2147483647", "-2147483648 -2147483648 0 0", "-2147483648 0 1 0", "-2147483647 0 1 0", "-1 -1 4294967295 4294967295"],
        n,
        rng,
        emit,
    );
    gen_simple(
        "rect.br",
        &[C, C, S, S],
        &["2147483647 0 2 1", "2147483647 0 1 1", "0 2147483647 1 2", "0 2147483647 1 1", "0 0 2147483648 1", "0 0 2147483649 1", "0 0 1 2147483649", "0 0 4294967295 4294967295", "-2147483648 -2147483648 4294967295 4294967295", "-2147483648 -2147483648 1 1", "1 1 2147483647 2147483647", "2 1 2147483647 2147483647", "5 5 0 7", "5 5 7 0"],
        n,
        rng,
        emit,
    );
    gen_simple(
        "rect.contains",
        &[C, C, S, S, C, C],
        &["0 0 10 10 9 9", "0 0 10 10 10 9", "0 0 10 10 -1 0", "2147483647 0 1 1 2147483647 0", "2147483647 0 2 1 2147483647 0", "2147483647 0 2 1 0 0", "0 0 2147483648 1 5 0", "0 0 4294967295 4294967295 5 5", "-2147483648 -2147483648 4294967295 4294967295 0 0", "0 0 0 0 0 0", "2147483647 2147483647 0 0 0 0", "2147483647 2147483647 1 0 2147483647 2147483647"],
        n,
        rng,
        emit,
    );
    let pair_fixed = [
        "0 0 10 10 5 5 10 10",
        "0 0 10 10 10 10 5 5",
        "0 0 10 10 20 20 5 5",
        "0 0 0 0 0 0 10 10",
        "5 5 10 10 7 7 0 0",
        "2147483647 0 1 1 2147483647 0 1 1",
        "2147483647 0 2 1 0 0 10 10",
        "0 0 10 10 2147483647 0 2 1",
        "0 0 2147483648 1 0 0 10 10",
        "0 0 4294967295 4294967295 -2147483648 -2147483648 4294967295 4294967295",
        "-2147483648 -2147483648 1 1 2147483647 2147483647 1 1",
        "-2147483648 0 2147483647 1 2147483646 0 1 1",
        "-1 -1 2147483647 2147483647 0 0 2147483647 2147483647",
        "-2 -2 2147483647 2147483647 2147483646 2147483646 1 1",
    ];
    gen_simple("rect.isect", &[C, C, S, S, C, C, S, S], &pair_fixed, n, rng, emit);
    gen_simple("rect.envelope", &[C, C, S, S, C, C, S, S], &pair_fixed, n, rng, emit);
    gen_simple(
        "rect.center",
        &[C, C, S, S],
        &["0 0 1 1", "0 0 2 2", "0 0 3 3", "-5 -5 10 10", "2147483647 0 1 1", "2147483647 0 2 1", "2147483647 0 3 1", "0 2147483647 1 3", "0 0 4294967295 4294967295", "0 0 2147483648 1", "-2147483648 -2147483648 4294967295 4294967295", "-2147483648 -2147483648 0 0", "1073741824 0 2147483647 1", "1073741824 0 2147483649 1", "1073741825 0 2147483647 1"],
        n,
        rng,
        emit,
    );
    gen_simple(
        "rect.withcenter",
        &[C, C, S, S],
        &["0 0 1 1", "0 0 2 2", "0 0 3 3", "5 5 10 10", "-2147483648 0 1 1", "-2147483648 0 2 1", "-2147483648 0 3 1", "0 -2147483648 1 3", "0 0 4294967295 4294967295", "0 0 2147483648 1", "2147483647 2147483647 4294967295 4294967295", "-1073741824 0 4294967295 1", "-1073741825 0 4294967295 1", "2147483647 2147483647 0 0"],
        n,
        rng,
        emit,
    );
    gen_simple(
        "rect.offset",
        &[C, C, S, S, O],
        &["0 0 10 10 -2147483648", "0 0 10 10 -2147483647", "0 0 10 10 2147483647", "0 0 10 10 1073741823", "0 0 10 10 1073741824", "0 0 10 10 -5", "0 0 10 10 -6", "0 0 10 11 -5", "0 0 0 0 -1", "0 0 0 0 1", "0 0 4294967295 4294967295 1", "0 0 4294967294 4294967294 1", "0 0 4294967293 4294967293 1", "-2147483648 0 10 10 1", "-2147483648 0 10 10 -1", "2147483647 0 10 10 -1", "0 0 4294967295 4294967295 -2147483648", "0 0 4294967295 4294967295 -2147483647", "0 0 1 1 1073741824", "0 0 1 1 -1073741824", "0 0 1 1 -1073741825"],
        n,
        rng,
        emit,
    );
    gen_simple(
        "rect.resized",
        &[C, C, S, S, S, S, A, A],
        &["0 0 10 10 20 20 1 1", "0 0 10 10 5 5 2 2", "0 0 10 10 0 0 1 1", "0 0 0 0 10 10 2 2", "0 0 0 0 4294967295 4294967295 0 0", "0 0 0 0 4294967295 4294967295 1 1", "0 0 0 0 4294967295 4294967295 2 2", "0 0 4294967295 4294967295 0 0 2 2", "0 0 4294967295 4294967295 0 0 1 1", "0 0 2147483648 1 0 1 2 0", "0 0 2147483649 1 0 1 2 0", "2147483647 2147483647 1 1 2 2 2 2", "2147483647 2147483647 1 1 2 2 0 0", "-2147483648 -2147483648 1 1 3 3 2 2", "-2147483648 -2147483648 1 1 3 3 1 1", "-2147483648 -2147483648 1 1 2 2 2 2"],
        n,
        rng,
        emit,
    );
    gen_simple(
        "rect.anchor",
        &[C, C, S, S, A, A],
        &["0 0 10 10 1 1", "0 0 10 10 2 2", "0 0 0 0 2 2", "0 0 0 0 1 1", "0 0 1 1 2 2", "2147483647 2147483647 1 1 2 2", "2147483647 2147483647 2 2 2 2", "2147483647 2147483647 2 2 1 1", "2147483647 2147483647 3 3 1 1", "2147483647 2147483647 2 2 0 0", "0 0 4294967295 4294967295 2 2", "0 0 4294967295 4294967295 1 1", "0 0 2147483648 2147483648 2 2", "0 0 2147483649 2147483649 2 2", "-2147483648 -2147483648 4294967295 4294967295 2 2", "-2147483648 -2147483648 0 0 2 2", "-2147483648 -2147483648 0 0 1 1"],
        n,
        rng,
        emit,
    );
    gen_simple(
        "rect.translate",
        &[C, C, S, S, C, C],
        &["0 0 10 10 5 -5", "2147483647 0 1 1 1 0", "2147483647 0 1 1 0 1", "2147483646 0 1 1 1 0", "-2147483648 0 1 1 -1 0", "-2147483648 -2147483648 4294967295 4294967295 2147483647 2147483647", "0 0 4294967295 4294967295 2147483647 -2147483648", "1 1 0 0 2147483647 2147483647", "1073741824 1073741824 5 5 1073741824 1073741823", "1073741824 1073741824 5 5 1073741823 1073741823"],
        n,
        rng,
        emit,
    );
    gen_simple(
        "circle.contains",
        &[C, C, S, C, C],
        &["0 0 65536 0 0", "0 0 65535 0 0", "0 0 65535 32767 32767", "0 0 65536 32768 32768", "0 0 46341 0 0", "0 0 46340 0 0", "0 0 10 5 5", "0 0 10 0 0", "0 0 10 1 1", "0 0 1 0 0", "0 0 2 0 0", "0 0 2 1 1", "0 0 3 1 1", "0 0 0 0 0", "-512 -512 1024 -512 -512", "-512 -512 1024 0 0", "0 0 1280 2176 2176", "-1152 -1152 1280 2176 2176", "0 0 4294967295 0 0", "0 0 2147483647 0 0", "0 0 2147483648 0 0", "2147483647 2147483647 1 2147483647 2147483647", "2147483647 2147483647 2 2147483647 2147483647", "0 0 1 1073741824 0", "0 0 1 1073741823 0", "0 0 1 -1073741824 0", "0 0 1 -1073741825 0", "0 0 32768 16384 16384", "0 0 32767 -1152 2176"],
        n,
        rng,
        emit,
    );
    gen_simple(
        "circle.offset",
        &[C, C, S, O],
        &["0 0 10 -2147483648", "0 0 10 -2147483647", "0 0 10 2147483647", "0 0 10 1073741823", "0 0 10 1073741824", "0 0 10 -5", "0 0 10 -6", "0 0 11 -5", "0 0 0 -1", "0 0 0 1", "0 0 4294967295 1", "0 0 4294967294 1", "0 0 4294967293 1", "-2147483648 0 10 1", "-2147483648 0 10 -1", "2147483647 0 10 -1", "0 0 4294967295 -2147483648", "0 0 4294967295 -2147483647", "0 0 1 -1073741824", "0 0 1 -1073741825", "0 0 1 1073741824"],
        n,
        rng,
        emit,
    );
    gen_simple(
        "ellipse.contains",
        &[C, C, S, S, C, C],
        &["0 0 320 240 160 120", "0 0 65536 1 0 0", "0 0 65535 3 0 0", "0 0 65535 1 0 0", "0 0 65536 65536 0 0", "0 0 65535 65535 0 0", "0 0 65535 65534 0 0", "0 0 65536 65535 0 0", "0 0 1280 1280 2176 2176", "0 0 1280 1279 2176 2176", "-1152 -1152 1280 1 2176 2176", "-1152 -1152 1 1280 2176 2176", "2176 2176 1280 1279 -1152 -1152", "0 0 1024 1023 512 512", "0 0 1024 1 0 0", "0 0 1 1024 0 0", "0 0 10 20 5 10", "0 0 10 20 0 0", "0 0 0 5 0 0", "0 0 5 0 0 0", "0 0 1 1 0 0", "0 0 2 3 1 1", "0 0 4294967295 4294967295 0 0", "0 0 4294967295 1 0 0", "0 0 2147483648 2 0 0", "0 0 3 2 1073741824 0", "0 0 3 2 1073741823 0", "0 0 3 2 -1073741824 0", "0 0 3 2 -1073741825 0", "0 0 46341 46340 0 0", "0 0 46341 3 23170 1", "2147483647 2147483647 2 3 2147483647 2147483647", "0 0 32768 32767 16384 16384", "0 0 3 2 32768 32768", "0 0 3 2 23170 23171"],
        n,
        rng,
        emit,
    );
    gen_simple(
        "ellipse.offset",
        &[C, C, S, S, O],
        &["0 0 10 10 -2147483648", "0 0 10 10 -2147483647", "0 0 10 10 2147483647", "0 0 10 10 1073741823", "0 0 10 10 1073741824", "0 0 10 10 -5", "0 0 10 10 -6", "0 0 10 11 -5", "0 0 10 20 -5", "0 0 20 10 -6", "0 0 0 0 -1", "0 0 0 0 1", "0 0 4294967295 4294967295 1", "0 0 4294967294 4294967294 1", "0 0 4294967293 4294967293 1", "-2147483648 0 10 10 1", "-2147483648 0 10 10 -1", "2147483647 0 10 10 -1", "0 0 4294967295 4294967295 -2147483648", "0 0 4294967295 4294967295 -2147483647", "0 0 1 1 1073741824", "0 0 1 1 -1073741824", "0 0 1 1 -1073741825"],
        n,
        rng,
        emit,
    );

    // line.points ------------------------------------------------------------------------------
    for f in [
        "0 0 0 0 5",
        "0 0 0 0 0",
        "-1024 -1024 1024 1024 5",
        "1024 1024 -1024 -1024 5",
        "-1024 1024 1024 -1024 40",
        "-1024 -1024 1024 1023 5000",
        "1024 -1024 -1024 1023 5000",
        "-1024 0 1024 1 5000",
        "0 -1024 1 1024 5000",
        "2147483645 0 2147483647 0 5",
        "2147483645 0 2147483647 0 2",
        "2147483645 0 2147483647 0 3",
        "2147483645 0 2147483647 0 4",
        "0 2147483645 0 2147483647 5",
        "0 2147483645 0 2147483647 3",
        "-2147483646 0 -2147483648 0 5",
        "-2147483646 0 -2147483648 0 3",
        "0 -2147483646 0 -2147483648 4",
        "2147483645 2147483645 2147483647 2147483647 3",
        "2147483645 2147483645 2147483647 2147483647 4",
        "-2147483648 0 2147483647 0 3",
        "-1 0 2147483647 0 3",
        "0 0 2147483647 0 3",
        "0 0 2147483647 2147483647 3",
        "0 0 1073741824 1 3",
        "0 0 1073741823 1 3",
        "0 0 1073741823 1073741823 40",
        "0 0 1073741824 1073741823 40",
        "-1073741824 0 1073741823 1 3",
        "-1073741824 0 1073741824 1 3",
        "0 0 -2147483648 0 3",
        "0 0 -2147483647 1 3",
        "0 0 65536 65535 40",
        "0 0 46341 46340 40",
        "-32768 -32768 32767 32766 40",
    ] {
        emit(format!("scale.chk.line.points {}", f));
    }
    let whole = if tier == Tier::Quick { 10 } else { 50 };
    for i in 0..n {
        if i % 2 == 0 {
            let k = if i / 2 < whole { 5000 } else { *rng.pick(&[0i64, 1, 2, 3, 8, 40]) };
            emit(format!("scale.chk.line.points {} {} {} {} {}", coord(rng), coord(rng), coord(rng), coord(rng), k));
        } else {
            let mut v = [coord(rng), coord(rng), coord(rng), coord(rng)];
            let forced = rng.below(4) as usize;
            for (j, a) in v.iter_mut().enumerate() {
                if j == forced || rng.chance(1, 3) {
                    *a = *rng.pick(&XI);
                }
            }
            // a few lines a couple of steps long that end at an extreme value
            if rng.chance(1, 5) {
                let d = rng.range(-3, 3);
                v[2] = (v[0] + d).clamp(i32::MIN as i64, i32::MAX as i64);
                if rng.chance(1, 2) {
                    v[3] = v[1];
                }
            }
            emit(format!("scale.chk.line.points {} {} {} {} {}", v[0], v[1], v[2], v[3], rng.pick(&[0i64, 1, 2, 3, 5, 8, 40])));
        }
    }

    // thick ------------------------------------------------------------------------------------
    const TC: [i64; 9] = [-40000, -32768, -32767, -16384, 16383, 16384, 32767, 32768, 40000];
    const TW: [i64; 18] = [0, 1, 2, 3, 5, 64, 127, 128, 32767, 32768, 65535, 65536, 1 << 29, (1 << 29) + 1, 1 << 30, (1 << 31) - 1, 1 << 31, u32::MAX as i64];
    for f in [
        "0 0 0 0 0 24",
        "0 0 0 0 1 24",
        "0 0 0 0 128 24",
        "-1024 -1024 1024 1024 128 24",
        "1024 1024 -1024 -1024 128 24",
        "-1024 1024 1024 -1024 127 24",
        "-1024 -1024 1024 1023 128 24",
        "-1024 0 1024 1 128 24",
        "0 -1024 1 1024 128 24",
        "0 0 10 0 1 24",
        "0 0 10 0 3 24",
        "0 0 10 3 4 24",
        "0 0 3 10 5 24",
        "0 0 10 0 4294967295 5",
        "0 0 10 0 2147483648 5",
        "0 0 10 0 2147483647 5",
        "0 0 10 0 1073741824 5",
        "0 0 10 0 65536 5",
        "0 0 10 3 65536 5",
        "0 0 10 3 32768 5",
        "0 0 10 3 32767 5",
        "-32768 -32768 32767 32767 2 8",
        "-32768 0 32767 0 2 8",
        "-16384 -16384 16383 16383 128 8",
        "-16384 -16384 16384 16384 128 8",
        "-40000 -40000 40000 40000 3 8",
        "-40000 0 40000 1 3 8",
        "0 0 32768 32768 1 8",
        "0 0 32767 32767 5 8",
    ] {
        emit(format!("scale.chk.thick {}", f));
    }
    for i in 0..n {
        let k = rng.range(0, 24);
        if i % 2 == 0 {
            let w = if rng.chance(3, 4) { *rng.pick(&WIDTHS) } else { rng.range(0, 128) };
            emit(format!("scale.chk.thick {} {} {} {} {} {}", coord(rng), coord(rng), coord(rng), coord(rng), w, k));
        } else {
            let mut v = [coord(rng), coord(rng), coord(rng), coord(rng)];
            let mut w = if rng.chance(3, 4) { *rng.pick(&WIDTHS) } else { rng.range(0, 128) };
            let forced = rng.below(5) as usize;
            for (j, a) in v.iter_mut().enumerate() {
                if j == forced || rng.chance(1, 3) {
                    *a = *rng.pick(&TC);
                }
            }
            if forced == 4 || rng.chance(1, 3) {
                w = *rng.pick(&TW[8..]);
            }
            emit(format!("scale.chk.thick {} {} {} {} {} {}", v[0], v[1], v[2], v[3], w, k));
        }
    }

    // join -------------------------------------------------------------------------------------
    const JC: [i64; 8] = [-40000, -32768, -30000, -16384, 16384, 30000, 32767, 40000];
    for f in [
        "-1024 -1024 1024 -1024 0 1024 2",
        "-257 65 0 -256 255 65 3",
        "-1 63 -3 -65 -1 862 58",
        "0 0 0 0 0 0 128",
        "0 0 10 0 0 0 5",
        "0 0 0 0 0 0 2",
        "-1024 -1024 1024 1024 -1024 1024 128",
        "1024 1024 -1024 -1024 1024 -1024 128",
        "-1024 -1024 1024 1024 -1024 -1023 128",
        "-1024 0 1024 1 -1024 2 128",
        "-1024 0 1024 1 -1024 2 127",
        "0 -1024 1 1024 2 -1024 128",
        "-1024 -1024 0 0 1024 1024 128",
        "-1024 -1024 1024 1024 -1024 -1024 128",
        "0 0 10 0 20 0 2",
        "0 0 10 0 10 10 3",
        "0 0 10 10 0 1 4",
    ] {
        emit(format!("scale.chk.join {}", f));
    }
    for i in 0..n {
        let w = if rng.chance(1, 2) { *rng.pick(&[2i64, 3, 5, 64, 127, 128]) } else { rng.range(2, 128) };
        let mut v = [coord(rng), coord(rng), coord(rng), coord(rng), coord(rng), coord(rng)];
        if i % 4 == 3 {
            let forced = rng.below(6) as usize;
            for (j, a) in v.iter_mut().enumerate() {
                if j == forced || rng.chance(1, 2) {
                    *a = *rng.pick(&JC);
                }
            }
        } else if rng.chance(1, 6) {
            // coincident / collinear vertices
            match rng.below(3) {
                0 => {
                    v[2] = v[0];
                    v[3] = v[1];
                }
                1 => {
                    v[4] = v[2];
                    v[5] = v[3];
                }
                _ => {
                    v[4] = v[0];
                    v[5] = v[1];
                }
            }
        }
        emit(format!("scale.chk.join {} {} {} {} {} {} {}", v[0], v[1], v[2], v[3], v[4], v[5], w));
    }

    // img.new ----------------------------------------------------------------------------------
    const BITS: [u64; 6] = [1, 2, 4, 8, 16, 24];
    for bits in BITS {
        for f in ["0 0 0", "0 0 1", "1 1 0", "1 1 3", "1 1 4", "1024 1024 8192", "1024 1 8192", "1 1024 8192", "1025 1 8192", "9 3 6", "9 3 8192", "0 4294967295 0", "4294967295 0 0", "4294967295 4294967295 0", "4294967295 1 0", "1 4294967295 0", "65536 65536 0", "65536 65535 8192", "2147483648 2 0", "2147483648 16 8192"] {
            emit(format!("scale.chk.img.new {} {}", bits, f));
        }
    }
    for i in 0..n {
        let bits = *rng.pick(&BITS);
        let dim = |rng: &mut Rng| if rng.chance(1, 2) { *rng.pick(&[0i64, 1, 2, 3, 7, 8, 9, 15, 16, 17, 64]) } else { biased(rng) };
        let (mut w, mut h) = (dim(rng), dim(rng));
        if i % 2 == 1 {
            match rng.below(3) {
                0 => w = *rng.pick(&XU),
                1 => h = *rng.pick(&XU),
                _ => {
                    w = *rng.pick(&XU);
                    h = *rng.pick(&XU);
                }
            }
        }
        let exact = ((w as u128 * bits as u128 + 7) / 8) * h as u128;
        let len = if exact <= 8192 && rng.chance(1, 2) { exact as i64 } else { *rng.pick(&[0i64, 1, 2, 3, 8, 64, 8192]) };
        emit(format!("scale.chk.img.new {} {} {} {}", bits, w, h, len));
    }

    // raw.load / raw.store (exhaustive over the lists) -----------------------------------------
    let lens: &[usize] = if tier == Tier::Quick { &[0, 3, 8] } else { &[0, 1, 2, 3, 4, 5, 8] };
    let idxs: [u64; 25] = [
        0,
        1,
        2,
        3,
        7,
        8,
        9,
        63,
        64,
        65,
        1 << 20,
        (1 << 31) - 1,
        1 << 31,
        (1 << 32) - 1,
        1 << 32,
        1 << 62,
        (1 << 63) - 1,
        1 << 63,
        u64::MAX / 4,
        u64::MAX / 3,
        u64::MAX / 3 + 1,
        u64::MAX / 2,
        u64::MAX / 2 + 1,
        u64::MAX - 1,
        u64::MAX,
    ];
    for kernel in ["raw.load", "raw.store"] {
        for bits in [1u32, 2, 4, 8, 16, 24, 32] {
            for order in 0..2 {
                for &len in lens {
                    for idx in idxs {
                        emit(format!("scale.chk.{} {} {} {} {}", kernel, bits, order, len, idx));
                    }
                }
            }
        }
    }

    // sub --------------------------------------------------------------------------------------
    const PARENTS: [(i64, i64); 12] = [(0, 0), (1, 1), (5, 3), (8, 8), (64, 64), (9, 0), (0, 7), (65536, 0), (2147483645, 0), (2147483646, 0), (2147483647, 0), (4294967295, 0)];
    for (pw, ph) in PARENTS {
        for f in ["0 0 0 0", "0 0 1 1", "0 0 4294967295 4294967295", "-2147483648 -2147483648 4294967295 4294967295", "2147483647 2147483647 4294967295 4294967295", "-1 -1 2147483648 2147483648", "1 1 2147483647 2147483647", "2147483647 0 1 1", "-2147483648 0 2147483648 1", "-2147483648 0 2147483649 1"] {
            emit(format!("scale.chk.sub {} {} {}", pw, ph, f));
        }
    }
    for i in 0..n {
        let (pw, ph) = *rng.pick(&PARENTS);
        let mut a = [rng.range(-5, 70), rng.range(-5, 70), rng.range(0, 70), rng.range(0, 70)];
        if i % 2 == 1 {
            let forced = rng.below(4) as usize;
            for (j, v) in a.iter_mut().enumerate() {
                if j == forced || rng.chance(1, 3) {
                    *v = if j < 2 { *rng.pick(&XI) } else { *rng.pick(&XU) };
                }
            }
        }
        emit(format!("scale.chk.sub {} {} {} {} {} {}", pw, ph, a[0], a[1], a[2], a[3]));
    }

    // text -------------------------------------------------------------------------------------
    let fs = fonts();
    let metrics = |fi: usize| {
        let f = fs[fi];
        format!("{} {} {} {} {}", fi, f.character_size.width, f.character_size.height, f.character_spacing, f.baseline)
    };
    for fi in 0..4 {
        for f in [
            "0 0 0 0 0 0 1 0",
            "0 0 0 0 0 0 1 1",
            "1 1024 1 2 1024 1024 64 256",
            "1 1024 0 0 -1024 -1024 64 256",
            "2 400 1 1 1024 -1024 64 256",
            "2 400 2 2 -1024 1024 64 256",
            "2 400 3 1 -1024 -1024 64 256",
            "1 0 3 2 1024 1024 64 256",
            "2 0 1 2 -1024 -1024 64 0",
            "2 401 1 0 0 0 2 1",
            "2 42949673 0 0 0 0 2 1",
            "2 42949672 0 0 0 0 2 1",
            "2 214748365 0 0 0 0 2 1",
            "2 429496730 0 0 0 0 2 1",
            "2 715827883 0 0 0 0 2 1",
            "2 4294967295 0 0 0 0 1 1",
            "2 4294967295 0 0 0 0 2 1",
            "1 65536 0 0 0 0 2 1",
            "1 2147483647 0 0 0 0 2 1",
            "1 2147483647 0 0 0 0 3 1",
            "1 2147483648 0 0 0 0 2 1",
            "1 4294967295 0 0 0 0 2 1",
            "1 4294967295 0 0 0 0 1 1",
            "0 0 0 0 2147483647 2147483647 1 1",
            "0 0 0 0 2147483647 0 1 0",
            "0 0 1 0 0 2147483647 1 1",
            "0 0 1 2 -2147483648 -2147483648 1 1",
            "0 0 2 1 -2147483648 -2147483648 1 1",
            "0 0 3 2 -2147483648 -2147483648 5 256",
            "0 0 0 0 -2147483648 -2147483648 1 1",
            "0 0 0 0 2147483640 0 1 1",
            "0 0 0 0 2147483640 0 1 2",
            "0 0 0 0 2147483640 0 1 7",
        ] {
            emit(format!("scale.chk.text {} {}", metrics(fi), f));
        }
    }
    for i in 0..n {
        let fi = rng.below(4) as usize;
        let (mut lhk, mut lhv) = match rng.below(3) {
            0 => (0, 0),
            1 => (1, *rng.pick(&[0i64, 1, 2, 9, 10, 64, 1023, 1024])),
            _ => (2, *rng.pick(&[0i64, 1, 50, 100, 150, 399, 400])),
        };
        let (mut x, mut y) = (coord(rng), coord(rng));
        if i % 2 == 1 {
            let forced = rng.below(3);
            if forced == 0 || rng.chance(1, 3) {
                x = *rng.pick(&XI);
            }
            if forced == 1 || rng.chance(1, 3) {
                y = *rng.pick(&XI);
            }
            if forced == 2 || rng.chance(1, 3) {
                if rng.chance(1, 2) {
                    lhk = 1;
                    lhv = *rng.pick(&[65536i64, (1 << 31) - 1, 1 << 31, u32::MAX as i64]);
                } else {
                    lhk = 2;
                    lhv = *rng.pick(&[401i64, 42949673, 214748365, 429496730, 715827883, u32::MAX as i64]);
                }
            }
        }
        let nlines = if rng.chance(1, 10) { 64 } else { rng.range(1, 5) };
        let nchars = *rng.pick(&[0i64, 1, 2, 7, 40, 256]);
        emit(format!("scale.chk.text {} {} {} {} {} {} {} {} {}", metrics(fi), lhk, lhv, rng.below(4), rng.below(3), x, y, nlines, nchars));
    }

    more::generate(tier, rng, emit);
}

// ---------------------------------------------------------------------------------------------
// executor
// ---------------------------------------------------------------------------------------------
fn guard<F: FnOnce() -> String>(f: F) -> String {
    match std::panic::catch_unwind(std::panic::AssertUnwindSafe(f)) {
        Ok(s) => s,
        Err(_) => "panic".to_string(),
    }
}
fn b(v: bool) -> String {
    (v as u8).to_string()
}
/// display scale: coordinates
fn cds(v: i32) -> bool {
    (-1152..=2176).contains(&v)
}
fn pds(p: Point) -> bool {
    cds(p.x) && cds(p.y)
}
/// display scale: sizes / diameters
fn sds(v: u32) -> bool {
    v <= 1280
}
fn zds(s: Size) -> bool {
    sds(s.width) && sds(s.height)
}
fn rds(r: &Rectangle) -> bool {
    pds(r.top_left) && zds(r.size)
}
/// display scale: outline offsets
fn ods(v: i32) -> bool {
    (-128..=128).contains(&v)
}
/// display scale: line end points
fn lds(p: Point) -> bool {
    (-1024..=1024).contains(&p.x) && (-1024..=1024).contains(&p.y)
}
fn anchor(t: &mut Toks) -> AnchorPoint {
    let ax = [AnchorX::Left, AnchorX::Center, AnchorX::Right][t.usize()];
    let ay = [AnchorY::Top, AnchorY::Center, AnchorY::Bottom][t.usize()];
    AnchorPoint::from_xy(ax, ay)
}

pub fn execute(op: &str, ctx: &mut Ctx) -> String {
    let mut t = Toks::new(op);
    let stream = t.str();
    let kernel = stream.strip_prefix("scale.chk.").expect("scale.chk stream");
    ctx.count(&format!("chk:{}", kernel));
    let (res, ds): (String, bool) = match kernel {
        "pt.addsize" => {
            let (p, s) = (t.point(), t.size());
            (guard(|| fmt_pt(p + s)), pds(p) && zds(s))
        }
        "pt.subsize" => {
            let (p, s) = (t.point(), t.size());
            (guard(|| fmt_pt(p - s)), pds(p) && zds(s))
        }
        "rect.br" => {
            let r = t.rect();
            (guard(|| fmt_opt_pt(r.bottom_right())), rds(&r))
        }
        "rect.contains" => {
            let r = t.rect();
            let p = t.point();
            (guard(|| b(r.contains(p))), rds(&r) && pds(p))
        }
        "rect.isect" => {
            let r = t.rect();
            let r2 = t.rect();
            (guard(|| fmt_rect(&r.intersection(&r2))), rds(&r) && rds(&r2))
        }
        "rect.envelope" => {
            let r = t.rect();
            let r2 = t.rect();
            (guard(|| fmt_rect(&r.envelope(&r2))), rds(&r) && rds(&r2))
        }
        "rect.center" => {
            let r = t.rect();
            (guard(|| fmt_pt(r.center())), rds(&r))
        }
        "rect.withcenter" => {
            let (c, s) = (t.point(), t.size());
            (guard(|| fmt_rect(&Rectangle::with_center(c, s))), pds(c) && zds(s))
        }
        "rect.offset" => {
            let r = t.rect();
            let o = t.i32();
            (guard(|| fmt_rect(&r.offset(o))), rds(&r) && ods(o))
        }
        "rect.resized" => {
            let r = t.rect();
            let s = t.size();
            let a = anchor(&mut t);
            (guard(|| fmt_rect(&r.resized(s, a))), rds(&r) && zds(s))
        }
        "rect.anchor" => {
            let r = t.rect();
            let a = anchor(&mut t);
            (guard(|| fmt_pt(r.anchor_point(a))), rds(&r))
        }
        "rect.translate" => {
            let r = t.rect();
            let d = t.point();
            (guard(|| fmt_rect(&r.translate(d))), rds(&r) && pds(d))
        }
        "circle.contains" => {
            let tl = t.point();
            let d = t.u32();
            let p = t.point();
            (guard(|| b(Circle::new(tl, d).contains(p))), pds(tl) && sds(d) && pds(p))
        }
        "circle.offset" => {
            let tl = t.point();
            let d = t.u32();
            let o = t.i32();
            (
                guard(|| {
                    let c = Circle::new(tl, d).offset(o);
                    format!("{},{},{}", c.top_left.x, c.top_left.y, c.diameter)
                }),
                pds(tl) && sds(d) && ods(o),
            )
        }
        "ellipse.contains" => {
            let (tl, s) = (t.point(), t.size());
            let p = t.point();
            (guard(|| b(Ellipse::new(tl, s).contains(p))), pds(tl) && zds(s) && pds(p))
        }
        "ellipse.offset" => {
            let (tl, s) = (t.point(), t.size());
            let o = t.i32();
            (
                guard(|| {
                    let e = Ellipse::new(tl, s).offset(o);
                    fmt_rect(&Rectangle::new(e.top_left, e.size))
                }),
                pds(tl) && zds(s) && ods(o),
            )
        }
        "line.points" => {
            let (p0, p1) = (t.point(), t.point());
            let n = t.usize();
            (guard(|| fmt_pts(Line::new(p0, p1).points().take(n).collect::<Vec<Point>>())), lds(p0) && lds(p1))
        }
        "thick" => {
            let (p0, p1) = (t.point(), t.point());
            let w = t.u32();
            let n = t.usize();
            (
                guard(|| {
                    let pts = Line::new(p0, p1).into_styled(PrimitiveStyle::with_stroke(BinaryColor::On, w)).pixels().take(n).map(|Pixel(p, _)| p).collect::<Vec<_>>();
                    fmt_pts(pts)
                }),
                lds(p0) && lds(p1) && w <= 128,
            )
        }
        "join" => {
            let pts = [t.point(), t.point(), t.point()];
            let w = t.u32();
            let ds = pts.iter().all(|p| lds(*p)) && w <= 128;
            let mut cut = false;
            let res = guard(|| {
                let s = Polyline::new(&pts).into_styled(PrimitiveStyle::with_stroke(BinaryColor::On, w));
                let mut target = Null { n: 0, calls: 0, limit: if ds { u64::MAX } else { 512 } };
                let _ = s.bounding_box();
                cut = s.draw(&mut target).is_err();
                "ok".to_string()
            });
            if cut {
                ctx.count("chk:join-draw-cut-after-512-calls");
            }
            (res, ds)
        }
        "img.new" => {
            let bits = t.u32();
            let size = t.size();
            let len = t.usize();
            macro_rules! img {
                ($c:ty) => {
                    guard(|| match ImageRaw::<$c, LittleEndianMsb0>::new(&ZEROS[..len], size) {
                        Ok(_) => "ok".to_string(),
                        Err(ImageRawError::InvalidDataSize { expected_data_size }) => format!("err:{}", expected_data_size),
                    })
                };
            }
            let res = match bits {
                1 => img!(BinaryColor),
                2 => img!(Gray2),
                4 => img!(Gray4),
                8 => img!(Gray8),
                16 => img!(Rgb565),
                24 => img!(Rgb888),
                other => panic!("scale.chk.img.new: no colour type with {} bits", other),
            };
            (res, size.width <= 1024 && size.height <= 1024)
        }
        "raw.load" | "raw.store" => {
            let bits = t.u32();
            let order = t.u32();
            let len = t.usize();
            let idx = t.u64() as usize;
            let mut buf: Vec<u8> = (0..len).map(|i| (i * 29 + 5) as u8).collect();
            let store = kernel == "raw.store";
            macro_rules! raw {
                ($r:ty, $o:ty) => {
                    guard(|| {
                        if store {
                            match <$r>::from_u32(0x5A5A_5A5A).store::<$o>(&mut buf, idx) {
                                Ok(_) => format!("ok:{}", fmt_list(buf.iter())),
                                Err(_) => "err".to_string(),
                            }
                        } else {
                            match <$r>::load::<$o>(&buf, idx) {
                                Some(v) => (v.into_inner() as u32).to_string(),
                                None => "none".to_string(),
                            }
                        }
                    })
                };
            }
            let res = match (bits, order) {
                (1, 0) => raw!(RawU1, LittleEndianMsb0),
                (1, _) => raw!(RawU1, BigEndianLsb0),
                (2, 0) => raw!(RawU2, LittleEndianMsb0),
                (2, _) => raw!(RawU2, BigEndianLsb0),
                (4, 0) => raw!(RawU4, LittleEndianMsb0),
                (4, _) => raw!(RawU4, BigEndianLsb0),
                (8, 0) => raw!(RawU8, LittleEndianMsb0),
                (8, _) => raw!(RawU8, BigEndianLsb0),
                (16, 0) => raw!(RawU16, LittleEndianMsb0),
                (16, _) => raw!(RawU16, BigEndianLsb0),
                (24, 0) => raw!(RawU24, LittleEndianMsb0),
                (24, _) => raw!(RawU24, BigEndianLsb0),
                (32, 0) => raw!(RawU32, LittleEndianMsb0),
                (32, _) => raw!(RawU32, BigEndianLsb0),
                (other, _) => panic!("scale.chk.{}: no raw type with {} bits", kernel, other),
            };
            (res, true)
        }
        "sub" => {
            let pw = t.u32();
            let ph = t.u32();
            let area = t.rect();
            assert!(ph == 0 || (pw <= 64 && ph <= 64), "scale.chk.sub: parent too large");
            let data: Vec<u8> = vec![0u8; ((pw as usize + 7) / 8) * ph as usize];
            (
                guard(|| {
                    let raw = ImageRaw::<BinaryColor>::new(&data, Size::new(pw, ph)).unwrap();
                    let s1 = raw.sub_image(&area);
                    let s2 = s1.sub_image(&area);
                    let (b1, b2) = (s1.bounding_box(), s2.bounding_box());
                    format!("{},{} {},{}", b1.size.width, b1.size.height, b2.size.width, b2.size.height)
                }),
                pw <= 2147483645 && ph <= 2147483645,
            )
        }
        "text" => {
            let fi = t.usize();
            let (cw, ch, sp, bl) = (t.u32(), t.u32(), t.u32(), t.u32());
            let lhk = t.u32();
            let lhv = t.u32();
            let baseline = [Baseline::Top, Baseline::Bottom, Baseline::Middle, Baseline::Alphabetic][t.usize()];
            let align = [Alignment::Left, Alignment::Center, Alignment::Right][t.usize()];
            let pos = t.point();
            let nlines = t.usize();
            let nchars = t.usize();
            assert!((1..=4096).contains(&nlines) && nchars <= 65536, "scale.chk.text: string too large");
            let font = fonts()[fi];
            ctx.expect(
                font.character_size == Size::new(cw, ch) && font.character_spacing == sp && font.baseline == bl,
                "C08:chk-font-metrics-mismatch",
                || format!("font {}: op says {} {} {} {}, font has {} {} {} {}", fi, cw, ch, sp, bl, font.character_size.width, font.character_size.height, font.character_spacing, font.baseline),
            );
            let line = "A".repeat(nchars);
            let s = vec![line; nlines].join("\n");
            let cs = MonoTextStyle::new(font, BinaryColor::On);
            let ts = TextStyleBuilder::new()
                .baseline(baseline)
                .alignment(align)
                .line_height(match lhk {
                    0 => LineHeight::Percent(100),
                    1 => LineHeight::Pixels(lhv),
                    2 => LineHeight::Percent(lhv),
                    other => panic!("scale.chk.text: line height kind {}", other),
                })
                .build();
            let lh_ds = lhk == 0 || (lhk == 1 && lhv <= 1024) || (lhk == 2 && lhv <= 400);
            (guard(|| fmt_rect(&Text::with_text_style(&s, pos, cs, ts).bounding_box())), lds(pos) && lh_ds && nlines <= 64 && nchars <= 256)
        }
        other => match more::execute(other, &mut t) {
            Some(r) => r,
            None => panic!("unknown scale.chk kernel {}", other),
        },
    };
    if res == "panic" {
        ctx.count("chk:result-panic");
        ctx.count(&format!("chk:result-panic:{}", kernel));
    } else {
        ctx.nontrivial(op);
    }
    if ds {
        ctx.count("chk:display-scale-ops");
        ctx.expect(res != "panic", &format!("C08:chk-panic-at-display-scale:{}", kernel), || op.to_string());
    }
    res
}
