//! module `styled` — styled primitives and polylines, the cross-cutting streams of C01, C02, C06, C07.
//!
//!   styled.paths <shape> <style> <tbox x y w h>  -> C01: draw() on R1 (draw_iter only), draw() on R2 (native fill_*),
//!                                                    pixels() fed to draw_iter; all three maps and both call logs
//!   styled.bbox <shape> <style>                  -> C02: bounding_box() vs the set of drawn pixels
//!   styled.areas <closed shape> <style>          -> C06: drawn map vs fill_area()/stroke_area() contains
//!   styled.translate <shape> <style> dx dy       -> C07: draw / bounding_box / points / contains commute with translate
//!
//!   styled.bbox dotted <shape> <style>           -> C02 / C07 for a style with `StrokeStyle::Dotted` (oracle only: dotted strokes are
//!   styled.translate dotted <shape> <style> dx dy   not modelled, the driver answers `skip`; kind `dotted-<kind>`). The dotted
//!                                                    border is implemented for `Rectangle` only (square dots in clockwise order below
//!                                                    a dot size of 4, circles from 4; the dot size is `stroke_width` clamped to half
//!                                                    the shorter side of the stroke area, so widths above that half are generated on
//!                                                    purpose). Every other primitive draws the stroke solid, but
//!                                                    `PrimitiveStyle::fill_area` does not shrink the fill area of ANY shape for a
//!                                                    non-solid stroke, so the pictures of circles / ellipses / rounded rectangles /
//!                                                    sectors differ from the solid ones too; `pixels()` of a rectangle ignores the
//!                                                    stroke style.
//!
//! Shapes and styles: see shapes.rs. Oracles are the property texts; classes are prefixed `Cxx:`.
use crate::common::*;
use crate::shapes::*;
use crate::with_shape;
use embedded_graphics::{
    pixelcolor::{BinaryColor, Gray8, Rgb565, Rgb888},
    prelude::*,
    primitives::{ContainsPoint, PrimitiveStyle, PrimitiveStyleBuilder, Rectangle, StrokeAlignment, Styled},
};

pub struct M;

fn tbox_list() -> Vec<&'static str> {
    // unbounded-ish, a box not at the origin cutting through the shapes, an empty box
    vec!["-4096 -4096 8192 8192", "-1 0 6 5", "3 3 0 4"]
}

fn shift_map(m: &PMap, d: Point) -> PMap {
    m.iter().map(|((y, x), c)| ((y + d.y, x + d.x), *c)).collect()
}

/// Colour types of `styled.paths` besides the default Rgb565 (optional last token of the op): the
/// fill / stroke colour each uses in place of the `7` / `9` of the style grid. The model is colour
/// agnostic (colours are raw numbers), so the values only have to be valid raw values of the type.
const COLOUR_TYPES: [(&str, &str, &str); 3] = [("binary", "1", "0"), ("gray8", "7", "200"), ("rgb888", "1193046", "16702650")];

/// Style tokens of the grid (`7` fill, `9` stroke) with the colours of colour type `ct`.
fn recolour(style: &str, ct: &str) -> String {
    let (_, f, st) = COLOUR_TYPES.iter().find(|c| c.0 == ct).expect("colour type");
    let v: Vec<&str> = style.split(' ').collect();
    format!("{} {} {} {}", if v[0] == "-" { "-" } else { f }, if v[1] == "-" { "-" } else { st }, v[2], v[3])
}

/// `parse_style` of shapes.rs for any colour type.
fn parse_style_c<C: ColNum>(t: &mut Toks) -> PrimitiveStyle<C> {
    let fill = t.str();
    let stroke = t.str();
    let width = t.u32();
    let align = t.u32();
    let mut b = PrimitiveStyleBuilder::new().stroke_width(width).stroke_alignment(match align {
        0 => StrokeAlignment::Inside,
        1 => StrokeAlignment::Center,
        _ => StrokeAlignment::Outside,
    });
    if fill != "-" {
        let n: u32 = fill.parse().unwrap();
        let c = C::from_num(n);
        assert!(c.num() == n, "{} is not a raw value of the colour type", n);
        b = b.fill_color(c);
    }
    if stroke != "-" {
        let n: u32 = stroke.parse().unwrap();
        let c = C::from_num(n);
        assert!(c.num() == n, "{} is not a raw value of the colour type", n);
        b = b.stroke_color(c);
    }
    b.build()
}

fn trait_contains<T: ContainsPoint>(t: &T, p: Point) -> bool {
    ContainsPoint::contains(t, p)
}

/// `pixels()` of one styled shape (Rgb565) as an iterator: nth / fold / count / last / skip / step_by / size_hint agree
/// with the plain `next()` sequence, also after some `next()` calls.
fn pixels_protocol(op: &str, ctx: &mut Ctx) {
    let mut t = Toks::new(op);
    let _ = t.str();
    let shape = Shape::parse(&mut t);
    let style: PrimitiveStyle<Rgb565> = parse_style(&mut t);
    with_shape!(&shape, p => {
        let s = Styled::new(p.clone(), style);
        iter_protocol_check(ctx, "iterator-protocol:styled-pixels", s.pixels(), 600);
    })
}

/// The three drawing paths of C01 for one styled shape with colour type `C`: (map of `draw()` on R1,
/// its call log, map of `draw()` on R2, map of `pixels()` fed to `draw_iter`).
fn paths_run<C: ColNum>(op: &str, tb: Rectangle) -> (PMap, String, PMap, PMap) {
    let mut t = Toks::new(op);
    let _ = t.str();
    let shape = Shape::parse(&mut t);
    let style: PrimitiveStyle<C> = parse_style_c(&mut t);
    with_shape!(&shape, p => {
        let s = Styled::new(p.clone(), style);
        let mut r1 = R1::<C>::new(tb);
        s.draw(&mut r1).unwrap();
        let mut r2 = R2::<C>::new(tb);
        s.draw(&mut r2).unwrap();
        let mut rp = R1::<C>::new(tb);
        rp.draw_iter(s.pixels()).unwrap();
        let l1 = r1.rec.fmt_log();
        (r1.rec.map, l1, r2.rec.map, rp.rec.map)
    })
}

/// A style with a wide stroke (13..=128 px: the widths of the display-scale theorems that the grid
/// and `random_style` never reach), mostly with a stroke colour, any alignment.
fn wide_style(rng: &mut Rng) -> String {
    let f = if rng.chance(1, 2) { "7" } else { "-" };
    let s = if rng.chance(5, 6) { "9" } else { "-" };
    let w = if rng.chance(1, 2) { *rng.pick(&[13i64, 20, 33, 34, 40, 64, 100, 128]) } else { rng.range(13, 128) };
    format!("{} {} {} {}", f, s, w, rng.below(3))
}

/// Display-scale shape for the wide-stroke share: positions within +-900, sizes up to 120 (with a 128 px
/// stroke the picture is up to ~380 px across; the large stroked lines / polylines / triangles are in the
/// `thick.*` streams, where they have a model).
fn wide_shape(rng: &mut Rng) -> String {
    random_shape(rng, 900, 120)
}

/// Dotted styles (`dotted <shape> <style>` token strings). Rectangles: an exhaustive grid of sizes (squares, thin,
/// 8 x 60: the dot size is clamped to half the shorter side of the stroke area) x stroke widths on both
/// sides of that clamp and of the square-dot / round-dot switch at 4 x alignments x colour options, then
/// seeded random display-scale ones (a quarter squares, widths up to 128); then seeded random shapes of every
/// kind (the generator of the solid streams) with a dotted style.
fn dotted_ops(tier: Tier, rng: &mut Rng) -> Vec<String> {
    let quick = tier == Tier::Quick;
    let sizes: Vec<u32> = if quick { vec![0, 1, 2, 3, 5, 8, 9, 13, 20, 60] } else { (0..=16).chain([20, 24, 40, 60]).collect() };
    let widths: Vec<u32> = if quick { vec![1, 2, 3, 4, 5, 8, 13, 40] } else { vec![1, 2, 3, 4, 5, 6, 8, 9, 12, 16, 33] };
    let mut v = Vec::new();
    for &w in &sizes {
        for &h in &sizes {
            for &sw in &widths {
                for a in 0..3 {
                    for (f, st) in [("7", "9"), ("-", "9")] {
                        v.push(format!("dotted rect -2 -1 {} {} {} {} {} {}", w, h, f, st, sw, a));
                    }
                }
            }
            // no effective stroke: fill only, transparent, width 0
            for (f, st, sw) in [("7", "-", 3), ("-", "-", 3), ("7", "9", 0), ("-", "9", 0)] {
                v.push(format!("dotted rect -2 -1 {} {} {} {} {} 1", w, h, f, st, sw));
            }
        }
    }
    for _ in 0..(if quick { 400 } else { 3000 }) {
        let w = rng.range(0, 200);
        let h = if rng.chance(1, 4) { w } else if rng.chance(1, 4) { rng.range(0, 12) } else { rng.range(0, 200) };
        let (w, h) = if rng.chance(1, 2) { (w, h) } else { (h, w) };
        let sw = match rng.below(4) {
            0 => rng.range(1, 8),
            1 => (w.min(h) / 2 + rng.range(-2, 3)).max(1),
            _ => rng.range(1, 128),
        };
        let f = if rng.chance(1, 2) { "7" } else { "-" };
        v.push(format!("dotted rect {} {} {} {} {} 9 {} {}", rng.range(-900, 900), rng.range(-900, 900), w, h, f, sw, rng.below(3)));
    }
    // the other primitives with a dotted style (stroke drawn solid, fill area not shrunk)
    for _ in 0..(if quick { 400 } else { 3000 }) {
        v.push(format!("dotted {} {}", random_shape(rng, 300, 60), random_style(rng, 24)));
    }
    v
}

/// `styled.bbox` / `styled.translate` for a style with a dotted stroke (`t` is positioned after `dotted`).
fn exec_dotted(stream: &str, t: &mut Toks, op: &str, ctx: &mut Ctx) -> String {
    use embedded_graphics::primitives::StrokeStyle;
    let shape = Shape::parse(t);
    let base = parse_style(t);
    let style = PrimitiveStyleBuilder::from(&base).stroke_style(StrokeStyle::Dotted).build();
    let kind = format!("dotted-{}", shape.kind());
    ctx.count(&format!("{}:{}", stream, kind));
    let transparent = style.fill_color.is_none() && (style.stroke_color.is_none() || style.stroke_width == 0);
    // input distribution for rectangles: which dot drawing runs, and whether the stroke width was clamped
    if let Shape::Rect(r) = &shape {
        if style.stroke_color.is_some() && style.stroke_width > 0 {
            let sa = Styled::new(*r, style).stroke_area();
            let half = (sa.size.width / 2).min(sa.size.height / 2);
            let dot = style.stroke_width.min(half);
            ctx.count(if dot == 0 { "dotted:dot-size-0(nothing drawn)" } else if dot < 4 { "dotted:square-dots" } else { "dotted:round-dots" });
            if style.stroke_width > half {
                ctx.count(if dot < 4 { "dotted:width-clamped:square-dots" } else { "dotted:width-clamped:round-dots" });
            }
            if r.size.width == r.size.height {
                ctx.count("dotted:square");
            }
        }
    }
    let moved = stream == "styled.translate";
    let d = if moved { t.point() } else { Point::zero() };
    // (map on R1, bounding box; C02: map on R2; C07: map / box of the translated shape, map / box after translate_mut)
    let (m, bb, m2, md, bbd, mm, bbm) = with_shape!(&shape, p => {
        let s = Styled::new(p.clone(), style);
        let mut r1 = R1::<Rgb565>::unbounded();
        s.draw(&mut r1).unwrap();
        let mut r2 = R2::<Rgb565>::unbounded();
        let mut b = R1::<Rgb565>::unbounded();
        let mut c = R1::<Rgb565>::unbounded();
        let sd = s.translate(d);
        let mut sm = s.clone();
        sm.translate_mut(d);
        if moved {
            sd.draw(&mut b).unwrap();
            sm.draw(&mut c).unwrap();
        } else {
            s.draw(&mut r2).unwrap();
        }
        (r1.rec.map, s.bounding_box(), r2.rec.map, b.rec.map, sd.bounding_box(), c.rec.map, sm.bounding_box())
    });
    match stream {
        "styled.bbox" => {
            let out: Vec<_> = m.keys().filter(|(y, x)| !bb.contains(Point::new(*x, *y))).collect();
            if !m.is_empty() || transparent {
                ctx.nontrivial(op);
            }
            ctx.expect(out.is_empty(), &format!("C02:outside-bbox:{}", kind), || {
                format!("{} of {} px outside bounding_box {} e.g. ({},{})", out.len(), m.len(), fmt_rect(&bb), out[0].1, out[0].0)
            });
            // the native-fill path (`fill_solid` per square dot, circle scanlines) stays inside as well
            let out2 = m2.keys().filter(|(y, x)| !bb.contains(Point::new(*x, *y))).count();
            ctx.expect(out2 == 0, &format!("C02:outside-bbox:{}", kind), || format!("{} px outside bounding_box {} on the native-fill target", out2, fmt_rect(&bb)));
            if transparent {
                ctx.count("bbox:transparent");
                ctx.expect(m.is_empty() && m2.is_empty(), &format!("C02:transparent-draws:{}", kind), || format!("{} px drawn with a transparent style", m.len()));
            }
            format!("bb={} n={} h={} out={}", fmt_rect(&bb), m.len(), map_digest(&m), out.len())
        }
        "styled.translate" => {
            if !m.is_empty() && d != Point::zero() {
                ctx.nontrivial(op);
            }
            let want = shift_map(&m, d);
            ctx.expect(md == want, &format!("C07:draw-not-shifted:{}", kind), || {
                let diff = md.iter().filter(|(k, v)| want.get(k) != Some(v)).count() + want.iter().filter(|(k, v)| md.get(k) != Some(v)).count();
                format!("{} px vs {} px, {} differing entries", md.len(), want.len(), diff)
            });
            ctx.expect(mm == md && bbm == bbd, &format!("C07:translate-mut-differs:{}", kind), || "translate_mut and translate differ".into());
            if !bb.is_zero_sized() {
                ctx.expect(bbd == Rectangle::new(bb.top_left + d, bb.size), &format!("C07:bbox-not-shifted:{}", kind), || format!("{} -> {}", fmt_rect(&bb), fmt_rect(&bbd)));
            } else {
                ctx.expect(bbd.is_zero_sized(), &format!("C07:bbox-not-shifted:{}", kind), || format!("{} -> {}", fmt_rect(&bb), fmt_rect(&bbd)));
            }
            format!("n={} h={} shifted={} bb={} bbd={}", m.len(), map_digest(&m), (md == want) as u8, fmt_rect(&bb), fmt_rect(&bbd))
        }
        other => panic!("dotted styles are not generated for {}", other),
    }
}

impl Module for M {
    fn name(&self) -> &'static str {
        "styled"
    }
    fn rule(&self) -> &'static str {
        "styled primitives: exhaustive grid of shapes (all rect/ellipse sizes 0..=N squared, circle diameters 0..=2N, rounded rectangles with equal and unequal radii, \
         all lines / selected triangles / polylines with 0..=4 vertices on a lattice crossing the axes, arcs and sectors on an angle grid) x styles \
         (4 colour options x stroke widths x 3 alignments) x (C01: 3 target boxes, Rgb565 everywhere plus every 7th (shape, style) pair with BinaryColor / Gray8 / Rgb888 in rotation and an eighth of the random ops; C07: 6 offsets), then seeded random display-scale shapes (stroke widths up to 24 / 16), then for C02 / C07 DOTTED strokes (oracle only: rectangles of all sizes of a grid incl. squares and 8 x 60 x stroke widths on both sides of the dot-size clamp and of the square / round dot switch x alignments, seeded random ones within +-900 with widths up to 128, and seeded random shapes of every other kind with a dotted style; counters dotted:*, styled.*:dotted-<kind>) and a share of wide strokes (13..=128) on shapes of every kind placed within +-900 (quick 200, thorough 2000 ops). \
         Model side: every op of every shape kind (arcs / sectors through the trailing `hk` hook tokens the generator appends: plane sector and bevel of the real code), except the dotted ones. \
         Non-trivial: the drawable paints at least one pixel (or, for C02 transparency, the style is transparent and the shape non-empty); distinct = distinct op text."
    }

    fn generate(&self, pid: &str, tier: Tier, rng: &mut Rng, emit: &mut dyn FnMut(String)) {
        // arcs / sectors: the plane sector and the bevel the real code computes from the angles are appended to the op line
        // (trailing `hk ...` tokens, see shapes.rs) for the model side; `execute` never reads them
        let mut hooked = |s: String| emit(with_hooks(s));
        let emit = &mut hooked;
        let quick = tier == Tier::Quick;
        let angles: Vec<(i32, i32)> = if quick {
            vec![(0, 90_000), (30_000, 120_000), (-45_000, -200_000), (90_000, 360_000), (10_000, 400_000), (200_000, 0), (0, -360_000), (15_500, 33_300)]
        } else {
            let mut v = Vec::new();
            for s in (0..360).step_by(30) {
                for w in [-400, -360, -270, -135, -45, -10, 0, 10, 45, 135, 270, 360, 400] {
                    v.push((s * 1000, w * 1000));
                }
            }
            v
        };
        let (max_size, grid) = match (pid, quick) {
            ("C01", true) | ("C06", true) => (7, 3),
            ("C01", false) | ("C06", false) => (14, 4),
            (_, true) => (6, 3),
            (_, false) => (12, 4),
        };
        let widths: Vec<u32> = if quick { vec![0, 1, 2, 3, 5, 9] } else { vec![0, 1, 2, 3, 4, 5, 6, 8, 11, 17] };
        let shapes = shape_grid(max_size, grid, &angles);
        let styles = style_grid(&widths);
        let nrand = if quick { 5000 } else { 60_000 };
        match pid {
            "C01" => {
                for (i, sh) in shapes.iter().enumerate() {
                    for (j, st) in styles.iter().enumerate() {
                        // every shape x style on the unbounded box; the clipping boxes on a rotating third
                        emit(format!("styled.paths {} {} {}", sh, st, tbox_list()[0]));
                        let k = 1 + (i + j) % 2;
                        if (i + 2 * j) % 3 == 0 {
                            emit(format!("styled.paths {} {} {}", sh, st, tbox_list()[k]));
                        }
                        // "x colour types": every 7th pair again with another colour type (rotating
                        // through the three, the unbounded and the clipping box alternating)
                        if (3 * i + j) % 7 == 0 {
                            let ct = COLOUR_TYPES[((3 * i + j) / 7) % 3].0;
                            emit(format!("styled.paths {} {} {} {}", sh, recolour(st, ct), tbox_list()[((3 * i + j) / 21) % 2], ct));
                        }
                    }
                }
                for n in 0..nrand {
                    let sh = random_shape(rng, 300, 90);
                    let st = random_style(rng, 24);
                    let tb = if rng.chance(1, 2) { "-4096 -4096 8192 8192".to_string() } else { format!("{} {} {} {}", rng.range(-200, 100), rng.range(-200, 100), rng.range(0, 300), rng.range(0, 300)) };
                    if n % 8 == 7 {
                        let ct = COLOUR_TYPES[(n / 8) % 3].0;
                        emit(format!("styled.paths {} {} {} {}", sh, recolour(&st, ct), tb, ct));
                    } else {
                        emit(format!("styled.paths {} {} {}", sh, st, tb));
                    }
                }
            }
            "C02" => {
                for sh in &shapes {
                    for st in &styles {
                        emit(format!("styled.bbox {} {}", sh, st));
                    }
                }
                for _ in 0..(2 * nrand) {
                    emit(format!("styled.bbox {} {}", random_shape(rng, 300, 90), random_style(rng, 24)));
                }
                // dotted strokes (oracle only)
                for sh in dotted_ops(tier, rng) {
                    emit(format!("styled.bbox {}", sh));
                }
                // a small share of wide strokes (13..=128) on display-scale shapes of every kind
                for _ in 0..(if quick { 200 } else { 2000 }) {
                    emit(format!("styled.bbox {} {}", wide_shape(rng), wide_style(rng)));
                }
            }
            "C06" => {
                for sh in &shapes {
                    if !(sh.starts_with("rect") || sh.starts_with("circle") || sh.starts_with("ellipse") || sh.starts_with("rrect")) {
                        continue;
                    }
                    for st in &styles {
                        emit(format!("styled.areas {} {}", sh, st));
                    }
                }
                let mut n = 0;
                while n < nrand {
                    let sh = random_shape(rng, 300, 70);
                    if sh.starts_with("rect") || sh.starts_with("circle") || sh.starts_with("ellipse") || sh.starts_with("rrect") {
                        emit(format!("styled.areas {} {}", sh, random_style(rng, 40)));
                        n += 1;
                    }
                }
            }
            "C07" => {
                let offs = [(0, 0), (1, 0), (0, -1), (-7, -9), (5, 3), (-3, 4), (64, -33)];
                for (i, sh) in shapes.iter().enumerate() {
                    for (j, st) in styles.iter().enumerate() {
                        // two offsets per (shape, style), rotating through the list
                        for k in 0..2 {
                            let d = offs[(i + 3 * j + 4 * k) % offs.len()];
                            emit(format!("styled.translate {} {} {} {}", sh, st, d.0, d.1));
                        }
                    }
                }
                for _ in 0..nrand {
                    emit(format!("styled.translate {} {} {} {}", random_shape(rng, 200, 60), random_style(rng, 16), rng.range(-300, 300), rng.range(-300, 300)));
                }
                // dotted strokes (oracle only), offsets rotating through the non-zero ones, every 5th random
                for (i, sh) in dotted_ops(tier, rng).iter().enumerate() {
                    let d = if i % 5 == 4 { (rng.range(-1000, 1000) as i32, rng.range(-1000, 1000) as i32) } else { offs[1 + i % (offs.len() - 1)] };
                    emit(format!("styled.translate {} {} {}", sh, d.0, d.1));
                }
                // a small share of wide strokes (13..=128) on display-scale shapes of every kind, moved across the axes
                for _ in 0..(if quick { 200 } else { 2000 }) {
                    emit(format!("styled.translate {} {} {} {}", wide_shape(rng), wide_style(rng), rng.range(-1000, 1000), rng.range(-1000, 1000)));
                }
            }
            _ => {}
        }
    }

    fn execute(&self, op: &str, ctx: &mut Ctx) -> String {
        let mut t = Toks::new(op);
        let stream = t.str();
        if op.split(' ').nth(1) == Some("dotted") {
            let _ = t.str();
            return exec_dotted(stream, &mut t, op, ctx);
        }
        let shape = Shape::parse(&mut t);
        let style = parse_style(&mut t);
        let kind = shape.kind();
        ctx.count(&format!("{}:{}", stream, kind));
        if style.stroke_width >= 13 && style.stroke_color.is_some() {
            ctx.count(&format!("{}:wide-stroke(w>=13):{}", stream, kind));
        }
        let transparent = style.fill_color.is_none() && (style.stroke_color.is_none() || style.stroke_width == 0);
        match stream {
            "styled.paths" => {
                let tb = t.rect();
                if tb.is_zero_sized() {
                    ctx.count("paths:empty-target");
                } else if tb.size.width < 100 {
                    ctx.count("paths:clipping-target");
                }
                // optional colour type (default Rgb565); the three paths are the same generic code
                let ct = t.opt().filter(|s| *s != HOOK_MARK).unwrap_or("rgb565");
                ctx.count(&format!("paths:colour:{}", ct));
                let (m1, l1, m2, mp) = match ct {
                    "rgb565" => paths_run::<Rgb565>(op, tb),
                    "binary" => paths_run::<BinaryColor>(op, tb),
                    "gray8" => paths_run::<Gray8>(op, tb),
                    "rgb888" => paths_run::<Rgb888>(op, tb),
                    other => panic!("unknown colour type {}", other),
                };
                if !m1.is_empty() {
                    ctx.nontrivial(op);
                }
                // the pixels() iterator itself, consumed in other ways than next() (small shapes only)
                if mp.len() <= 300 {
                    pixels_protocol(op, ctx);
                }
                ctx.expect(m1 == m2, &format!("C01:native-vs-default:{}", kind), || format!("R1 {} px, R2 {} px", m1.len(), m2.len()));
                // rounded rectangles: the C01 face of the known C06 finding gets its own class (see m_rrect.rs)
                let pd_class = match &shape {
                    Shape::RRect(rr) if m1 != mp => {
                        let keys: std::collections::BTreeSet<(i32, i32)> = m1.keys().chain(mp.keys()).copied().collect();
                        let diff: Vec<Point> = keys.iter().filter(|k| m1.get(*k) != mp.get(*k)).map(|(y, x)| Point::new(*x, *y)).filter(|p| tb.contains(*p)).collect();
                        // at a point of the known mechanism `draw()` paints the FILL colour (scanline of the fill area) and
                        // `pixels()` nothing (fill part of a scanline of the stroke area): anything else is not the finding
                        let fill_num: Option<u32> = style.fill_color.map(|c| {
                            let f = c.num();
                            match ct {
                                "binary" => BinaryColor::from_num(f).num(),
                                "gray8" => Gray8::from_num(f).num(),
                                "rgb888" => Rgb888::from_num(f).num(),
                                _ => f,
                            }
                        });
                        let values_ok = fill_num.is_some() && diff.iter().all(|p| m1.get(&(p.y, p.x)).copied() == fill_num && mp.get(&(p.y, p.x)).is_none());
                        if values_ok && crate::m_rrect::known_finding_explains(rr, style.stroke_width, style.stroke_alignment, &diff) {
                            format!("C01:pixels-vs-draw:{}:confined-radii", kind)
                        } else {
                            format!("C01:pixels-vs-draw:{}", kind)
                        }
                    }
                    _ => format!("C01:pixels-vs-draw:{}", kind),
                };
                ctx.expect(m1 == mp, &pd_class, || {
                    let only_draw = m1.iter().filter(|(k, v)| mp.get(k) != Some(v)).count();
                    let only_px = mp.iter().filter(|(k, v)| m1.get(k) != Some(v)).count();
                    format!("draw() {} px, pixels() {} px, {} only/different in draw, {} only/different in pixels", m1.len(), mp.len(), only_draw, only_px)
                });
                format!("r1={} r2eq={} pxeq={} log={}", small_map(&m1), (m1 == m2) as u8, (m1 == mp) as u8, small_text(l1, 4000))
            }
            "styled.bbox" => {
                let (bb, m) = with_shape!(&shape, p => {
                    let s = Styled::new(p.clone(), style);
                    let mut r1 = R1::<Rgb565>::unbounded();
                    s.draw(&mut r1).unwrap();
                    (s.bounding_box(), r1.rec.map)
                });
                let out: Vec<_> = m.keys().filter(|(y, x)| !bb.contains(Point::new(*x, *y))).collect();
                if !m.is_empty() || transparent {
                    ctx.nontrivial(op);
                }
                ctx.expect(out.is_empty(), &format!("C02:outside-bbox:{}", kind), || {
                    format!("{} of {} px outside bounding_box {} e.g. ({},{})", out.len(), m.len(), fmt_rect(&bb), out[0].1, out[0].0)
                });
                if transparent {
                    ctx.count("bbox:transparent");
                    ctx.expect(m.is_empty(), &format!("C02:transparent-draws:{}", kind), || format!("{} px drawn with a transparent style", m.len()));
                }
                format!("bb={} n={} h={} out={}", fmt_rect(&bb), m.len(), map_digest(&m), out.len())
            }
            "styled.areas" => {
                macro_rules! areas {
                    ($p:expr) => {{
                        let s = Styled::new($p.clone(), style);
                        let mut r1 = R1::<Rgb565>::unbounded();
                        s.draw(&mut r1).unwrap();
                        let fa = s.fill_area();
                        let sa = s.stroke_area();
                        let bb = s.bounding_box().envelope(&$p.bounding_box()).offset(3);
                        let mut bad = Vec::new();
                        let mut area_api_differs = 0u32;
                        let mut probe = |pt: Point, got: Option<u32>| {
                            // `contains` through the `ContainsPoint` trait (what generic code calls) and by method syntax
                            // (for Rectangle the inherent method of the core crate: a second copy) must agree
                            let (fin, sin) = (trait_contains(&fa, pt), trait_contains(&sa, pt));
                            if fin != fa.contains(pt) || sin != sa.contains(pt) {
                                area_api_differs += 1;
                            }
                            let want = if fin {
                                style.fill_color.map(|c| c.num())
                            } else if sin && style.stroke_width > 0 {
                                style.stroke_color.map(|c| c.num())
                            } else {
                                None
                            };
                            if got != want {
                                bad.push((pt, got, want));
                            }
                        };
                        if (bb.size.width as u64) * (bb.size.height as u64) <= 250_000 {
                            for pt in bb.points() {
                                probe(pt, r1.rec.map.get(&(pt.y, pt.x)).copied());
                            }
                        }
                        for ((y, x), c) in r1.rec.map.iter() {
                            let pt = Point::new(*x, *y);
                            if !bb.contains(pt) || (bb.size.width as u64) * (bb.size.height as u64) > 250_000 {
                                probe(pt, Some(*c));
                            }
                        }
                        drop(probe);
                        ctx.expect(area_api_differs == 0, &format!("C06:area-contains-trait-vs-method:{}", kind), || {
                            format!("{} probe(s) where ContainsPoint::contains and .contains() of fill_area() / stroke_area() differ", area_api_differs)
                        });
                        // an inside stroke never paints outside the shape, an outside stroke never inside it
                        let mut side_bad = 0usize;
                        if style.stroke_width > 0 && style.stroke_color.is_some() {
                            let sc = style.stroke_color.unwrap().num();
                            for ((y, x), c) in r1.rec.map.iter() {
                                let pt = Point::new(*x, *y);
                                let inside = $p.contains(pt);
                                if *c == sc && Some(sc) != style.fill_color.map(|c| c.num()) {
                                    if style.stroke_alignment == embedded_graphics::primitives::StrokeAlignment::Inside && !inside {
                                        side_bad += 1;
                                    }
                                    if style.stroke_alignment == embedded_graphics::primitives::StrokeAlignment::Outside && inside {
                                        side_bad += 1;
                                    }
                                }
                            }
                        }
                        (r1.rec.map, bad, side_bad, fa.bounding_box(), sa.bounding_box())
                    }};
                }
                let (m, bad, side_bad, fab, sab) = match &shape {
                    Shape::Rect(p) => areas!(p),
                    Shape::Circle(p) => areas!(p),
                    Shape::Ellipse(p) => areas!(p),
                    Shape::RRect(p) => areas!(p),
                    _ => panic!("styled.areas needs a closed shape"),
                };
                if !m.is_empty() {
                    ctx.nontrivial(op);
                }
                if fab.is_zero_sized() && style.stroke_width > 0 {
                    ctx.count(if fab.size.width == 0 && fab.size.height == 0 { "areas:fill-collapsed-both" } else if fab.size.width == 0 { "areas:fill-collapsed-w" } else { "areas:fill-collapsed-h" });
                }
                let fsa_class = match &shape {
                    Shape::RRect(rr) if !bad.is_empty() => {
                        let pts: Vec<Point> = bad.iter().map(|b| b.0).collect();
                        // at a point of the known mechanism (fill_area \ stroke_area: on no scanline of the stroke area) the
                        // pixel is left UNPAINTED where the fill colour is expected; any other value is not the finding
                        let values_ok = bad.iter().all(|b| b.1.is_none() && b.2.is_some());
                        if values_ok && crate::m_rrect::known_finding_explains(rr, style.stroke_width, style.stroke_alignment, &pts) {
                            format!("C06:not-fill-stroke-area:{}:confined-radii", kind)
                        } else {
                            format!("C06:not-fill-stroke-area:{}", kind)
                        }
                    }
                    _ => format!("C06:not-fill-stroke-area:{}", kind),
                };
                ctx.expect(bad.is_empty(), &fsa_class, || {
                    let (pt, got, want) = bad[0];
                    format!("{} point(s) differ, e.g. ({},{}) painted {:?} expected {:?}; fill_area box {} stroke_area box {}", bad.len(), pt.x, pt.y, got, want, fmt_rect(&fab), fmt_rect(&sab))
                });
                ctx.expect(side_bad == 0, &format!("C06:stroke-wrong-side:{}", kind), || format!("{} stroke pixel(s) on the wrong side of the outline", side_bad));
                format!("m={} fa={} sa={}", small_map(&m), fmt_rect(&fab), fmt_rect(&sab))
            }
            "styled.translate" => {
                let d = t.point();
                let mut prim_bb = (true, Rectangle::zero(), Rectangle::zero(), Rectangle::zero());
                let (m0, md, mm, bb0, bbd, pts_ok, npts) = with_shape!(&shape, p => {
                    let s = Styled::new(p.clone(), style);
                    let sd = s.translate(d);
                    let mut sm = s.clone();
                    sm.translate_mut(d);
                    let mut a = R1::<Rgb565>::unbounded();
                    s.draw(&mut a).unwrap();
                    let mut b = R1::<Rgb565>::unbounded();
                    sd.draw(&mut b).unwrap();
                    let mut c = R1::<Rgb565>::unbounded();
                    sm.draw(&mut c).unwrap();
                    // points() of the primitive
                    let p0: Vec<Point> = p.points().collect();
                    let pd: Vec<Point> = p.translate(d).points().collect();
                    let ok = p0.len() == pd.len() && p0.iter().zip(pd.iter()).all(|(a, b)| *a + d == *b);
                    // bounding box of the (unstyled) primitive itself, moved with translate and with translate_mut
                    let pb0 = p.bounding_box();
                    let pbd = p.translate(d).bounding_box();
                    let mut pm = p.clone();
                    pm.translate_mut(d);
                    let pbm = pm.bounding_box();
                    let pb_ok = if pb0.is_zero_sized() { pbd.is_zero_sized() && pbm == pbd } else { pbd == Rectangle::new(pb0.top_left + d, pb0.size) && pbm == pbd };
                    prim_bb = (pb_ok, pb0, pbd, pbm);
                    (a.rec.map, b.rec.map, c.rec.map, s.bounding_box(), sd.bounding_box(), ok, p0.len())
                });
                ctx.expect(prim_bb.0, &format!("C07:primitive-bbox-not-shifted:{}", kind), || {
                    format!("{} -> translate {} / translate_mut {}", fmt_rect(&prim_bb.1), fmt_rect(&prim_bb.2), fmt_rect(&prim_bb.3))
                });
                if !m0.is_empty() && d != Point::zero() {
                    ctx.nontrivial(op);
                }
                let want = shift_map(&m0, d);
                ctx.expect(md == want, &format!("C07:draw-not-shifted:{}", kind), || {
                    let diff = md.iter().filter(|(k, v)| want.get(k) != Some(v)).count() + want.iter().filter(|(k, v)| md.get(k) != Some(v)).count();
                    format!("{} px vs {} px, {} differing entries", md.len(), want.len(), diff)
                });
                ctx.expect(mm == md, &format!("C07:translate-mut-differs:{}", kind), || "translate_mut and translate give different pictures".into());
                if let Shape::Poly(v, tr) = &shape {
                    // a polyline moved by moving its vertices (instead of its translate field)
                    let moved: Vec<Point> = v.iter().map(|q| *q + d).collect();
                    let pl = embedded_graphics::primitives::Polyline::new(&moved).translate(*tr);
                    let mut r = R1::<Rgb565>::unbounded();
                    Styled::new(pl, style).draw(&mut r).unwrap();
                    ctx.expect(r.rec.map == want, "C07:draw-not-shifted:poly-moved-vertices", || format!("{} px vs {} px", r.rec.map.len(), want.len()));
                    let b0 = embedded_graphics::primitives::Polyline::new(&v[..]).translate(*tr).bounding_box();
                    let b1 = pl.bounding_box();
                    ctx.expect(if b0.is_zero_sized() { b1.is_zero_sized() } else { b1 == Rectangle::new(b0.top_left + d, b0.size) }, "C07:primitive-bbox-not-shifted:poly-moved-vertices", || format!("{} -> {}", fmt_rect(&b0), fmt_rect(&b1)));
                }
                if !bb0.is_zero_sized() {
                    ctx.expect(bbd == Rectangle::new(bb0.top_left + d, bb0.size), &format!("C07:bbox-not-shifted:{}", kind), || format!("{} -> {}", fmt_rect(&bb0), fmt_rect(&bbd)));
                } else {
                    ctx.expect(bbd.is_zero_sized(), &format!("C07:bbox-not-shifted:{}", kind), || format!("{} -> {}", fmt_rect(&bb0), fmt_rect(&bbd)));
                }
                ctx.expect(pts_ok, &format!("C07:points-not-shifted:{}", kind), || format!("{} points", npts));
                // contains() for the primitives that have it, probed on the box + margin
                macro_rules! cont {
                    ($p:expr) => {{
                        let q = $p.translate(d);
                        let bb = $p.bounding_box().offset(2);
                        let mut bad = 0;
                        if (bb.size.width as u64) * (bb.size.height as u64) <= 40_000 {
                            for pt in bb.points() {
                                if $p.contains(pt) != q.contains(pt + d) {
                                    bad += 1;
                                }
                            }
                        }
                        bad
                    }};
                }
                let cbad = match &shape {
                    Shape::Rect(p) => cont!(p),
                    Shape::Circle(p) => cont!(p),
                    Shape::Ellipse(p) => cont!(p),
                    Shape::RRect(p) => cont!(p),
                    Shape::Tri(p) => cont!(p),
                    Shape::Sector(p) => cont!(p),
                    _ => 0,
                };
                ctx.expect(cbad == 0, &format!("C07:contains-not-shifted:{}", kind), || format!("{} probe(s) differ", cbad));
                format!("n={} h={} shifted={} bb={} bbd={}", m0.len(), map_digest(&m0), (md == want) as u8, fmt_rect(&bb0), fmt_rect(&bbd))
            }
            other => panic!("unknown op {}", other),
        }
    }
}
