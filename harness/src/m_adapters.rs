//! module `adapters` (serves C03, and the trait-default part of C01) — clipped / cropped /
//! translated / colour-converted draw targets and the three trait defaults are exact.
//!
//! Stream (one op line; the result line is compared with the Lean model `EG.Model.Adapters`):
//!   adapters.run px py pw ph <stack> <calls>
//!     px py pw ph  bounding box of the root (parent) recording target
//!     <stack>      `-` or adapters separated by `/`, first = created on the root, last = the target
//!                  the calls are issued on:  `c:x,y,w,h` clipped, `r:x,y,w,h` cropped,
//!                  `t:dx,dy` translated, `v` colour converted
//!     <calls>      `-` or calls separated by `|` in the format of `Call::fmt` of common.rs:
//!                  `di:x,y,c;x,y,c` (`di:-` empty)  `fc:x,y,w,h:c,c,c` (`fc:..:-` empty stream)
//!                  `fs:x,y,w,h:c`  `cl:c`
//!   result:  bb=<reported box of every adapter, `/` separated, `-` if none>
//!            l1=<call log of an R1 root> m1=<its final map> l2=<call log of an R2 root> m2=<its map>
//!   The same op is run on a root that implements `draw_iter` only (R1) and on a root with native
//!   fill methods (R2). A panic of the real code is reported as `panic:<class>`.
//!
//!   adapters.runb <same tokens>   the same with real embedded-graphics colour types: the root is
//!            `Rgb565`, the root-most colour-converted adapter is `BinaryColor -> Rgb565` (the
//!            library's `From` impl), further ones `BinaryColor -> BinaryColor`; colours are 0/1.
//!
//! Colour types of `adapters.run`: the root has colour type `L0`; the k-th colour-converted adapter (counted from
//! the root) converts `L(k+1) -> L(k)` by `From`, implemented as `c -> 3*c + k + 1` (so the
//! composition order and the number of applications are visible in the result).
//!
//! Oracle (the property text, evaluated on the real results, independently of the adapter code):
//! a set-theoretic reference map is computed by applying the calls directly to a plain map under
//! the composed transformation (total shift, accumulated clip region ∩ root box, composed colour
//! map); after *every prefix* of the call sequence the root's map must equal the reference
//! (`C03:map-differs-from-reference`), nothing outside the accumulated clip region may ever be
//! offered to the root (`C03:pixel-outside-clip-reached-parent`), reported boxes are the documented
//! ones (`C03:reported-bbox`), and the R1 and R2 roots end with the same map
//! (`C01:default-vs-native-map`).
use crate::common::*;
use embedded_graphics::{
    draw_target::DrawTargetExt,
    pixelcolor::raw::{RawData, RawU32},
    pixelcolor::{BinaryColor, Rgb565},
    prelude::*,
    primitives::Rectangle,
    Pixel,
};

pub struct M;

// ---------------------------------------------------------------------------------------------
// colour levels
// ---------------------------------------------------------------------------------------------
pub fn conv(k: u32, c: u32) -> u32 {
    3 * c + k + 1
}
macro_rules! level {
    ($name:ident) => {
        #[derive(Clone, Copy, PartialEq, Eq, Debug)]
        pub struct $name(pub u32);
        impl From<RawU32> for $name {
            fn from(r: RawU32) -> Self {
                $name(r.into_inner())
            }
        }
        impl From<$name> for RawU32 {
            fn from(c: $name) -> RawU32 {
                RawU32::new(c.0)
            }
        }
        impl PixelColor for $name {
            type Raw = RawU32;
        }
        impl ColNum for $name {
            fn num(&self) -> u32 {
                self.0
            }
            fn from_num(n: u32) -> Self {
                $name(n)
            }
        }
    };
}
level!(L0);
level!(L1);
level!(L2);
level!(L3);
impl From<L1> for L0 {
    fn from(c: L1) -> L0 {
        L0(conv(0, c.0))
    }
}
impl From<L2> for L1 {
    fn from(c: L2) -> L1 {
        L1(conv(1, c.0))
    }
}
impl From<L3> for L2 {
    fn from(c: L3) -> L2 {
        L2(conv(2, c.0))
    }
}
pub trait Lvl: ColNum {
    type Next: Lvl + Into<Self>;
}
impl Lvl for L0 {
    type Next = L1;
}
impl Lvl for L1 {
    type Next = L2;
}
impl Lvl for L2 {
    type Next = L3;
}
impl Lvl for L3 {
    type Next = L3; // never reached: at most three adapters
}
// second chain, real embedded-graphics colour types and `From` impls: the root is `Rgb565`, the
// first colour-converted adapter converts `BinaryColor -> Rgb565` (Off -> black 0, On -> white
// 0xFFFF), further ones are the identity `BinaryColor -> BinaryColor`.
impl Lvl for Rgb565 {
    type Next = BinaryColor;
}
impl Lvl for BinaryColor {
    type Next = BinaryColor;
}
/// colour map of the k-th converted adapter (from the root) in chain `chain` (0 = L-chain, 1 = real)
pub fn chain_conv(chain: u8, k: u32, c: u32) -> u32 {
    if chain == 0 {
        conv(k, c)
    } else if k == 0 {
        if c & 1 == 1 {
            0xFFFF
        } else {
            0
        }
    } else {
        c & 1
    }
}

// ---------------------------------------------------------------------------------------------
// ops
// ---------------------------------------------------------------------------------------------
#[derive(Clone, Debug, PartialEq)]
pub enum Ad {
    Clip(Rectangle),
    Crop(Rectangle),
    Trans(Point),
    Conv,
}
impl Ad {
    fn fmt(&self) -> String {
        match self {
            Ad::Clip(r) => format!("c:{}", fmt_rect(r)),
            Ad::Crop(r) => format!("r:{}", fmt_rect(r)),
            Ad::Trans(d) => format!("t:{},{}", d.x, d.y),
            Ad::Conv => "v".into(),
        }
    }
}
fn parse_rect4(s: &str) -> Rectangle {
    let v: Vec<i64> = s.split(',').map(|t| t.parse().expect("bad rect")).collect();
    Rectangle::new(Point::new(v[0] as i32, v[1] as i32), Size::new(v[2] as u32, v[3] as u32))
}
pub(crate) fn parse_stack(s: &str) -> Vec<Ad> {
    if s == "-" {
        return vec![];
    }
    s.split('/')
        .map(|a| {
            if let Some(r) = a.strip_prefix("c:") {
                Ad::Clip(parse_rect4(r))
            } else if let Some(r) = a.strip_prefix("r:") {
                Ad::Crop(parse_rect4(r))
            } else if let Some(d) = a.strip_prefix("t:") {
                let v: Vec<i32> = d.split(',').map(|t| t.parse().expect("bad offset")).collect();
                Ad::Trans(Point::new(v[0], v[1]))
            } else if a == "v" {
                Ad::Conv
            } else {
                panic!("bad adapter {}", a)
            }
        })
        .collect()
}
fn parse_calls(s: &str) -> Vec<Call> {
    if s == "-" {
        return vec![];
    }
    s.split('|')
        .map(|c| {
            if let Some(px) = c.strip_prefix("di:") {
                if px == "-" {
                    Call::DrawIter(vec![])
                } else {
                    Call::DrawIter(
                        px.split(';')
                            .map(|p| {
                                let v: Vec<i64> = p.split(',').map(|t| t.parse().expect("bad pixel")).collect();
                                ((v[0] as i32, v[1] as i32), v[2] as u32)
                            })
                            .collect(),
                    )
                }
            } else if let Some(r) = c.strip_prefix("fc:") {
                let (a, cs) = r.split_once(':').expect("bad fc");
                let cs = if cs == "-" { vec![] } else { cs.split(',').map(|t| t.parse().expect("bad colour")).collect() };
                Call::FillContiguous(parse_rect4(a), cs)
            } else if let Some(r) = c.strip_prefix("fs:") {
                let (a, col) = r.split_once(':').expect("bad fs");
                Call::FillSolid(parse_rect4(a), col.parse().expect("bad colour"))
            } else if let Some(col) = c.strip_prefix("cl:") {
                Call::Clear(col.parse().expect("bad colour"))
            } else {
                panic!("bad call {}", c)
            }
        })
        .collect()
}
fn fmt_calls(calls: &[Call]) -> String {
    if calls.is_empty() {
        "-".into()
    } else {
        calls.iter().map(|c| c.fmt()).collect::<Vec<_>>().join("|")
    }
}
fn fmt_stack(stack: &[Ad]) -> String {
    if stack.is_empty() {
        "-".into()
    } else {
        stack.iter().map(|c| c.fmt()).collect::<Vec<_>>().join("/")
    }
}
fn fmt_op(parent: &Rectangle, stack: &[Ad], calls: &[Call]) -> String {
    format!("adapters.run {} {} {}", rect_toks(parent), fmt_stack(stack), fmt_calls(calls))
}

// ---------------------------------------------------------------------------------------------
// running the real adapters: the nesting is static in Rust, so the recursion over the stack is
// unrolled by depth (go3 -> go2 -> go1 -> go0).
// ---------------------------------------------------------------------------------------------
fn exec<T: DrawTarget<Color = C, Error = TErr>, C: ColNum>(t: &mut T, calls: &[Call]) {
    for c in calls {
        match c {
            Call::DrawIter(px) => t
                .draw_iter(px.iter().map(|((x, y), c)| Pixel(Point::new(*x, *y), C::from_num(*c))))
                .unwrap(),
            Call::FillContiguous(a, cs) => t.fill_contiguous(a, cs.iter().map(|c| C::from_num(*c))).unwrap(),
            Call::FillSolid(a, c) => t.fill_solid(a, C::from_num(*c)).unwrap(),
            Call::Clear(c) => t.clear(C::from_num(*c)).unwrap(),
        }
    }
}
fn go0<T: DrawTarget<Color = C, Error = TErr>, C: Lvl>(t: &mut T, stack: &[Ad], calls: &[Call], _bbs: &mut Vec<Rectangle>) {
    assert!(stack.is_empty(), "adapter stack deeper than 3");
    exec(t, calls)
}
macro_rules! go {
    ($name:ident, $next:ident) => {
        fn $name<T: DrawTarget<Color = C, Error = TErr>, C: Lvl>(
            t: &mut T,
            stack: &[Ad],
            calls: &[Call],
            bbs: &mut Vec<Rectangle>,
        ) {
            match stack.split_first() {
                None => exec(t, calls),
                Some((Ad::Clip(r), rest)) => {
                    let mut a = t.clipped(r);
                    bbs.push(a.bounding_box());
                    $next::<_, C>(&mut a, rest, calls, bbs)
                }
                Some((Ad::Crop(r), rest)) => {
                    let mut a = t.cropped(r);
                    bbs.push(a.bounding_box());
                    $next::<_, C>(&mut a, rest, calls, bbs)
                }
                Some((Ad::Trans(d), rest)) => {
                    let mut a = t.translated(*d);
                    bbs.push(a.bounding_box());
                    $next::<_, C>(&mut a, rest, calls, bbs)
                }
                Some((Ad::Conv, rest)) => {
                    let mut a = t.color_converted::<C::Next>();
                    bbs.push(a.bounding_box());
                    $next::<_, C::Next>(&mut a, rest, calls, bbs)
                }
            }
        }
    };
}
go!(go1, go0);
go!(go2, go1);
go!(go3, go2);

/// (reported boxes, R1 root, R2 root) after the calls, or the panic message of the real code
fn run_real(chain: u8, parent: &Rectangle, stack: &[Ad], calls: &[Call]) -> Result<(Vec<Rectangle>, Rec, Rec), String> {
    if chain == 0 {
        run_real_c::<L0>(parent, stack, calls)
    } else {
        run_real_c::<Rgb565>(parent, stack, calls)
    }
}
fn run_real_c<C0: Lvl>(parent: &Rectangle, stack: &[Ad], calls: &[Call]) -> Result<(Vec<Rectangle>, Rec, Rec), String> {
    let r = std::panic::catch_unwind(std::panic::AssertUnwindSafe(|| {
        let mut bbs1 = Vec::new();
        let mut r1 = R1::<C0>::new(*parent);
        go3::<_, C0>(&mut r1, stack, calls, &mut bbs1);
        let mut bbs2 = Vec::new();
        let mut r2 = R2::<C0>::new(*parent);
        go3::<_, C0>(&mut r2, stack, calls, &mut bbs2);
        assert!(bbs1 == bbs2, "reported boxes depend on the root kind");
        (bbs1, r1.rec, r2.rec)
    }));
    r.map_err(|e| {
        if let Some(s) = e.downcast_ref::<&str>() {
            s.to_string()
        } else if let Some(s) = e.downcast_ref::<String>() {
            s.clone()
        } else {
            "?".to_string()
        }
    })
}

// ---------------------------------------------------------------------------------------------
// set-theoretic reference (i64 arithmetic on point sets; uses no adapter code)
// ---------------------------------------------------------------------------------------------
/// non-empty half-open point set [x0,x1) x [y0,y1)
#[derive(Clone, Copy, Debug, PartialEq)]
struct Iv {
    x0: i64,
    x1: i64,
    y0: i64,
    y1: i64,
}
fn pts_of(r: &Rectangle) -> Option<Iv> {
    if r.size.width == 0 || r.size.height == 0 {
        None
    } else {
        Some(Iv {
            x0: r.top_left.x as i64,
            x1: r.top_left.x as i64 + r.size.width as i64,
            y0: r.top_left.y as i64,
            y1: r.top_left.y as i64 + r.size.height as i64,
        })
    }
}
fn iv_and(a: Option<Iv>, b: Option<Iv>) -> Option<Iv> {
    let (a, b) = (a?, b?);
    let r = Iv { x0: a.x0.max(b.x0), x1: a.x1.min(b.x1), y0: a.y0.max(b.y0), y1: a.y1.min(b.y1) };
    if r.x0 < r.x1 && r.y0 < r.y1 {
        Some(r)
    } else {
        None
    }
}
fn iv_shift(a: Option<Iv>, dx: i64, dy: i64) -> Option<Iv> {
    a.map(|a| Iv { x0: a.x0 + dx, x1: a.x1 + dx, y0: a.y0 + dy, y1: a.y1 + dy })
}
fn iv_has(a: &Option<Iv>, x: i64, y: i64) -> bool {
    match a {
        Some(a) => a.x0 <= x && x < a.x1 && a.y0 <= y && y < a.y1,
        None => false,
    }
}
/// row-major points of an area
fn area_points(a: &Rectangle) -> Vec<(i64, i64)> {
    let mut v = Vec::new();
    if let Some(iv) = pts_of(a) {
        for y in iv.y0..iv.y1 {
            for x in iv.x0..iv.x1 {
                v.push((x, y));
            }
        }
    }
    v
}

struct Reference {
    /// top coordinates + shift = root coordinates
    sx: i64,
    sy: i64,
    /// accumulated clip region in root coordinates; `None` = no clipped adapter in the stack
    clip: Option<Option<Iv>>,
    /// points of the top target's bounding box, in the top target's coordinates
    top_box: Option<Iv>,
    /// documented reported boxes
    boxes: Vec<Rectangle>,
    /// number of colour-converted adapters
    nconv: u32,
    root: Option<Iv>,
    chain: u8,
}
impl Reference {
    fn new(chain: u8, parent: &Rectangle, stack: &[Ad]) -> Self {
        let mut r = Reference { sx: 0, sy: 0, clip: None, top_box: pts_of(parent), boxes: vec![], nconv: 0, root: pts_of(parent), chain };
        let mut bbox = *parent; // documented box of the current top, library Rectangle arithmetic only
        for a in stack {
            match a {
                Ad::Clip(c) => {
                    // documented: the clip area is intersected with the parent's bounding box
                    r.top_box = iv_and(r.top_box, pts_of(c));
                    let in_root = iv_shift(r.top_box, r.sx, r.sy);
                    r.clip = Some(match r.clip {
                        None => in_root,
                        Some(old) => iv_and(old, in_root),
                    });
                    bbox = c.intersection(&bbox);
                }
                Ad::Crop(c) => {
                    // documented: origin moves to the top-left corner of (area ∩ parent box); the
                    // box is that intersection's size at the origin; drawing is not clipped
                    let i = c.intersection(&bbox);
                    r.top_box = iv_shift(iv_and(r.top_box, pts_of(c)), -(i.top_left.x as i64), -(i.top_left.y as i64));
                    r.sx += i.top_left.x as i64;
                    r.sy += i.top_left.y as i64;
                    bbox = Rectangle::new(Point::zero(), i.size);
                }
                Ad::Trans(d) => {
                    r.top_box = iv_shift(r.top_box, -(d.x as i64), -(d.y as i64));
                    r.sx += d.x as i64;
                    r.sy += d.y as i64;
                    bbox = bbox.translate(-*d);
                }
                Ad::Conv => {
                    r.nconv += 1;
                }
            }
            r.boxes.push(bbox);
        }
        r
    }
    fn colour(&self, c: u32) -> u32 {
        // the top colour type is L(nconv); the outermost converted adapter is applied first
        let mut c = c;
        for k in (0..self.nconv).rev() {
            c = chain_conv(self.chain, k, c);
        }
        c
    }
    /// the writes a call means, in the top target's coordinates and colours
    fn direct(&self, call: &Call) -> Vec<((i64, i64), u32)> {
        match call {
            Call::DrawIter(px) => px.iter().map(|((x, y), c)| ((*x as i64, *y as i64), *c)).collect(),
            Call::FillContiguous(a, cs) => area_points(a).into_iter().zip(cs.iter().copied()).collect(),
            Call::FillSolid(a, c) => area_points(a).into_iter().map(|p| (p, *c)).collect(),
            Call::Clear(c) => match self.top_box {
                None => vec![],
                Some(iv) => {
                    let mut v = Vec::new();
                    for y in iv.y0..iv.y1 {
                        for x in iv.x0..iv.x1 {
                            v.push(((x, y), *c));
                        }
                    }
                    v
                }
            },
        }
    }
    fn allowed(&self, x: i64, y: i64) -> bool {
        iv_has(&self.root, x, y)
            && match &self.clip {
                None => true,
                Some(c) => iv_has(c, x, y),
            }
    }
    /// apply one call to the reference map; returns (kept, dropped) counts
    fn apply(&self, map: &mut PMap, call: &Call) -> (usize, usize) {
        let mut kept = 0;
        let mut dropped = 0;
        for ((x, y), c) in self.direct(call) {
            let (rx, ry) = (x + self.sx, y + self.sy);
            if self.allowed(rx, ry) {
                map.insert((ry as i32, rx as i32), self.colour(c));
                kept += 1;
            } else {
                dropped += 1;
            }
        }
        (kept, dropped)
    }
}

/// all points a logged root call offers to the root
fn offered(c: &Call, root: &Rectangle) -> Vec<(i64, i64)> {
    match c {
        Call::DrawIter(px) => px.iter().map(|((x, y), _)| (*x as i64, *y as i64)).collect(),
        Call::FillContiguous(a, cs) => area_points(a).into_iter().take(cs.len()).collect(),
        Call::FillSolid(a, _) => area_points(a),
        Call::Clear(_) => area_points(root),
    }
}

// ---------------------------------------------------------------------------------------------
// generator helpers
// ---------------------------------------------------------------------------------------------
fn grid_rects(gx: i32, gy: i32, ox: i32, oy: i32) -> Vec<Rectangle> {
    let mut v = Vec::new();
    for x0 in 0..=gx {
        for x1 in x0..=gx {
            for y0 in 0..=gy {
                for y1 in y0..=gy {
                    v.push(Rectangle::new(Point::new(x0 + ox, y0 + oy), Size::new((x1 - x0) as u32, (y1 - y0) as u32)));
                }
            }
        }
    }
    v
}
fn stream_lengths(a: &Rectangle) -> Vec<usize> {
    let w = a.size.width as usize;
    let h = a.size.height as usize;
    let mut v = vec![0, 1, 2, w, (w * h).saturating_sub(1), w * h, w * h + 3];
    v.sort();
    v.dedup();
    v
}
/// the standard call battery for one area: fill_contiguous with every stream length of the
/// scope, fill_solid, draw_iter with unordered / duplicate / outside points, clear
fn battery(a: &Rectangle, lo: Point, hi: Point) -> Vec<Call> {
    let mut calls = Vec::new();
    let mut base = 1u32;
    for len in stream_lengths(a) {
        calls.push(Call::FillContiguous(*a, (0..len as u32).map(|i| base + i).collect()));
        base += 20;
    }
    calls.push(Call::FillSolid(*a, 7));
    // unordered, with a duplicate point (last write wins) and points outside everything
    let px = vec![
        ((hi.x, hi.y), 31),
        ((lo.x, lo.y), 32),
        ((a.top_left.x, a.top_left.y), 33),
        ((a.top_left.x + a.size.width as i32 - 1, a.top_left.y + a.size.height as i32 - 1), 34),
        ((a.top_left.x, a.top_left.y), 35),
        ((lo.x - 2, hi.y + 2), 36),
        ((0, 0), 37),
        ((1, 0), 38),
        ((0, 0), 39),
    ];
    calls.push(Call::DrawIter(px));
    calls.push(Call::Clear(9));
    calls.push(Call::FillContiguous(*a, (0..(a.size.width * a.size.height)).map(|i| 200 + i).collect()));
    calls
}

fn random_rect(rng: &mut Rng, scale: i64) -> Rectangle {
    let x = rng.range(-scale, scale);
    let y = rng.range(-scale, scale);
    let w = if rng.chance(1, 8) { 0 } else { rng.range(0, scale + scale / 2) };
    let h = if rng.chance(1, 8) { 0 } else { rng.range(0, scale + scale / 2) };
    Rectangle::new(Point::new(x as i32, y as i32), Size::new(w as u32, h as u32))
}
fn random_ad(rng: &mut Rng, scale: i64) -> Ad {
    match rng.below(7) {
        0 | 1 => Ad::Clip(random_rect(rng, scale)),
        2 | 3 => Ad::Crop(random_rect(rng, scale)),
        4 | 5 => Ad::Trans(Point::new(rng.range(-scale, scale) as i32, rng.range(-scale, scale) as i32)),
        _ => Ad::Conv,
    }
}
fn random_call(rng: &mut Rng, scale: i64) -> Call {
    match rng.below(8) {
        0 | 1 => {
            let n = rng.below(9);
            let mut px = Vec::new();
            for _ in 0..n {
                if !px.is_empty() && rng.chance(1, 4) {
                    let p: ((i32, i32), u32) = *rng.pick(&px);
                    px.push((p.0, rng.below(90) as u32));
                } else {
                    px.push(((rng.range(-scale, scale + scale / 2) as i32, rng.range(-scale, scale + scale / 2) as i32), rng.below(90) as u32));
                }
            }
            Call::DrawIter(px)
        }
        2 | 3 | 4 => {
            let a = random_rect(rng, scale);
            let total = (a.size.width * a.size.height) as usize;
            let lens = stream_lengths(&a);
            let len = if rng.chance(1, 3) { rng.below(total as u64 + 4) as usize } else { *rng.pick(&lens) };
            let base = rng.below(50) as u32;
            Call::FillContiguous(a, (0..len as u32).map(|i| base + i).collect())
        }
        5 | 6 => Call::FillSolid(random_rect(rng, scale), rng.below(90) as u32),
        _ => Call::Clear(rng.below(90) as u32),
    }
}

impl Module for M {
    fn name(&self) -> &'static str {
        "adapters"
    }
    fn rule(&self) -> &'static str {
        "one op = root box x adapter stack (depth 0..=3 of clipped/cropped/translated/converted) x call sequence, run \
         on an R1 (draw_iter only) and an R2 (native fills) root. Exhaustive part: every rectangle with corners in a \
         small grid as clip / crop area x every such rectangle as drawing area x six root boxes (non-origin, larger, \
         smaller, two empty), each with the call battery (fill_contiguous with stream lengths {0,1,2,w,wh-1,wh,wh+3}, \
         fill_solid, draw_iter with unordered/duplicate/outside points, clear); all kind pairs over parameter samples and \
         all 64 kind triples (quick: one parameter choice per kind, thorough: two); then seeded random histories of \
         1..=6 calls (quick: depth uniform in 0..=2 plus a sample of 500 depth-3 stacks, thorough: uniform in 0..=3). An op is \
         non-trivial when the reference map after the last call is non-empty; distinct = distinct op text."
    }

    fn generate(&self, pid: &str, tier: Tier, rng: &mut Rng, emit: &mut dyn FnMut(String)) {
        let quick = tier == Tier::Quick;
        let c01 = pid == "C01";
        let (gx, gy) = if quick || c01 { (3, 3) } else { (4, 4) };
        let (ox, oy) = (-1, -1);
        let lo = Point::new(ox, oy);
        let hi = Point::new(ox + gx - 1, oy + gy - 1);
        let grid = grid_rects(gx, gy, ox, oy);
        let roots = [
            Rectangle::new(Point::new(ox, oy), Size::new(gx as u32, gy as u32)),
            Rectangle::new(Point::new(-3, -2), Size::new(gx as u32 + 4, gy as u32 + 3)),
            Rectangle::new(Point::new(0, 0), Size::new(2, 1)),
            Rectangle::new(Point::new(0, -1), Size::new(1, gy as u32)),
            Rectangle::new(Point::new(1, 0), Size::new(0, 0)),
            Rectangle::new(Point::new(0, 0), Size::new(3, 0)),
        ];
        // depth 0: the trait defaults against the native meaning
        for root in &roots {
            for a in &grid {
                emit(fmt_op(root, &[], &battery(a, lo, hi)));
            }
        }
        if !c01 {
            // depth 1, exhaustive in (root, clip/crop area, drawing area)
            for root in &roots {
                for c in &grid {
                    for a in &grid {
                        let b = battery(a, lo, hi);
                        emit(fmt_op(root, &[Ad::Clip(*c)], &b));
                        emit(fmt_op(root, &[Ad::Crop(*c)], &b));
                    }
                }
                for dx in -2..=2 {
                    for dy in -1..=1 {
                        for a in &grid {
                            emit(fmt_op(root, &[Ad::Trans(Point::new(dx, dy))], &battery(a, lo, hi)));
                        }
                    }
                }
                for a in &grid {
                    emit(fmt_op(root, &[Ad::Conv], &battery(a, lo, hi)));
                }
            }
            // depth 2 (and 3 in thorough): every kind combination over parameter samples
            let sample_rects = [
                Rectangle::new(Point::new(0, 0), Size::new(2, 2)),
                Rectangle::new(Point::new(-1, 0), Size::new(2, 1)),
                Rectangle::new(Point::new(1, -1), Size::new(1, 2)),
                Rectangle::new(Point::new(0, 0), Size::new(3, 0)),
                Rectangle::new(Point::new(-2, -2), Size::new(5, 4)),
            ];
            let sample_offs = [Point::new(1, 0), Point::new(-1, 1), Point::new(0, -2)];
            let mut ads: Vec<Ad> = Vec::new();
            for r in &sample_rects {
                ads.push(Ad::Clip(*r));
                ads.push(Ad::Crop(*r));
            }
            for d in &sample_offs {
                ads.push(Ad::Trans(*d));
            }
            ads.push(Ad::Conv);
            let areas = [
                Rectangle::new(Point::new(-1, -1), Size::new(3, 2)),
                Rectangle::new(Point::new(0, 0), Size::new(2, 2)),
                Rectangle::new(Point::new(1, 0), Size::new(3, 1)),
                Rectangle::new(Point::new(-2, -1), Size::new(2, 3)),
                Rectangle::new(Point::new(0, 0), Size::new(0, 2)),
            ];
            for root in &roots[..4] {
                for a1 in &ads {
                    for a2 in &ads {
                        for a in &areas {
                            emit(fmt_op(root, &[a1.clone(), a2.clone()], &battery(a, lo, hi)));
                        }
                    }
                }
            }
            if quick {
                // depth 3 in the quick tier (the property says "nested to depth 3"): all 64 kind
                // stacks with one parameter choice per kind; a seeded sample of random depth-3
                // stacks follows below
                let small: Vec<Ad> = vec![Ad::Clip(sample_rects[2]), Ad::Crop(sample_rects[1]), Ad::Trans(sample_offs[1]), Ad::Conv];
                for root in &roots[..2] {
                    for a1 in &small {
                        for a2 in &small {
                            for a3 in &small {
                                for a in &areas[..2] {
                                    emit(fmt_op(root, &[a1.clone(), a2.clone(), a3.clone()], &battery(a, lo, hi)));
                                }
                            }
                        }
                    }
                }
            }
            if !quick {
                // depth 3: all 64 kind stacks, two parameter choices per kind
                let small: Vec<Ad> = vec![
                    Ad::Clip(sample_rects[0]),
                    Ad::Clip(sample_rects[2]),
                    Ad::Crop(sample_rects[0]),
                    Ad::Crop(sample_rects[1]),
                    Ad::Trans(sample_offs[0]),
                    Ad::Trans(sample_offs[1]),
                    Ad::Conv,
                ];
                for root in &roots[..3] {
                    for a1 in &small {
                        for a2 in &small {
                            for a3 in &small {
                                for a in &areas[..3] {
                                    emit(fmt_op(root, &[a1.clone(), a2.clone(), a3.clone()], &battery(a, lo, hi)));
                                }
                            }
                        }
                    }
                }
            }
        }
        if !c01 {
            // real colour types: Rgb565 root, BinaryColor -> Rgb565 (and identity) conversions
            let binary = |calls: Vec<Call>| -> Vec<Call> {
                calls
                    .into_iter()
                    .map(|c| match c {
                        Call::DrawIter(px) => Call::DrawIter(px.into_iter().map(|(p, c)| (p, c % 2)).collect()),
                        Call::FillContiguous(a, cs) => Call::FillContiguous(a, cs.into_iter().map(|c| (c / 2) % 2).collect()),
                        Call::FillSolid(a, c) => Call::FillSolid(a, c % 2),
                        Call::Clear(c) => Call::Clear(c % 2),
                    })
                    .collect()
            };
            let cr = Rectangle::new(Point::new(0, -1), Size::new(2, 2));
            let d = Point::new(1, 0);
            let stacks: Vec<Vec<Ad>> = vec![
                vec![Ad::Conv],
                vec![Ad::Clip(cr), Ad::Conv],
                vec![Ad::Conv, Ad::Clip(cr)],
                vec![Ad::Trans(d), Ad::Conv],
                vec![Ad::Conv, Ad::Crop(cr)],
                vec![Ad::Conv, Ad::Conv],
                vec![Ad::Conv, Ad::Clip(cr), Ad::Conv],
                vec![Ad::Crop(cr), Ad::Conv, Ad::Trans(d)],
            ];
            for root in &roots[..3] {
                for st in &stacks {
                    for a in &grid {
                        let op = fmt_op(root, st, &binary(battery(a, lo, hi)));
                        emit(op.replacen("adapters.run ", "adapters.runb ", 1));
                    }
                }
            }
        }
        // seeded random histories
        let n = match (c01, quick) {
            (true, true) => 1500,
            (true, false) => 20_000,
            (false, true) => 4000,
            (false, false) => 50_000,
        };
        for _ in 0..n {
            let scale = *rng.pick(&[3i64, 5, 8, 16]);
            let root = if rng.chance(1, 10) {
                Rectangle::new(Point::new(rng.range(-3, 3) as i32, rng.range(-3, 3) as i32), Size::new(rng.below(2) as u32 * 4, 0))
            } else {
                random_rect(rng, scale)
            };
            let maxd = if quick { 2 } else { 3 };
            let depth = rng.below(maxd + 1) as usize;
            let stack: Vec<Ad> = (0..depth).map(|_| random_ad(rng, scale)).collect();
            let ncalls = rng.range(1, 6) as usize;
            let calls: Vec<Call> = (0..ncalls).map(|_| random_call(rng, scale)).collect();
            emit(fmt_op(&root, &stack, &calls));
        }
        // quick tier: the random histories above nest to depth <= 2 (uniform 0..=2); a seeded sample
        // of depth-3 stacks so that quick evidence covers the depth the property names (the
        // thorough tier draws depth uniformly from 0..=3 above)
        let n3 = match (c01, quick) {
            (true, true) => 150,
            (false, true) => 500,
            _ => 0,
        };
        for _ in 0..n3 {
            let scale = *rng.pick(&[3i64, 5, 8, 16]);
            let root = if rng.chance(1, 10) {
                Rectangle::new(Point::new(rng.range(-3, 3) as i32, rng.range(-3, 3) as i32), Size::new(rng.below(2) as u32 * 4, 0))
            } else {
                random_rect(rng, scale)
            };
            let stack: Vec<Ad> = (0..3).map(|_| random_ad(rng, scale)).collect();
            let ncalls = rng.range(1, 6) as usize;
            let calls: Vec<Call> = (0..ncalls).map(|_| random_call(rng, scale)).collect();
            emit(fmt_op(&root, &stack, &calls));
        }
    }

    fn execute(&self, op: &str, ctx: &mut Ctx) -> String {
        let mut t = Toks::new(op);
        match t.str() {
            stream @ ("adapters.run" | "adapters.runb") => {
                let chain: u8 = if stream == "adapters.runb" { 1 } else { 0 };
                if chain == 1 {
                    ctx.count("real-colour-types(Rgb565<-BinaryColor)");
                }
                let parent = t.rect();
                let stack = parse_stack(t.str());
                let calls = parse_calls(t.str());
                ctx.count(&format!("depth:{}", stack.len()));
                for a in &stack {
                    ctx.count(match a {
                        Ad::Clip(_) => "adapter:clipped",
                        Ad::Crop(_) => "adapter:cropped",
                        Ad::Trans(_) => "adapter:translated",
                        Ad::Conv => "adapter:converted",
                    });
                }
                if parent.is_zero_sized() {
                    ctx.count("root:empty");
                }
                if parent.top_left != Point::zero() {
                    ctx.count("root:non-origin");
                }
                let c01 = ctx.pid == "C01";
                let (bbs, r1, r2) = match run_real(chain, &parent, &stack, &calls) {
                    Ok(x) => x,
                    Err(msg) => {
                        // the result text must not start with `panic:` (main.rs would add a second,
                        // unclassified failure); the model reproduces the condition (`stackPanics`)
                        let (class, res) = if msg.contains("subtract with overflow") {
                            ("C03:panic-sub-overflow@src/iterator/contiguous.rs:row_skip", "rowskip-underflow")
                        } else if msg.contains("overflow") {
                            ("C03:panic-overflow", "overflow")
                        } else {
                            ("C03:panic-other", "other-panic")
                        };
                        ctx.count(&format!("panic:{}", res));
                        ctx.fail(class, msg);
                        return res.to_string();
                    }
                };
                // ---- oracle -------------------------------------------------------------------
                let reference = Reference::new(chain, &parent, &stack);
                ctx.expect(bbs == reference.boxes, "C03:reported-bbox", || {
                    format!(
                        "reported {} documented {}",
                        bbs.iter().map(fmt_rect).collect::<Vec<_>>().join("/"),
                        reference.boxes.iter().map(fmt_rect).collect::<Vec<_>>().join("/")
                    )
                });
                // after every prefix of the history the root map equals the reference map
                let mut refmap = PMap::new();
                let mut any_dropped = false;
                let mut any_kept = false;
                for k in 1..=calls.len() {
                    let call = &calls[k - 1];
                    let (kept, dropped) = reference.apply(&mut refmap, call);
                    any_kept |= kept > 0;
                    any_dropped |= dropped > 0;
                    match call {
                        Call::DrawIter(_) => ctx.count("call:draw_iter"),
                        Call::FillContiguous(a, cs) => {
                            ctx.count("call:fill_contiguous");
                            let total = (a.size.width as u64 * a.size.height as u64) as usize;
                            ctx.count(if cs.len() < total {
                                "stream:short"
                            } else if cs.len() == total {
                                "stream:exact"
                            } else {
                                "stream:long"
                            });
                            if kept > 0 && dropped > 0 {
                                ctx.count("fill_contiguous:area-partly-outside");
                            }
                        }
                        Call::FillSolid(..) => ctx.count("call:fill_solid"),
                        Call::Clear(_) => ctx.count("call:clear"),
                    }
                    let (m1, m2) = if k == calls.len() {
                        (r1.map.clone(), r2.map.clone())
                    } else {
                        match run_real(chain, &parent, &stack, &calls[..k]) {
                            Ok((_, a, b)) => (a.map, b.map),
                            Err(_) => continue,
                        }
                    };
                    if c01 {
                        ctx.expect(m1 == m2, "C01:default-vs-native-map", || {
                            format!("after call {}: default {} native {}", k, fmt_map(&m1), fmt_map(&m2))
                        });
                    } else {
                        ctx.expect(m1 == refmap, "C03:map-differs-from-reference", || {
                            format!("default root after call {}: {} reference {}", k, fmt_map(&m1), fmt_map(&refmap))
                        });
                        ctx.expect(m2 == refmap, "C03:map-differs-from-reference", || {
                            format!("native root after call {}: {} reference {}", k, fmt_map(&m2), fmt_map(&refmap))
                        });
                    }
                }
                // nothing outside the accumulated clip region is ever offered to the root
                if let Some(clip) = &reference.clip {
                    for (which, rec) in [("default", &r1), ("native", &r2)] {
                        let mut bad = None;
                        for c in &rec.log {
                            for (x, y) in offered(c, &parent) {
                                if !iv_has(clip, x, y) || !iv_has(&reference.root, x, y) {
                                    bad = Some((x, y));
                                }
                            }
                        }
                        ctx.expect(bad.is_none(), "C03:pixel-outside-clip-reached-parent", || {
                            format!("{} root was offered {:?}", which, bad)
                        });
                    }
                }
                if !refmap.is_empty() {
                    ctx.nontrivial(op);
                }
                if any_kept && any_dropped {
                    ctx.count("history:partly-clipped");
                }
                format!(
                    "bb={} l1={} m1={} l2={} m2={}",
                    if bbs.is_empty() { "-".to_string() } else { bbs.iter().map(fmt_rect).collect::<Vec<_>>().join("/") },
                    r1.fmt_log(),
                    r1.fmt_map(),
                    r2.fmt_log(),
                    r2.fmt_map()
                )
            }
            _ => panic!("unknown op {}", op),
        }
    }
}
