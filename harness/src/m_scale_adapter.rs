//! stream `scale.adapter` of module `scale` — C08: drawing THROUGH `clipped` / `cropped` /
//! `translated` / `color_converted` targets (and stacks of them) at display scale.
//!
//!   scale.adapter rx ry rw rh <stack> <job ...>
//!     rx ry rw rh   bounding box of the root target (320x240, 1024x768, ... also empty / off-origin)
//!     <stack>       `-` or adapters separated by `/` as in `adapters.run` (first = created on the
//!                   root): `c:x,y,w,h` clipped, `r:x,y,w,h` cropped, `t:dx,dy` translated,
//!                   `v` colour converted. Colour chain: the root is `Rgb888`, the first converted
//!                   adapter takes `Rgb565`, the second `BinaryColor`, further ones `BinaryColor`.
//!     <job>         what is drawn on the top of the stack:
//!       calls <c|c|..>    direct target calls: `fs:x,y,w,h:b` fill_solid, `fc:x,y,w,h:n`
//!                         fill_contiguous with n colours (k-th colour white iff k % 3 == 0),
//!                         `cl:b` clear, `di:x,y,b;x,y,b` draw_iter (b = 0 black / 1 white)
//!       shape <shape> <style>          a styled primitive (tokens of shapes.rs)
//!       image w h x y sx sy sw sh      an `ImageRaw` of the top colour type at (x, y), then its
//!                                      sub-image (sx, sy, sw, sh)
//!       text <font 0..3> x y <codepoints>
//!
//! Every op is run twice, on a root that implements `draw_iter` only (inherits the trait defaults)
//! and on a root with native fills; both are non-allocating and count what they are offered. The
//! adapters are created and the job is drawn with the allocation counter armed, in a build with
//! overflow checks and debug assertions.
//! Oracle (C08): no panic (main.rs reports a panic with its site as class), 0 allocations, no
//! iterator exceeds the pixel budget (termination).
//! Result: `bb=<reported box of every adapter> d=<root calls, default root> n=<root calls, native
//! root> alloc=<k>`; a root call is summarised without allocation as `di:<pixels>:<digest>`,
//! `fc:<area>:<colours>:<digest>`, `fs:<area>:<b>`, `cl:<b>` (digest = `digest_step` of common.rs
//! over `y + 2^31, x + 2^31, b + 1` per pixel resp. `b + 1` per colour; b = 0 for black, else 1).
//! For `calls` jobs the Lean model `EG.Model.Adapters` (`lowerStack`, `stackBoxes`) computes the
//! same line (Driver/ScaleAdapter.lean; ops whose areas exceed 100 000 points are printed `skip`
//! by the driver); for the other jobs the call summaries are replaced by pixel counts and the
//! driver prints `skip`.
use crate::common::*;
use crate::m_adapters::{parse_stack, Ad};
use crate::shapes::*;
use crate::with_shape;
use core::convert::Infallible;
use embedded_graphics::{
    draw_target::DrawTargetExt,
    image::{Image, ImageDrawableExt, ImageRaw},
    mono_font::{ascii, iso_8859_1, MonoTextStyle},
    pixelcolor::{BinaryColor, Rgb565, Rgb888},
    prelude::*,
    primitives::{PrimitiveStyle, PrimitiveStyleBuilder, Rectangle, Styled},
    text::Text,
    Pixel,
};

const BUDGET: u64 = 40_000_000;
const MAXCALLS: usize = 8;

#[derive(Clone, Copy)]
struct PCall {
    kind: u8,
    area: Rectangle,
    count: u64,
    dig: u64,
}

/// Non-allocating probe target. `NATIVE = false`: `draw_iter` only (the trait defaults do the
/// rest); `NATIVE = true`: native fills with their documented meaning, colour iterators drained.
struct Probe<C, const NATIVE: bool> {
    bbox: Rectangle,
    n: u64,
    over: bool,
    ncalls: usize,
    calls: [PCall; MAXCALLS],
    _c: core::marker::PhantomData<C>,
}
impl<C: ColNum, const NATIVE: bool> Probe<C, NATIVE> {
    fn new(bbox: Rectangle) -> Self {
        Probe { bbox, n: 0, over: false, ncalls: 0, calls: [PCall { kind: 9, area: Rectangle::zero(), count: 0, dig: 0 }; MAXCALLS], _c: Default::default() }
    }
    fn push(&mut self, c: PCall) {
        if self.ncalls < MAXCALLS {
            self.calls[self.ncalls] = c;
        }
        self.ncalls += 1;
    }
    fn do_draw_iter<I: IntoIterator<Item = Pixel<C>>>(&mut self, pixels: I) {
        let (mut k, mut h) = (0u64, 0u64);
        for Pixel(p, c) in pixels {
            k += 1;
            if k > BUDGET {
                self.over = true;
                break;
            }
            h = digest_step(h, (p.y as i64 + (1i64 << 31)) as u64);
            h = digest_step(h, (p.x as i64 + (1i64 << 31)) as u64);
            h = digest_step(h, (c.num() != 0) as u64 + 1);
        }
        self.n += k;
        self.push(PCall { kind: 0, area: Rectangle::zero(), count: k, dig: h });
    }
    fn summary(&self) -> String {
        let mut s = String::new();
        for c in &self.calls[..self.ncalls.min(MAXCALLS)] {
            if !s.is_empty() {
                s.push('|');
            }
            s.push_str(&match c.kind {
                0 => format!("di:{}:{}", c.count, c.dig),
                1 => format!("fc:{}:{}:{}", fmt_rect(&c.area), c.count, c.dig),
                2 => format!("fs:{}:{}", fmt_rect(&c.area), c.dig),
                _ => format!("cl:{}", c.dig),
            });
        }
        if self.ncalls > MAXCALLS {
            s.push_str(&format!("|+{}", self.ncalls - MAXCALLS));
        }
        if s.is_empty() {
            s.push('-');
        }
        s
    }
}
impl<C, const NATIVE: bool> Dimensions for Probe<C, NATIVE> {
    fn bounding_box(&self) -> Rectangle {
        self.bbox
    }
}
impl<C: ColNum> DrawTarget for Probe<C, false> {
    type Color = C;
    type Error = Infallible;
    fn draw_iter<I: IntoIterator<Item = Pixel<C>>>(&mut self, pixels: I) -> Result<(), Infallible> {
        self.do_draw_iter(pixels);
        Ok(())
    }
}
impl<C: ColNum> DrawTarget for Probe<C, true> {
    type Color = C;
    type Error = Infallible;
    fn draw_iter<I: IntoIterator<Item = Pixel<C>>>(&mut self, pixels: I) -> Result<(), Infallible> {
        self.do_draw_iter(pixels);
        Ok(())
    }
    fn fill_contiguous<I: IntoIterator<Item = C>>(&mut self, area: &Rectangle, colors: I) -> Result<(), Infallible> {
        let (mut k, mut h) = (0u64, 0u64);
        for c in colors {
            k += 1;
            if k > BUDGET {
                self.over = true;
                break;
            }
            h = digest_step(h, (c.num() != 0) as u64 + 1);
        }
        self.n += k;
        self.push(PCall { kind: 1, area: *area, count: k, dig: h });
        Ok(())
    }
    fn fill_solid(&mut self, area: &Rectangle, color: C) -> Result<(), Infallible> {
        self.n += area.size.width as u64 * area.size.height as u64;
        self.push(PCall { kind: 2, area: *area, count: 0, dig: (color.num() != 0) as u64 });
        Ok(())
    }
    fn clear(&mut self, color: C) -> Result<(), Infallible> {
        self.n += self.bbox.size.width as u64 * self.bbox.size.height as u64;
        self.push(PCall { kind: 3, area: Rectangle::zero(), count: 0, dig: (color.num() != 0) as u64 });
        Ok(())
    }
}

// ---------------------------------------------------------------------------------------------
// jobs (parsed and built before the allocation counter is armed)
// ---------------------------------------------------------------------------------------------
enum ACall {
    Di(Vec<(Point, bool)>),
    Fc(Rectangle, u64),
    Fs(Rectangle, bool),
    Cl(bool),
}
enum AJob {
    Calls(Vec<ACall>),
    Shape(Shape, Style),
    Image { data: Vec<u8>, size: Size, pos: Point, sub: Rectangle },
    Text { font: usize, pos: Point, s: String },
}

fn rect4(s: &str) -> Rectangle {
    let v: Vec<i64> = s.split(',').map(|t| t.parse().expect("bad rect")).collect();
    Rectangle::new(Point::new(v[0] as i32, v[1] as i32), Size::new(v[2] as u32, v[3] as u32))
}
fn parse_acalls(s: &str) -> Vec<ACall> {
    s.split('|')
        .map(|c| {
            if let Some(r) = c.strip_prefix("fs:") {
                let (a, b) = r.split_once(':').expect("bad fs");
                ACall::Fs(rect4(a), b == "1")
            } else if let Some(r) = c.strip_prefix("fc:") {
                let (a, n) = r.split_once(':').expect("bad fc");
                ACall::Fc(rect4(a), n.parse().expect("bad count"))
            } else if let Some(b) = c.strip_prefix("cl:") {
                ACall::Cl(b == "1")
            } else if let Some(px) = c.strip_prefix("di:") {
                ACall::Di(
                    px.split(';')
                        .map(|p| {
                            let v: Vec<i64> = p.split(',').map(|t| t.parse().expect("bad pixel")).collect();
                            (Point::new(v[0] as i32, v[1] as i32), v[2] == 1)
                        })
                        .collect(),
                )
            } else {
                panic!("bad call {}", c)
            }
        })
        .collect()
}

/// Colour types of the chain. `leaf` draws the job on a target of this colour type (the bodies are
/// instantiated per concrete type so that `ImageRaw<C>` / `MonoTextStyle<C>` need no extra bounds).
trait SCol: ColNum {
    type Next: SCol + Into<Self>;
    fn leaf<T: DrawTarget<Color = Self, Error = Infallible>>(job: &AJob, t: &mut T);
}
macro_rules! scol {
    ($c:ty, $next:ty, $on:expr, $off:expr) => {
        impl SCol for $c {
            type Next = $next;
            fn leaf<T: DrawTarget<Color = Self, Error = Infallible>>(job: &AJob, t: &mut T) {
                let bw = |on: bool| -> $c {
                    if on {
                        $on
                    } else {
                        $off
                    }
                };
                match job {
                    AJob::Calls(calls) => {
                        for c in calls {
                            match c {
                                ACall::Di(px) => t.draw_iter(px.iter().map(|(p, b)| Pixel(*p, bw(*b)))).unwrap(),
                                ACall::Fc(a, n) => t.fill_contiguous(a, (0..*n).map(|k| bw(k % 3 == 0))).unwrap(),
                                ACall::Fs(a, b) => t.fill_solid(a, bw(*b)).unwrap(),
                                ACall::Cl(b) => t.clear(bw(*b)).unwrap(),
                            }
                        }
                    }
                    AJob::Shape(shape, st) => {
                        let mut b = PrimitiveStyleBuilder::<$c>::new().stroke_width(st.stroke_width).stroke_alignment(st.stroke_alignment);
                        if st.fill_color.is_some() {
                            b = b.fill_color(bw(false));
                        }
                        if st.stroke_color.is_some() {
                            b = b.stroke_color(bw(true));
                        }
                        let style: PrimitiveStyle<$c> = b.build();
                        with_shape!(shape, p => {
                            Styled::new(p.clone(), style).draw(t).unwrap();
                        });
                    }
                    AJob::Image { data, size, pos, sub } => {
                        if let Ok(raw) = ImageRaw::<$c>::new(data, *size) {
                            Image::new(&raw, *pos).draw(t).unwrap();
                            let s = raw.sub_image(sub);
                            Image::new(&s, *pos).draw(t).unwrap();
                            Image::with_center(&s, *pos).draw(t).unwrap();
                        }
                    }
                    AJob::Text { font, pos, s } => {
                        let f = [&ascii::FONT_4X6, &ascii::FONT_6X10, &ascii::FONT_10X20, &iso_8859_1::FONT_9X18_BOLD][*font];
                        let cs = MonoTextStyle::new(f, bw(true));
                        Text::new(s, *pos, cs).draw(t).unwrap();
                        let mut cs2 = cs;
                        cs2.background_color = Some(bw(false));
                        Text::new(s, *pos, cs2).draw(t).unwrap();
                    }
                }
            }
        }
    };
}
scol!(Rgb888, Rgb565, Rgb888::WHITE, Rgb888::BLACK);
scol!(Rgb565, BinaryColor, Rgb565::WHITE, Rgb565::BLACK);
scol!(BinaryColor, BinaryColor, BinaryColor::On, BinaryColor::Off);

/// boxes reported by the adapters (no allocation while armed: fixed array)
struct Boxes {
    n: usize,
    b: [Rectangle; 4],
}
fn go0<T: DrawTarget<Color = C, Error = Infallible>, C: SCol>(t: &mut T, stack: &[Ad], job: &AJob, _bbs: &mut Boxes) {
    assert!(stack.is_empty(), "adapter stack deeper than 3");
    C::leaf(job, t)
}
macro_rules! go {
    ($name:ident, $next:ident) => {
        fn $name<T: DrawTarget<Color = C, Error = Infallible>, C: SCol>(t: &mut T, stack: &[Ad], job: &AJob, bbs: &mut Boxes) {
            match stack.split_first() {
                None => C::leaf(job, t),
                Some((Ad::Clip(r), rest)) => {
                    let mut a = t.clipped(r);
                    bbs.b[bbs.n] = a.bounding_box();
                    bbs.n += 1;
                    $next::<_, C>(&mut a, rest, job, bbs)
                }
                Some((Ad::Crop(r), rest)) => {
                    let mut a = t.cropped(r);
                    bbs.b[bbs.n] = a.bounding_box();
                    bbs.n += 1;
                    $next::<_, C>(&mut a, rest, job, bbs)
                }
                Some((Ad::Trans(d), rest)) => {
                    let mut a = t.translated(*d);
                    bbs.b[bbs.n] = a.bounding_box();
                    bbs.n += 1;
                    $next::<_, C>(&mut a, rest, job, bbs)
                }
                Some((Ad::Conv, rest)) => {
                    let mut a = t.color_converted::<C::Next>();
                    bbs.b[bbs.n] = a.bounding_box();
                    bbs.n += 1;
                    $next::<_, C::Next>(&mut a, rest, job, bbs)
                }
            }
        }
    };
}
go!(go1, go0);
go!(go2, go1);
go!(go3, go2);

// ---------------------------------------------------------------------------------------------
// generator
// ---------------------------------------------------------------------------------------------
const BIASED: [i64; 16] = [0, 1, 2, 3, 63, 64, 65, 240, 255, 256, 257, 320, 480, 1000, 1023, 1024];
fn biased(rng: &mut Rng) -> i64 {
    if rng.chance(3, 4) {
        *rng.pick(&BIASED)
    } else {
        rng.range(0, 1024)
    }
}
fn coord(rng: &mut Rng) -> i64 {
    let v = biased(rng);
    if rng.chance(1, 2) {
        -v
    } else {
        v
    }
}
const ROOTS: [&str; 7] = ["0 0 320 240", "0 0 1024 768", "0 0 1024 1024", "-1024 -1024 2048 2048", "0 0 0 0", "0 0 1 1", "100 50 64 64"];
/// fixed adapter parameters: display areas, partly / completely outside, negative, empty, huge
const AREAS: [&str; 10] = [
    "0,0,320,240", "-10,-10,100,100", "300,200,1024,1024", "-1024,-1024,2048,2048", "1024,1024,0,0", "5,5,0,7", "-1024,-1024,1,1", "64,64,256,255",
    "1000,700,24,68", "-512,0,1024,1",
];
const OFFS: [&str; 6] = ["0,0", "1024,768", "-1024,-1024", "160,-120", "-1,1", "1024,-1024"];
fn ad_of(kind: usize, i: usize) -> String {
    match kind {
        0 => format!("c:{}", AREAS[i % AREAS.len()]),
        1 => format!("r:{}", AREAS[(i * 3 + 1) % AREAS.len()]),
        2 => format!("t:{}", OFFS[i % OFFS.len()]),
        _ => "v".to_string(),
    }
}
fn random_ad(rng: &mut Rng) -> String {
    match rng.below(4) {
        0 => format!("c:{},{},{},{}", coord(rng), coord(rng), biased(rng), biased(rng)),
        1 => format!("r:{},{},{},{}", coord(rng), coord(rng), biased(rng), biased(rng)),
        2 => format!("t:{},{}", coord(rng), coord(rng)),
        _ => "v".to_string(),
    }
}
/// representative jobs: every primitive with thin / wide strokes and fills, images, text, calls
const JOBS: [&str; 22] = [
    "shape rect -10 -10 340 260 7 9 3 1",
    "shape rect 0 0 1024 1024 7 - 0 1",
    "shape circle 32 -40 320 7 9 5 0",
    "shape circle -512 -512 1024 - 9 128 2",
    "shape ellipse 0 0 320 240 7 9 2 1",
    "shape rrect 10 10 300 220 40 30 40 30 40 30 40 30 7 9 4 1",
    "shape tri -100 -50 420 100 160 300 7 9 9 1",
    "shape line -1024 -1024 1024 1024 - 9 1 1",
    "shape line 0 239 319 0 - 9 64 1",
    "shape poly 0 0 4 -20 -20 340 10 300 260 -5 200 - 9 7 1",
    "shape arc 0 0 240 30000 270000 - 9 6 1",
    "shape sector 40 0 240 -45000 200000 7 9 3 0",
    "image 64 33 -10 -5 -3 2 70 20",
    "image 320 240 0 0 100 100 320 240",
    "image 0 0 5 5 0 0 1 1",
    "text 1 -20 10 72,101,108,108,111,10,119,111,114,108,100",
    "text 2 300 230 65,66,67",
    "calls fs:0,0,320,240:1|fc:-5,-5,330,250:82500|cl:0|di:0,0,1;319,239,0;-1,-1,1;320,240,1",
    "calls fc:0,0,320,240:76800|fc:10,10,64,64:100|fc:0,0,0,5:3|fs:1000,700,100,100:0",
    "calls fs:-1024,-1024,2048,2048:1|fc:-1024,-1024,1024,1024:1048576|cl:1",
    "calls fc:300,200,100,100:10000|fc:-50,-50,100,100:9999|fc:0,0,1024,1:1024|fc:0,0,1,1024:1030",
    "calls di:1024,1024,1;-1024,-1024,0;0,0,1|fs:5,5,0,7:1|fs:0,0,1,1:0|cl:1",
];
fn random_job(rng: &mut Rng) -> String {
    match rng.below(10) {
        0..=3 => {
            // a display-scale shape near / across the screen
            let s = crate::shapes::random_shape(rng, 400, 400);
            let w = *rng.pick(&[0i64, 1, 2, 3, 5, 64, 128]);
            format!("shape {} {} {} {} {}", s, if rng.chance(1, 2) { "7" } else { "-" }, if rng.chance(3, 4) { "9" } else { "-" }, w, rng.below(3))
        }
        4 => format!("image {} {} {} {} {} {} {} {}", *rng.pick(&[0i64, 1, 7, 8, 9, 64, 65, 320]), *rng.pick(&[0i64, 1, 2, 33, 240]), coord(rng), coord(rng), rng.range(-3, 70), rng.range(-3, 70), rng.range(0, 330), rng.range(0, 250)),
        5 => format!("text {} {} {} {}", rng.below(4), coord(rng), coord(rng), fmt_list((0..rng.range(0, 24)).map(|i| if i % 9 == 8 { 10 } else { 65 + i }))),
        _ => {
            let n = rng.range(1, 5);
            let mut v = Vec::new();
            for _ in 0..n {
                // two thirds small enough for the list-based model (<= 100 000 points), one third up to 1024 x 1024
                let (x, y, w, h) = if rng.chance(2, 3) { (coord(rng), coord(rng), biased(rng).min(400), biased(rng).min(240)) } else { (coord(rng), coord(rng), biased(rng), biased(rng)) };
                v.push(match rng.below(5) {
                    0 => format!("fs:{},{},{},{}:{}", x, y, w, h, rng.below(2)),
                    1 | 2 => {
                        let total = w * h;
                        let n = match rng.below(4) {
                            0 => total,
                            1 => (total - 1).max(0),
                            2 => total + 3,
                            _ => rng.range(0, total.max(1)),
                        };
                        format!("fc:{},{},{},{}:{}", x, y, w, h, n)
                    }
                    3 => format!("cl:{}", rng.below(2)),
                    _ => format!("di:{},{},1;{},{},0;{},{},1", x, y, x + w - 1, y + h - 1, coord(rng), coord(rng)),
                });
            }
            format!("calls {}", v.join("|"))
        }
    }
}

pub fn generate(tier: Tier, rng: &mut Rng, emit: &mut dyn FnMut(String)) {
    let quick = tier == Tier::Quick;
    // every adapter kind alone and every ordered pair of kinds (2-deep stacks), fixed parameters
    // rotating through AREAS / OFFS, x every representative job, on rotating roots
    let mut stacks: Vec<String> = Vec::new();
    let mut i = 0usize;
    for a in 0..4 {
        for rep in 0..(if quick { 2 } else { 6 }) {
            stacks.push(ad_of(a, i + rep));
            i += 1;
        }
        for b in 0..4 {
            for rep in 0..(if quick { 1 } else { 4 }) {
                stacks.push(format!("{}/{}", ad_of(a, i + rep), ad_of(b, i + 2 * rep + 5)));
                i += 1;
            }
        }
    }
    // a few 3-deep stacks (two colour conversions, clip in a crop in a translation, ...)
    for s in ["v/c:0,0,320,240/v", "t:160,-120/r:-10,-10,100,100/c:5,5,64,64", "r:300,200,1024,1024/t:-1024,-1024/v", "c:-1024,-1024,2048,2048/c:0,0,320,240/r:64,64,256,255", "v/v/t:1,1"] {
        stacks.push(s.to_string());
    }
    for (si, st) in stacks.iter().enumerate() {
        for (ji, job) in JOBS.iter().enumerate() {
            let nroots = if quick { 1 } else { 3 };
            for k in 0..nroots {
                emit(format!("scale.adapter {} {} {}", ROOTS[(si + 2 * ji + 3 * k) % ROOTS.len()], st, job));
            }
        }
    }
    // the jobs without any adapter (reference for the counts)
    for (ji, job) in JOBS.iter().enumerate() {
        emit(format!("scale.adapter {} - {}", ROOTS[ji % 3], job));
    }
    // seeded random stacks (depth 1..=2, sometimes 3) x random jobs
    let n = if quick { 1200 } else { 10_000 };
    for _ in 0..n {
        let depth = match rng.below(8) {
            0 => 3,
            1..=3 => 1,
            _ => 2,
        };
        let st: Vec<String> = (0..depth).map(|_| if rng.chance(1, 3) { ad_of(rng.below(4) as usize, rng.below(60) as usize) } else { random_ad(rng) }).collect();
        let root = if rng.chance(4, 5) { ROOTS[rng.below(ROOTS.len() as u64) as usize].to_string() } else { format!("{} {} {} {}", coord(rng), coord(rng), biased(rng), biased(rng)) };
        emit(format!("scale.adapter {} {} {}", root, st.join("/"), random_job(rng)));
    }
}

// ---------------------------------------------------------------------------------------------
// executor
// ---------------------------------------------------------------------------------------------
pub fn execute(op: &str, ctx: &mut Ctx) -> String {
    let mut t = Toks::new(op);
    let _ = t.str();
    let root = t.rect();
    let stack = parse_stack(t.str());
    let nconv = stack.iter().filter(|a| matches!(a, Ad::Conv)).count();
    ctx.count(&format!("adapter:depth:{}", stack.len()));
    for a in &stack {
        ctx.count(match a {
            Ad::Clip(_) => "adapter:clipped",
            Ad::Crop(_) => "adapter:cropped",
            Ad::Trans(_) => "adapter:translated",
            Ad::Conv => "adapter:converted",
        });
    }
    let kind = t.str();
    ctx.count(&format!("adapter:job:{}", kind));
    let job = match kind {
        "calls" => AJob::Calls(parse_acalls(t.str())),
        "shape" => {
            let sh = Shape::parse(&mut t);
            let st = parse_style(&mut t);
            ctx.count(&format!("adapter:shape:{}", sh.kind()));
            AJob::Shape(sh, st)
        }
        "image" => {
            let size = t.size();
            let pos = t.point();
            let sub = t.rect();
            let bits = [24usize, 16, 1, 1][nconv.min(3)];
            let bpr = (size.width as usize * bits + 7) / 8;
            let data: Vec<u8> = (0..bpr * size.height as usize).map(|i| (i * 37 + 11) as u8).collect();
            AJob::Image { data, size, pos, sub }
        }
        "text" => {
            let font = t.usize();
            let pos = t.point();
            let s: String = t.u32_list().into_iter().map(|c| char::from_u32(c).unwrap_or('?')).collect();
            AJob::Text { font, pos, s }
        }
        other => panic!("unknown job {}", other),
    };
    let mut b1 = Boxes { n: 0, b: [Rectangle::zero(); 4] };
    let mut b2 = Boxes { n: 0, b: [Rectangle::zero(); 4] };
    let mut d = Probe::<Rgb888, false>::new(root);
    let mut n = Probe::<Rgb888, true>::new(root);
    alloc_reset();
    alloc_arm(true);
    go3::<_, Rgb888>(&mut d, &stack, &job, &mut b1);
    go3::<_, Rgb888>(&mut n, &stack, &job, &mut b2);
    let allocs = alloc_arm(false);
    if d.n + n.n > 0 {
        ctx.nontrivial(op);
    }
    ctx.expect(allocs == 0, "C08:heap-allocation", || format!("{} allocation(s) inside library calls", allocs));
    ctx.expect(!d.over && !n.over, "C08:iteration-budget-exceeded", || "more than 4e7 items from one iterator".into());
    ctx.expect(b1.n == b2.n && b1.b == b2.b, "C08:adapter-box-depends-on-root-kind", || "reported boxes differ between the two roots".into());
    let bb = if b1.n == 0 { "-".to_string() } else { b1.b[..b1.n].iter().map(fmt_rect).collect::<Vec<_>>().join("/") };
    if kind == "calls" {
        format!("bb={} d={} n={} alloc={}", bb, d.summary(), n.summary(), allocs)
    } else {
        format!("ok bb={} d={} n={} alloc={}", bb, d.n, n.n, allocs)
    }
}
