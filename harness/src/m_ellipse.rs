//! module `ellipse` (serves C05, C06, C18) — the Ellipse primitive.
//!
//! Streams (op lines; every result line is compared with the Lean model `EG.Model.Ellipse`):
//!   ellipse.points x y w h
//!       -> bb=<bounding box> c=<center> pts=<points() list> in=<contains() bitmap, row-major, over
//!          the bounding box grown by a 3 px margin>
//!   ellipse.areas  x y w h width align
//!       -> s=<x,y,w,h of offset(+outside)> f=<x,y,w,h of offset(-inside)> sbb=<styled_bounding_box>
//!   ellipse.styled x y w h fill stroke width align tx ty tw th   (colours `-` or a number; align
//!          0 = Inside, 1 = Center, 2 = Outside; `tx ty tw th` = bounding box of the target)
//!       -> log=<call log of draw() on R2> m1=<map of draw() on R1> m2=<map of draw() on R2>
//!          px=<pixels() sequence, in iteration order>
//!
//! Sizes stay <= 128 (+ stroke) so that the `u32` products of `EllipseContains` do not overflow
//! (C08's topic); the model uses unbounded naturals.
//!
//! Oracle (the property texts as predicates on the real results). Lean statements mirrored:
//!   C05 `ellipse_points_eq_filter_contains`, `ellipse_contains_inside_bbox`;
//!   C18 `ellipse_contains_iff_ideal`, `ellipse_mirror_x/y`, `ellipse_rows_contiguous`,
//!       `ellipse_columns_contiguous`, `circle_eq_ellipse_equal_axes`;
//!   C06 `ellipse_offset_*`, `styled_ellipse_exact`, inside / outside stroke;
//!   C01 `styled_ellipse_pixels_eq_draw` (R1 map == R2 map == pixels() map).
use crate::common::*;
use embedded_graphics::{
    pixelcolor::Rgb565,
    prelude::*,
    primitives::{Circle, ContainsPoint, Ellipse, OffsetOutline, PrimitiveStyleBuilder, StrokeAlignment},
};

pub struct M;

fn align_of(i: u32) -> StrokeAlignment {
    match i {
        0 => StrokeAlignment::Inside,
        1 => StrokeAlignment::Center,
        _ => StrokeAlignment::Outside,
    }
}

/// the documented split of the stroke width: (inside part, outside part)
fn split(width: u32, align: u32) -> (u32, u32) {
    match align {
        0 => (width, 0),
        1 => (width - width / 2, width / 2), // the larger half inside
        _ => (0, width),
    }
}

fn col_tok(t: &str) -> Option<u32> {
    if t == "-" {
        None
    } else {
        Some(t.parse().expect("bad colour"))
    }
}

fn fmt_ellipse(e: &Ellipse) -> String {
    format!("{},{},{},{}", e.top_left.x, e.top_left.y, e.size.width, e.size.height)
}

/// doubled-coordinate offsets of the pixel centre from the ellipse centre
fn deltas(e: &Ellipse, p: Point) -> (i64, i64) {
    let cx = 2 * e.top_left.x as i64 + e.size.width as i64 - 1;
    let cy = 2 * e.top_left.y as i64 + e.size.height as i64 - 1;
    (2 * p.x as i64 - cx, 2 * p.y as i64 - cy)
}

const UNB: (i32, i32, u32, u32) = (-(1 << 20), -(1 << 20), 1 << 21, 1 << 21);

impl Module for M {
    fn name(&self) -> &'static str {
        "ellipse"
    }
    fn rule(&self) -> &'static str {
        "ellipse.points: every size 0..=14 x 0..=14 (thorough 0..=40 squared) at rotating positions (origin, negative, axis-crossing), thin \
         ellipses 1..=3 x up to 128, plus seeded random positions/sizes <= 128; ellipse.styled: sizes 0..=7 squared x widths 0..=4 and \
         max+2 x 3 alignments x 4 colour options x 3 target boxes (unbounded, clipping box not at the origin, empty), plus random larger \
         cases; ellipse.areas: same sizes x widths x alignments. Non-trivial: both sides >= 1 (points), both sides >= 1 and a colour set \
         (styled); distinct = distinct op text."
    }

    fn generate(&self, pid: &str, tier: Tier, rng: &mut Rng, emit: &mut dyn FnMut(String)) {
        let quick = tier == Tier::Quick;
        let pos: [(i32, i32); 3] = [(0, 0), (-40, -17), (-5, -3)];
        if pid == "C05" || pid == "C18" {
            let smax: u32 = if quick { 14 } else { 40 };
            for w in 0..=smax {
                for h in 0..=smax {
                    let (x, y) = pos[((w + 2 * h) % 3) as usize];
                    emit(format!("ellipse.points {} {} {} {}", x, y, w, h));
                }
            }
            // thin and flat ellipses (rows / columns without a hit)
            let long: &[u32] = if quick { &[10, 17, 32, 64, 128] } else { &[10, 17, 23, 32, 47, 64, 90, 101, 128] };
            for t in 1..=4u32 {
                for l in long {
                    emit(format!("ellipse.points -7 3 {} {}", t, l));
                    emit(format!("ellipse.points -7 3 {} {}", l, t));
                }
            }
            // display-scale ellipses (products of the axes beyond 2^16: the `u64` arithmetic of
            // `EllipseContains`; seeded change C18-r2-1 multiplied them in `u32`)
            let big: &[(u32, u32)] =
                if quick { &[(320, 240), (257, 255), (1000, 70)] } else { &[(320, 240), (240, 320), (257, 255), (400, 300), (1000, 70), (70, 1000), (512, 512), (640, 480)] };
            for (w, h) in big {
                emit(format!("ellipse.points -150 -100 {} {}", w, h));
            }
            let n = if quick { 60 } else { 600 };
            for _ in 0..n {
                let scale = *rng.pick(&[8i64, 64, 1024, 1 << 20]);
                let x = rng.range(-scale, scale);
                let y = rng.range(-scale, scale);
                let m = if quick { 40 } else { 128 };
                let w = rng.range(0, m);
                let h = if rng.chance(1, 6) { w } else { rng.range(0, m) };
                emit(format!("ellipse.points {} {} {} {}", x, y, w, h));
            }
        }
        if pid == "C06" || pid == "C01" {
            let cols: [(&str, &str); 4] = [("7", "-"), ("-", "9"), ("7", "9"), ("-", "-")];
            let boxes: [(i32, i32, u32, u32); 3] = [UNB, (2, 1, 5, 4), (0, 0, 0, 0)];
            let smax: u32 = if quick { 7 } else { 10 };
            for w in 0..=smax {
                for h in 0..=smax {
                    let mut widths: Vec<u32> = (0..=4).collect();
                    widths.push(w.max(h) + 2);
                    for sw in widths {
                        for a in 0..3u32 {
                            let (x, y) = pos[((w + h + sw + a) % 3) as usize];
                            emit(format!("ellipse.areas {} {} {} {} {} {}", x, y, w, h, sw, a));
                            for (f, s) in cols.iter() {
                                for (bi, b) in boxes.iter().enumerate() {
                                    let (bx, by) = if bi == 1 { (x + b.0, y + b.1) } else { (b.0, b.1) };
                                    emit(format!(
                                        "ellipse.styled {} {} {} {} {} {} {} {} {} {} {} {}",
                                        x, y, w, h, f, s, sw, a, bx, by, b.2, b.3
                                    ));
                                }
                            }
                        }
                    }
                }
            }
            // thin ellipses and larger / random cases
            let n = if quick { 200 } else { 3000 };
            for i in 0..n {
                let scale = *rng.pick(&[8i64, 64, 1024]);
                let x = rng.range(-scale, scale);
                let y = rng.range(-scale, scale);
                let m = if quick { 40 } else { 110 };
                let (w, h) = if i % 5 == 0 {
                    let t = rng.range(1, 4);
                    let l = rng.range(5, m);
                    if rng.chance(1, 2) {
                        (t, l)
                    } else {
                        (l, t)
                    }
                } else {
                    (rng.range(0, m), rng.range(0, m))
                };
                // keep the stroke area <= 160 px so that the u32 products of `EllipseContains` cannot overflow (C08)
                let sw = if rng.chance(1, 8) {
                    (w.min(h) + rng.range(0, 3)).min((160 - w.max(h)) / 2)
                } else {
                    rng.range(0, if quick { 6 } else { 9 })
                };
                let a = rng.below(3);
                let (f, s) = *rng.pick(&cols);
                emit(format!("ellipse.areas {} {} {} {} {} {}", x, y, w, h, sw, a));
                let b = if rng.chance(1, 3) {
                    (x + rng.range(-3, w / 2), y + rng.range(-3, h / 2), rng.range(0, w + 4), rng.range(0, h + 4))
                } else {
                    (UNB.0 as i64, UNB.1 as i64, UNB.2 as i64, UNB.3 as i64)
                };
                emit(format!("ellipse.styled {} {} {} {} {} {} {} {} {} {} {} {}", x, y, w, h, f, s, sw, a, b.0, b.1, b.2, b.3));
            }
        }
    }

    fn execute(&self, op: &str, ctx: &mut Ctx) -> String {
        let mut t = Toks::new(op);
        match t.str() {
            "ellipse.points" => {
                let tl = t.point();
                let sz = t.size();
                let e = Ellipse::new(tl, sz);
                let (w, h) = (sz.width, sz.height);
                ctx.count("points");
                ctx.count(if w == h { "points:equal-axes" } else if w.min(h) <= 3 && w.max(h) >= 8 { "points:thin" } else { "points:general" });
                if w >= 1 && h >= 1 {
                    ctx.nontrivial(op);
                }
                let bb = e.bounding_box();
                let pts: Vec<Point> = e.points().collect();
                if pts.len() <= 400 {
                    iter_protocol_check(ctx, "iterator-protocol:ellipse-points", e.points(), 400);
                }
                let m = 3i32;
                let (x0, y0) = (tl.x - m, tl.y - m);
                let (x1, y1) = (tl.x + w as i32 + m, tl.y + h as i32 + m);
                let mut bits = String::new();
                let mut accepted: Vec<Point> = Vec::new();
                let mut outside_bb = None;
                let mut not_ideal = None;
                let mut off_band = None;
                let mut asym = None;
                let mut ne_circle = None;
                let (ww, hh) = (w as i64, h as i64);
                let circle = Circle::new(tl, w);
                for y in y0..y1 {
                    for x in x0..x1 {
                        let p = Point::new(x, y);
                        let inside = e.contains(p);
                        bits.push(if inside { '1' } else { '0' });
                        if inside {
                            accepted.push(p);
                            if !bb.contains(p) {
                                outside_bb = Some(p);
                            }
                        }
                        let (dx, dy) = deltas(&e, p);
                        // C18: pixel centre strictly inside the ideal ellipse (dx/w)^2 + (dy/h)^2 < 1
                        let ideal = hh * hh * dx * dx + ww * ww * dy * dy < ww * ww * hh * hh;
                        if w != h || w > 4 {
                            if inside != ideal {
                                not_ideal = Some(p);
                            }
                        } else {
                            // equal axes <= 4: the circle's half-pixel band
                            let d2 = dx * dx + dy * dy;
                            if (inside && !(d2 < (ww + 1) * (ww + 1))) || (w >= 1 && d2 <= (ww - 1) * (ww - 1) && !inside) {
                                off_band = Some(p);
                            }
                        }
                        if w == h && circle.contains(p) != inside {
                            ne_circle = Some(p);
                        }
                        let mx = Point::new(2 * tl.x + w as i32 - 1 - x, y);
                        let my = Point::new(x, 2 * tl.y + h as i32 - 1 - y);
                        if w >= 1 && h >= 1 && (e.contains(mx) != inside || e.contains(my) != inside) {
                            asym = Some(p);
                        }
                    }
                }
                // C05
                ctx.expect(pts == accepted, "C05:ellipse-points-ne-contains", || {
                    format!("points {} vs contains {}", fmt_pts(pts.iter().copied()), fmt_pts(accepted.iter().copied()))
                });
                ctx.expect(outside_bb.is_none(), "C05:ellipse-contains-outside-bbox", || format!("{:?}", outside_bb));
                ctx.expect(pts.iter().all(|p| bb.contains(*p)), "C05:ellipse-points-outside-bbox", || "points() outside bounding box".into());
                ctx.expect(
                    pts.windows(2).all(|w| (w[0].y, w[0].x) < (w[1].y, w[1].x)),
                    "C05:ellipse-points-not-row-major-once",
                    || fmt_pts(pts.iter().copied()),
                );
                // (probes stay within 40 px: further out the u32 products of `EllipseContains` overflow, C08)
                let far = [
                    Point::new(tl.x - 40, tl.y),
                    Point::new(tl.x + w as i32 + 40, tl.y + h as i32 / 2),
                    Point::new(tl.x + w as i32 / 2, tl.y - 40),
                    Point::new(tl.x + w as i32 / 2, tl.y + h as i32 + 40),
                ];
                ctx.expect(far.iter().all(|p| !e.contains(*p)), "C05:ellipse-contains-outside-bbox", || "far probe accepted".into());
                // C18
                ctx.expect(not_ideal.is_none(), "C18:ellipse-not-ideal", || format!("{:?}", not_ideal));
                ctx.expect(off_band.is_none(), "C18:ellipse-equal-axes-outside-half-pixel-band", || format!("{:?}", off_band));
                ctx.expect(asym.is_none(), "C18:ellipse-not-mirror-symmetric", || format!("{:?}", asym));
                ctx.expect(ne_circle.is_none(), "C18:circle-ne-ellipse-equal-axes", || format!("{:?}", ne_circle));
                if w == h {
                    let cpts: Vec<Point> = circle.points().collect();
                    ctx.expect(cpts == pts, "C18:circle-ne-ellipse-equal-axes", || "points() differ".into());
                }
                {
                    let mut ok_rows = true;
                    let mut ok_cols = true;
                    for y in y0..y1 {
                        let xs: Vec<i32> = accepted.iter().filter(|p| p.y == y).map(|p| p.x).collect();
                        if !xs.is_empty() && (xs[xs.len() - 1] - xs[0] + 1) as usize != xs.len() {
                            ok_rows = false;
                        }
                    }
                    for x in x0..x1 {
                        let mut ys: Vec<i32> = accepted.iter().filter(|p| p.x == x).map(|p| p.y).collect();
                        ys.sort();
                        if !ys.is_empty() && (ys[ys.len() - 1] - ys[0] + 1) as usize != ys.len() {
                            ok_cols = false;
                        }
                    }
                    ctx.expect(ok_rows, "C18:ellipse-row-not-contiguous", || fmt_pts(accepted.iter().copied()));
                    ctx.expect(ok_cols, "C18:ellipse-column-not-contiguous", || fmt_pts(accepted.iter().copied()));
                }
                if w >= 1 && h >= 1 {
                    ctx.expect(!accepted.is_empty(), "C18:ellipse-empty", || "non-degenerate ellipse without points".into());
                }
                format!("bb={} c={} pts={} in={}", fmt_rect(&bb), fmt_pt(e.center()), fmt_pts(pts), bits)
            }
            "ellipse.areas" => {
                let tl = t.point();
                let sz = t.size();
                let sw = t.u32();
                let a = t.u32();
                let e = Ellipse::new(tl, sz);
                let (w, h) = (sz.width, sz.height);
                let (ins, out) = split(sw, a);
                ctx.count("areas");
                let sa = e.offset(out as i32);
                let fa = e.offset(-(ins as i32));
                let style = PrimitiveStyleBuilder::<Rgb565>::new()
                    .stroke_color(Rgb565::from_num(9))
                    .stroke_width(sw)
                    .stroke_alignment(align_of(a))
                    .build();
                let sbb = e.into_styled(style).bounding_box();
                if w >= 1 && h >= 1 {
                    ctx.nontrivial(op);
                    ctx.expect(
                        sa.top_left == tl - Point::new(out as i32, out as i32) && sa.size == Size::new(w + 2 * out, h + 2 * out),
                        "C06:ellipse-stroke-area-not-grown-by-outside-width",
                        || fmt_ellipse(&sa),
                    );
                    ctx.expect(sbb == sa.bounding_box(), "C06:ellipse-styled-bbox-ne-stroke-area-bbox", || fmt_rect(&sbb));
                    if w > 2 * ins && h > 2 * ins {
                        ctx.count("areas:fill-nondegenerate");
                        ctx.expect(
                            fa.top_left == tl + Point::new(ins as i32, ins as i32) && fa.size == Size::new(w - 2 * ins, h - 2 * ins),
                            "C06:ellipse-fill-area-not-shrunk-by-inside-width",
                            || fmt_ellipse(&fa),
                        );
                    } else {
                        ctx.count("areas:fill-collapsed");
                        ctx.expect(
                            fa.size == Size::new(w.saturating_sub(2 * ins), h.saturating_sub(2 * ins)),
                            "C06:ellipse-fill-area-not-shrunk-by-inside-width",
                            || fmt_ellipse(&fa),
                        );
                    }
                }
                format!("s={} f={} sbb={}", fmt_ellipse(&sa), fmt_ellipse(&fa), fmt_rect(&sbb))
            }
            "ellipse.styled" => {
                let tl = t.point();
                let sz = t.size();
                let fill = col_tok(t.str());
                let stroke = col_tok(t.str());
                let sw = t.u32();
                let a = t.u32();
                let tbox = t.rect();
                let e = Ellipse::new(tl, sz);
                let (w, h) = (sz.width, sz.height);
                let mut sb = PrimitiveStyleBuilder::<Rgb565>::new().stroke_width(sw).stroke_alignment(align_of(a));
                if let Some(f) = fill {
                    sb = sb.fill_color(Rgb565::from_num(f));
                }
                if let Some(s) = stroke {
                    sb = sb.stroke_color(Rgb565::from_num(s));
                }
                let style = sb.build();
                let styled = e.into_styled(style);
                ctx.count("styled");
                ctx.count(match (fill.is_some(), stroke.is_some()) {
                    (true, false) => "styled:fill-only",
                    (false, true) => "styled:stroke-only",
                    (true, true) => "styled:both",
                    (false, false) => "styled:none",
                });
                ctx.count(match a {
                    0 => "styled:inside",
                    1 => "styled:center",
                    _ => "styled:outside",
                });
                let (ins, out) = split(sw, a);
                match (2 * ins >= w, 2 * ins >= h) {
                    (true, true) => ctx.count("styled:fill-collapsed-both"),
                    (true, false) => ctx.count("styled:fill_w=0"),
                    (false, true) => ctx.count("styled:fill_h=0"),
                    _ => {}
                }
                if w.min(h) >= 1 && w.min(h) <= 3 && w.max(h) >= 8 {
                    ctx.count("styled:thin");
                }
                if tbox.is_zero_sized() {
                    ctx.count("styled:target-empty");
                }
                if w >= 1 && h >= 1 && (fill.is_some() || stroke.is_some()) {
                    ctx.nontrivial(op);
                }
                let mut r1 = R1::<Rgb565>::new(tbox);
                let mut r2 = R2::<Rgb565>::new(tbox);
                let mut r3 = R1::<Rgb565>::new(tbox);
                let e1 = styled.draw(&mut r1);
                let e2 = styled.draw(&mut r2);
                let px: Vec<((i32, i32), u32)> = styled.pixels().map(|Pixel(p, c)| ((p.x, p.y), c.num())).collect();
                let e3 = r3.draw_iter(styled.pixels());
                ctx.expect(e1.is_ok() && e2.is_ok() && e3.is_ok(), "ellipse-draw-error", || "draw returned Err".into());
                ctx.expect(r1.rec.map == r2.rec.map, "ellipse-paths-differ:r1-r2", || {
                    format!("R1 {} R2 {}", r1.rec.fmt_map(), r2.rec.fmt_map())
                });
                ctx.expect(r1.rec.map == r3.rec.map, "ellipse-paths-differ:draw-pixels", || {
                    format!("draw {} pixels {}", r1.rec.fmt_map(), r3.rec.fmt_map())
                });
                let sa = e.offset(out as i32);
                let fa = e.offset(-(ins as i32));
                let g = (out + 3) as i32;
                let mut bad = None;
                let mut inside_viol = None;
                let mut outside_viol = None;
                let mut painted = 0usize;
                for y in (tl.y - g)..(tl.y + h as i32 + g) {
                    for x in (tl.x - g)..(tl.x + w as i32 + g) {
                        let p = Point::new(x, y);
                        let want: Option<u32> = if !tbox.contains(p) {
                            None
                        } else if fa.contains(p) {
                            fill
                        } else if sa.contains(p) && sw > 0 {
                            stroke
                        } else {
                            None
                        };
                        let got = r1.rec.map.get(&(y, x)).copied();
                        if got.is_some() {
                            painted += 1;
                        }
                        if got != want {
                            bad = Some((p, got, want));
                        }
                        if a == 0 && got.is_some() && !e.contains(p) {
                            inside_viol = Some(p);
                        }
                        if a == 2 && got.is_some() && got == stroke && fill != stroke && e.contains(p) {
                            outside_viol = Some(p);
                        }
                    }
                }
                ctx.expect(bad.is_none(), "C06:ellipse-styled-map-ne-areas", || format!("{:?}", bad));
                ctx.expect(painted == r1.rec.map.len(), "C06:ellipse-styled-paints-outside-stroke-area-box", || {
                    format!("{} painted in the probe box, {} in the map", painted, r1.rec.map.len())
                });
                ctx.expect(inside_viol.is_none(), "C06:ellipse-inside-stroke-paints-outside-shape", || format!("{:?}", inside_viol));
                ctx.expect(outside_viol.is_none(), "C06:ellipse-outside-stroke-paints-inside-shape", || format!("{:?}", outside_viol));
                let mut pxs = String::new();
                for (i, ((x, y), c)) in px.iter().enumerate() {
                    if i > 0 {
                        pxs.push(';');
                    }
                    pxs.push_str(&format!("{},{},{}", x, y, c));
                }
                if pxs.is_empty() {
                    pxs.push('-');
                }
                format!("log={} m1={} m2={} px={}", r2.rec.fmt_log(), r1.rec.fmt_map(), r2.rec.fmt_map(), pxs)
            }
            other => panic!("unknown op {}", other),
        }
    }
}
