//! C12 — not built yet.
use crate::common::*;

pub struct C12;

impl Prop for C12 {
    fn id(&self) -> &'static str {
        "C12"
    }
    fn rule(&self) -> &'static str {
        "not built yet"
    }
    fn generate(&self, _tier: Tier, _rng: &mut Rng, _emit: &mut dyn FnMut(String)) {}
    fn execute(&self, op: &str, _ctx: &mut Ctx) -> String {
        panic!("unknown op {}", op)
    }
}
