//! Shared description of styled primitives as op tokens, used by the cross-cutting modules
//! (`styled`, `faults`, `scale`).
//!
//! Token formats (all integers):
//!   shape:  rect x y w h | circle x y d | ellipse x y w h
//!         | rrect x y w h tlw tlh trw trh brw brh blw blh
//!         | tri x1 y1 x2 y2 x3 y3 | line x0 y0 x1 y1
//!         | poly tx ty n x y x y ...            (vertices + the polyline's `translate` field)
//!         | arc x y d start_mdeg sweep_mdeg | sector x y d start_mdeg sweep_mdeg   (milli-degrees)
//!   style:  fill stroke width align            (fill/stroke: `-` or Rgb565 raw value; align 0=Inside 1=Center 2=Outside)
//!
//! Hook tokens (optional, always LAST on the op line; appended by `with_hooks` when a generator emits an op whose shape is an
//! arc or a sector):  `hk tag lx ly rx ry` for an arc, `hk tag lx ly rx ry bk bnx bny` for a sector: what the real
//! `PlaneSector::new(start, sweep)` (hook `verif_hooks::plane_sector`) and, for sectors, the real `sector::StyledPixelsIterator::new`
//! (hook `verif_bevel`: bevel kind 0 none / 1 interior / 2 exterior and the normal of the bevel line) computed from the two angles.
//! The model side needs them (the f32 trigonometry of the default build is not modelled); the harness side never reads them
//! (it builds the primitive from the angles). Op lines without them (corpus / replay lines) parse as before and the model skips them.
#![allow(dead_code)]
use crate::common::*;
use embedded_graphics::{
    geometry::Angle,
    pixelcolor::Rgb565,
    prelude::*,
    primitives::{
        Arc, Circle, CornerRadii, Ellipse, Line, PrimitiveStyle, PrimitiveStyleBuilder, Rectangle, RoundedRectangle, Sector,
        StrokeAlignment, Triangle,
    },
};

#[derive(Clone, Debug)]
pub enum Shape {
    Rect(Rectangle),
    Circle(Circle),
    Ellipse(Ellipse),
    RRect(RoundedRectangle),
    Tri(Triangle),
    Line(Line),
    Poly(Vec<Point>, Point),
    Arc(Arc),
    Sector(Sector),
}

pub fn mdeg(m: i32) -> Angle {
    Angle::from_degrees(m as f32 / 1000.0)
}

impl Shape {
    pub fn parse(t: &mut Toks) -> Shape {
        match t.str() {
            "rect" => Shape::Rect(t.rect()),
            "circle" => {
                let p = t.point();
                Shape::Circle(Circle::new(p, t.u32()))
            }
            "ellipse" => {
                let p = t.point();
                Shape::Ellipse(Ellipse::new(p, t.size()))
            }
            "rrect" => {
                let r = t.rect();
                let tl = t.size();
                let tr = t.size();
                let br = t.size();
                let bl = t.size();
                Shape::RRect(RoundedRectangle::new(
                    r,
                    CornerRadii { top_left: tl, top_right: tr, bottom_right: br, bottom_left: bl },
                ))
            }
            "tri" => {
                let a = t.point();
                let b = t.point();
                let c = t.point();
                Shape::Tri(Triangle::new(a, b, c))
            }
            "line" => {
                let a = t.point();
                let b = t.point();
                Shape::Line(Line::new(a, b))
            }
            "poly" => {
                let tr = t.point();
                let n = t.usize();
                let v = (0..n).map(|_| t.point()).collect();
                Shape::Poly(v, tr)
            }
            "arc" => {
                let p = t.point();
                let d = t.u32();
                let s = t.i32();
                let w = t.i32();
                Shape::Arc(Arc::new(p, d, mdeg(s), mdeg(w)))
            }
            "sector" => {
                let p = t.point();
                let d = t.u32();
                let s = t.i32();
                let w = t.i32();
                Shape::Sector(Sector::new(p, d, mdeg(s), mdeg(w)))
            }
            other => panic!("unknown shape {}", other),
        }
    }
    pub fn kind(&self) -> &'static str {
        match self {
            Shape::Rect(_) => "rect",
            Shape::Circle(_) => "circle",
            Shape::Ellipse(_) => "ellipse",
            Shape::RRect(_) => "rrect",
            Shape::Tri(_) => "tri",
            Shape::Line(_) => "line",
            Shape::Poly(..) => "poly",
            Shape::Arc(_) => "arc",
            Shape::Sector(_) => "sector",
        }
    }
    pub fn is_closed(&self) -> bool {
        matches!(self, Shape::Rect(_) | Shape::Circle(_) | Shape::Ellipse(_) | Shape::RRect(_))
    }
}

pub type Style = PrimitiveStyle<Rgb565>;

pub fn parse_style(t: &mut Toks) -> Style {
    let fill = t.str();
    let stroke = t.str();
    let width = t.u32();
    let align = t.u32();
    let mut b = PrimitiveStyleBuilder::new().stroke_width(width).stroke_alignment(match align {
        0 => StrokeAlignment::Inside,
        1 => StrokeAlignment::Center,
        _ => StrokeAlignment::Outside,
    });
    if fill != "-" {
        b = b.fill_color(Rgb565::from_num(fill.parse().unwrap()));
    }
    if stroke != "-" {
        b = b.stroke_color(Rgb565::from_num(stroke.parse().unwrap()));
    }
    b.build()
}

/// Run `$body` with `$p` bound to a reference to the concrete primitive (every built-in primitive
/// type; the polyline is constructed over the vertex slice with its `translate` field applied).
#[macro_export]
macro_rules! with_shape {
    ($s:expr, $p:ident => $body:expr) => {
        match $s {
            $crate::shapes::Shape::Rect($p) => $body,
            $crate::shapes::Shape::Circle($p) => $body,
            $crate::shapes::Shape::Ellipse($p) => $body,
            $crate::shapes::Shape::RRect($p) => $body,
            $crate::shapes::Shape::Tri($p) => $body,
            $crate::shapes::Shape::Line($p) => $body,
            $crate::shapes::Shape::Arc($p) => $body,
            $crate::shapes::Shape::Sector($p) => $body,
            $crate::shapes::Shape::Poly(v, tr) => {
                let poly = embedded_graphics::primitives::Polyline::new(&v[..]).translate(*tr);
                let $p = &poly;
                $body
            }
        }
    };
}

// ---------------------------------------------------------------------------------------------
// Generators shared by the cross-cutting modules.
// ---------------------------------------------------------------------------------------------

/// Style token strings: 4 colour options x widths x 3 alignments.
pub fn style_grid(widths: &[u32]) -> Vec<String> {
    let mut v = Vec::new();
    for (f, s) in [("7", "-"), ("-", "9"), ("7", "9"), ("-", "-")] {
        for w in widths {
            for a in 0..3 {
                // alignment is irrelevant without an effective stroke: keep one representative
                if (s == "-" || *w == 0) && a != 1 {
                    continue;
                }
                v.push(format!("{} {} {} {}", f, s, w, a));
            }
        }
    }
    v
}

/// Small exhaustive scope of shapes (token strings) around a non-origin, axis-crossing position.
pub fn shape_grid(max_size: u32, grid: i32, angles: &[(i32, i32)]) -> Vec<String> {
    let mut v = Vec::new();
    let (ox, oy) = (-2, -1);
    for w in 0..=max_size {
        for h in 0..=max_size {
            v.push(format!("rect {} {} {} {}", ox, oy, w, h));
            v.push(format!("ellipse {} {} {} {}", ox, oy, w, h));
        }
    }
    for d in 0..=(2 * max_size) {
        v.push(format!("circle {} {} {}", ox, oy, d));
    }
    // rounded rectangles: equal radii and a few unequal ones
    for w in [0u32, 1, 3, 4, max_size, max_size + 3] {
        for h in [0u32, 2, 5, max_size, max_size + 4] {
            for (rw, rh) in [(0u32, 0u32), (1, 1), (2, 1), (1, 3), (3, 3), (max_size, 2), (max_size, max_size)] {
                v.push(format!("rrect {} {} {} {} {rw} {rh} {rw} {rh} {rw} {rh} {rw} {rh}", ox, oy, w, h));
            }
            v.push(format!("rrect {} {} {} {} 1 2 3 1 0 0 2 4", ox, oy, w, h));
            v.push(format!("rrect {} {} {} {} 9 1 0 3 4 4 1 0", ox, oy, w, h));
        }
    }
    // lines, triangles, polylines on a grid x grid lattice with spacing 3 (crossing the axes)
    let coords: Vec<i32> = (0..grid).map(|i| (i - grid / 2) * 3 + (i % 2)).collect();
    let pts: Vec<(i32, i32)> = coords.iter().flat_map(|x| coords.iter().map(move |y| (*x, *y))).collect();
    for a in &pts {
        for b in &pts {
            v.push(format!("line {} {} {} {}", a.0, a.1, b.0, b.1));
        }
    }
    for (i, a) in pts.iter().enumerate() {
        for (j, b) in pts.iter().enumerate() {
            for (k, c) in pts.iter().enumerate() {
                // every unordered triple once plus one permutation, to keep the count manageable
                if i <= j && j <= k || (i > j && j > k && (i + j + k) % 3 == 0) {
                    v.push(format!("tri {} {} {} {} {} {}", a.0, a.1, b.0, b.1, c.0, c.1));
                }
            }
        }
    }
    for n in 0..=4usize {
        let total = pts.len().pow(n as u32).min(400);
        for idx in 0..total {
            let mut s = format!("poly {} {} {}", if idx % 3 == 0 { 0 } else { -3 }, if idx % 5 == 0 { 0 } else { 2 }, n);
            let mut r = idx * 7919 + n;
            for _ in 0..n {
                let p = pts[r % pts.len()];
                r /= pts.len();
                r = r * 31 + 17;
                s.push_str(&format!(" {} {}", p.0, p.1));
            }
            v.push(s);
        }
    }
    for d in [0u32, 1, 2, 5, 8, 2 * max_size + 1] {
        for (s, w) in angles {
            v.push(format!("arc {} {} {} {} {}", ox, oy, d, s, w));
            v.push(format!("sector {} {} {} {} {}", ox, oy, d, s, w));
        }
    }
    v
}

pub fn random_shape(rng: &mut Rng, scale: i64, max_size: i64) -> String {
    let x = rng.range(-scale, scale);
    let y = rng.range(-scale, scale);
    let sz = |rng: &mut Rng| -> i64 {
        match rng.below(6) {
            0 => rng.range(0, 2),
            1 => max_size,
            _ => rng.range(0, max_size),
        }
    };
    match rng.below(9) {
        0 => format!("rect {} {} {} {}", x, y, sz(rng), sz(rng)),
        1 => format!("circle {} {} {}", x, y, sz(rng)),
        2 => format!("ellipse {} {} {} {}", x, y, sz(rng), sz(rng)),
        3 => {
            let mut s = format!("rrect {} {} {} {}", x, y, sz(rng), sz(rng));
            let equal = rng.chance(1, 2);
            let (a, b) = (sz(rng) / 2, sz(rng) / 2);
            for _ in 0..4 {
                if equal {
                    s.push_str(&format!(" {} {}", a, b));
                } else {
                    s.push_str(&format!(" {} {}", sz(rng) / 2, sz(rng) / 2));
                }
            }
            s
        }
        4 => format!("tri {} {} {} {} {} {}", x, y, x + rng.range(-max_size, max_size), y + rng.range(-max_size, max_size), x + rng.range(-max_size, max_size), y + rng.range(-max_size, max_size)),
        5 => format!("line {} {} {} {}", x, y, x + rng.range(-max_size, max_size), y + rng.range(-max_size, max_size)),
        6 => {
            let n = rng.range(0, 6);
            let mut s = format!("poly {} {} {}", rng.range(-5, 5), rng.range(-5, 5), n);
            let (mut px, mut py) = (x, y);
            for _ in 0..n {
                s.push_str(&format!(" {} {}", px, py));
                if !rng.chance(1, 8) {
                    px += rng.range(-max_size / 2, max_size / 2);
                    py += rng.range(-max_size / 2, max_size / 2);
                }
            }
            s
        }
        7 => format!("arc {} {} {} {} {}", x, y, sz(rng), rng.range(-720_000, 720_000), rng.range(-720_000, 720_000)),
        _ => format!("sector {} {} {} {} {}", x, y, sz(rng), rng.range(-720_000, 720_000), rng.range(-720_000, 720_000)),
    }
}

/// Marker token that starts the hook tokens of an op line.
pub const HOOK_MARK: &str = "hk";

/// `op` = `<stream> <shape> <style> ...`: if the shape (second token) is an arc or a sector and the line has no hook tokens yet,
/// append them (see the module header); every other op is returned unchanged. The values come from the real code of THIS build.
pub fn with_hooks(op: String) -> String {
    use embedded_graphics::primitives::Styled;
    let kind = op.split(' ').nth(1).unwrap_or("");
    if (kind != "arc" && kind != "sector") || op.split(' ').any(|x| x == HOOK_MARK) {
        return op;
    }
    // The hook values come from the real trigonometric code: if that code panics for these angles (round-5 seed C08-r5-1:
    // the fixed-point sine table indexed out of range below -360 degrees) the GENERATOR must survive - the op is emitted
    // without hook tokens (the model skips it) and executing it reports the panic as an oracle failure with this op.
    let tail = std::panic::catch_unwind(|| {
        let mut t = Toks::new(&op);
        let _stream = t.str();
        let shape = Shape::parse(&mut t);
        let style = parse_style(&mut t);
        match shape {
            Shape::Arc(a) => {
                let (tag, l, r) = embedded_graphics::verif_hooks::plane_sector(a.angle_start, a.angle_sweep);
                format!(" {} {} {} {} {} {}", HOOK_MARK, tag, l[0], l[1], r[0], r[1])
            }
            Shape::Sector(s) => {
                let (tag, l, r) = embedded_graphics::verif_hooks::plane_sector(s.angle_start, s.angle_sweep);
                let (bk, bn, _) = Styled::new(s, style).pixels().verif_bevel();
                format!(" {} {} {} {} {} {} {} {} {}", HOOK_MARK, tag, l[0], l[1], r[0], r[1], bk, bn[0], bn[1])
            }
            _ => String::new(),
        }
    })
    .unwrap_or_default();
    op + &tail
}

pub fn random_style(rng: &mut Rng, max_width: i64) -> String {
    let f = if rng.chance(1, 2) { "7".to_string() } else { "-".to_string() };
    let s = if rng.chance(2, 3) { "9".to_string() } else { "-".to_string() };
    let w = match rng.below(4) {
        0 => 0,
        1 => 1,
        _ => rng.range(0, max_width),
    };
    format!("{} {} {} {}", f, s, w, rng.below(3))
}
