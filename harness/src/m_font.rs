//! module `font` (serves C14) — text drawn with a `MonoTextStyle` places, for the i-th character, the
//! glyph the font's mapping designates in the cell at x offset i * (character width + spacing).
//!
//! Streams (op lines; every result line is compared with the Lean model `EG.Model.Font`):
//!   font.index  <mid> <cp>                 -> `Mapping::iter().nth(mid).glyph_mapping().index(cp)`
//!   font.indexs <repl> <data cps> <cps>    -> n=<chars().count()> idx=<index(cp) per cp> of
//!                                             `StrGlyphMapping::new(data, repl)` (any mapping string)
//!   font.info   <fid>                      -> imgW imgH cw ch spacing baseline ulOff ulH stOff stH of the
//!                                             real constant `FONTS[fid]` (ties the translated table)
//!   font.glyph  <fontspec> <cps> <atlas>   -> per cp `idx:ax,ay,aw,ah:bits`
//!        idx  = `font.glyph_mapping.index(cp)` (real)
//!        area = NOT a value of the real code: `MonoFont::glyph` is `pub(crate)` and the sub-image it
//!               returns is never handed to the target, so the atlas position of the glyph cannot be
//!               observed through any public path. The token is the harness's own `cell_of`:
//!               `(idx % gpr * cw, idx / gpr * ch, cw, ch)`, `gpr = imgW / cw`; comparing it with the model's
//!               `glyphArea` ties the model to the ORACLE's reading of the property, not to the code.
//!               The real code is tied through `bits` (below) and through `font.draw`: what it draws must
//!               be exactly `font.image.pixel()` over that area (custom atlases are random bits, so a wrong
//!               cell shows), and the part of the area that IS observable, its size, is taken from the real
//!               `fill_contiguous` call whenever the glyph is drawn (the printed `aw,ah`; the oracle demands
//!               area = `(0,0) cw x ch` with exactly `cw*ch` colours); only `ax,ay` are the harness's.
//!        bits = what drawing the single character with text+background colour hands to the target's
//!               `fill_contiguous` (real; all colours of the call, which must be exactly w*h), `-` if
//!               nothing is drawn
//!   font.draw   <fontspec> <via> <bl> <tc> <bg> <ul> <st> <x> <y> <cps> <atlas>
//!                                          -> next=<x,y> r1=<pixel map> r2=same|<pixel map>
//!        via: `s` = `TextRenderer::draw_string`, `t` = `Text::with_baseline(..).draw()`,
//!             `w<width>` = `TextRenderer::draw_whitespace`
//!        bl: 0 Top, 1 Bottom, 2 Middle, 3 Alphabetic; tc/bg: `-` or raw Rgb565 value;
//!        ul/st: `n` None, `t` TextColor, else custom raw colour; r1/r2: maps on the draw_iter-only / native target
//!   fontspec: `b:<fid>` (built-in, index into the generated `FONTS` table = Lean `fontTable`) or
//!             `c:<imgW>:<imgH>:<cw>:<ch>:<sp>:<bl>:<ulOff>:<ulH>:<stOff>:<stH>:<repl>:<mapping data cps>`
//!   atlas: all `imgW*imgH` pixels of `font.image`, row-major, 4 per hex digit (msb first, zero padded).
//!          For built-in fonts the harness reads them with `font.image.pixel()`; for custom fonts the op
//!          line is the source and the harness builds the `ImageRaw` from it. The model receives the atlas
//!          content this way (its theorems take the atlas as a parameter) and selects the cell itself.
//!
//! Oracle (the property text as predicates on the real results; Lean statements mirrored:
//!   `index_spec`, `builtin_mappings_nodup`, `builtin_cells_inside`, `glyph_cell_pixels`,
//!   `line_elements_pos`, `decorations_cover`):
//!   * index(c) = position of c in `chars()` if mapped, else the replacement index; mapped characters of a
//!     built-in mapping have pairwise different indices; every cell of a built-in font (all mapped indices
//!     and the replacement) lies inside the font image, glyph count <= glyphs_per_row * rows (the text asks
//!     for no more; that the counts are EQUAL today is the Lean table fact `FontOK`);
//!   * the pixel map of a drawn string is exactly: for the i-th character the designated cell (read with
//!     `font.image.pixel()`) at x + i*(cw+sp): on -> text colour, off -> background colour, spacing columns ->
//!     background colour, absent colours leave pixels untouched; then strikethrough and underline
//!     rectangles over the full text width at the font's offsets; nothing else is touched. Where a drawn
//!     underline and a drawn strikethrough of different colours overlap (custom fonts only) the property
//!     text does not say which one shows: the oracle accepts either colour there; that the code paints the
//!     underline over the strikethrough is the model's statement (`drawDecorations`, `strikethrough_covers`
//!     has the "not under the underline" hypothesis) and is held by the correspondence.
use crate::common::*;
use embedded_graphics::{
    image::{GetPixel, ImageRaw},
    mono_font::{
        mapping::{GlyphMapping, Mapping, StrGlyphMapping},
        DecorationDimensions, MonoFont, MonoTextStyle, MonoTextStyleBuilder,
    },
    pixelcolor::{BinaryColor, Rgb565},
    prelude::*,
    text::{renderer::TextRenderer, Baseline, DecorationColor, Text},
};
use std::cell::RefCell;
use std::collections::HashMap;
use std::rc::Rc;

#[path = "font_table.rs"]
mod font_table;
use font_table::FONTS;

pub struct M;

const UNMAPPED: [u32; 12] = [0, 1, 0x0a, 0x0d, 0x1f, 0x80, 0x9f, 0xd7ff, 0xe000, 0xfffd, 0x1f600, 0x10ffff];

thread_local! {
    static ATLAS: RefCell<HashMap<usize, Rc<(Vec<bool>, String)>>> = RefCell::new(HashMap::new());
    static MAPCHARS: RefCell<HashMap<usize, Rc<Vec<char>>>> = RefCell::new(HashMap::new());
}

fn hex_of(bits: &[bool]) -> String {
    let mut s = String::with_capacity(bits.len() / 4 + 1);
    for ch in bits.chunks(4) {
        let mut v = 0u32;
        for k in 0..4 {
            v = v * 2 + if k < ch.len() && ch[k] { 1 } else { 0 };
        }
        s.push(char::from_digit(v, 16).unwrap());
    }
    if s.is_empty() {
        s.push('-');
    }
    s
}
fn bits_of_hex(s: &str, n: usize) -> Vec<bool> {
    let mut v = Vec::with_capacity(n + 4);
    if s != "-" {
        for c in s.chars() {
            let d = c.to_digit(16).expect("bad hex");
            for k in (0..4).rev() {
                v.push((d >> k) & 1 == 1);
            }
        }
    }
    v.resize(n, false);
    v
}

/// all pixels of the font image, read through the public `GetPixel` accessor
fn read_atlas(font: &MonoFont) -> Vec<bool> {
    let sz = font.image.size();
    let mut v = Vec::with_capacity((sz.width * sz.height) as usize);
    for y in 0..sz.height as i32 {
        for x in 0..sz.width as i32 {
            v.push(font.image.pixel(Point::new(x, y)) == Some(BinaryColor::On));
        }
    }
    v
}
fn builtin_atlas(fid: usize) -> Rc<(Vec<bool>, String)> {
    ATLAS.with(|a| {
        a.borrow_mut()
            .entry(fid)
            .or_insert_with(|| {
                let bits = read_atlas(FONTS[fid].3);
                let hex = hex_of(&bits);
                Rc::new((bits, hex))
            })
            .clone()
    })
}
fn mapping_of(mid: usize) -> &'static StrGlyphMapping<'static> {
    Mapping::iter().nth(mid).expect("mapping id").glyph_mapping()
}
fn mapping_chars(mid: usize) -> Rc<Vec<char>> {
    MAPCHARS.with(|m| m.borrow_mut().entry(mid).or_insert_with(|| Rc::new(mapping_of(mid).chars().collect())).clone())
}

fn char_of(cp: u32) -> char {
    char::from_u32(cp).expect("op carries a non-scalar code point")
}

/// A font the ops can name: the real `MonoFont`, the characters its mapping lists (in index order) and the
/// index the property's "replacement glyph" has.
struct FontCase<'a> {
    font: &'a MonoFont<'a>,
    chars: Rc<Vec<char>>,
    replacement: usize,
    builtin: bool,
}

/// Runs `f` with the font a fontspec token describes.
fn with_font<R>(spec: &str, atlas_tok: &str, f: impl FnOnce(&FontCase, &[bool]) -> R) -> Result<R, String> {
    let fs: Vec<&str> = spec.split(':').collect();
    match fs[0] {
        "b" => {
            let fid: usize = fs[1].parse().expect("fid");
            if fid >= FONTS.len() {
                return Err("nofont".into());
            }
            let at = builtin_atlas(fid);
            if at.1 != atlas_tok {
                return Err("stale-atlas".into());
            }
            let mid = FONTS[fid].2;
            let chars = mapping_chars(mid);
            // the replacement glyph of the built-in mappings is the question mark
            let replacement = chars.iter().position(|c| *c == '?').expect("built-in mapping without '?'");
            Ok(f(&FontCase { font: FONTS[fid].3, chars, replacement, builtin: true }, &at.0))
        }
        "c" => {
            let n = |i: usize| -> u32 { fs[i].parse().expect("custom font field") };
            let (iw, ih, cw, ch, sp, bl, uo, uh, so, sh, repl) = (n(1), n(2), n(3), n(4), n(5), n(6), n(7), n(8), n(9), n(10), n(11));
            let data_s: String = if fs[12] == "-" { String::new() } else { fs[12].split(',').map(|t| char_of(t.parse().expect("cp"))).collect() };
            let bits = bits_of_hex(atlas_tok, (iw * ih) as usize);
            let bpr = ((iw + 7) / 8) as usize;
            let mut bytes = vec![0u8; bpr * ih as usize];
            for y in 0..ih as usize {
                for x in 0..iw as usize {
                    if bits[y * iw as usize + x] {
                        bytes[y * bpr + x / 8] |= 0x80 >> (x % 8);
                    }
                }
            }
            let image = ImageRaw::<BinaryColor>::new(&bytes, Size::new(iw, ih)).map_err(|_| "badimage".to_string())?;
            let mapping = StrGlyphMapping::new(&data_s, repl as usize);
            let font = MonoFont {
                image,
                character_size: Size::new(cw, ch),
                character_spacing: sp,
                baseline: bl,
                strikethrough: DecorationDimensions::new(so, sh),
                underline: DecorationDimensions::new(uo, uh),
                glyph_mapping: &mapping,
            };
            let chars: Vec<char> = mapping.chars().collect();
            Ok(f(&FontCase { font: &font, chars: Rc::new(chars), replacement: repl as usize, builtin: false }, &bits))
        }
        _ => Err("nofont".into()),
    }
}

/// the glyph index the property designates for `c`: its position among the mapped characters, else the replacement
fn designated(fc: &FontCase, c: char) -> usize {
    fc.chars.iter().position(|v| *v == c).unwrap_or(fc.replacement)
}
/// cell of glyph `idx` in the atlas: (x, y, w, h) — the oracle's own computation
fn cell_of(font: &MonoFont, idx: usize) -> (i64, i64, u32, u32) {
    let cw = font.character_size.width;
    let ch = font.character_size.height;
    let iw = font.image.size().width;
    if cw == 0 || iw < cw {
        return (0, 0, 0, 0);
    }
    let gpr = (iw / cw) as i64;
    let i = idx as i64;
    ((i % gpr) * cw as i64, (i / gpr) * ch as i64, cw, ch)
}
fn cell_inside(font: &MonoFont, cell: (i64, i64, u32, u32)) -> bool {
    let sz = font.image.size();
    cell.2 > 0 && cell.3 > 0 && cell.0 + cell.2 as i64 <= sz.width as i64 && cell.1 + cell.3 as i64 <= sz.height as i64
}

fn opt_col(s: &str) -> Option<Rgb565> {
    if s == "-" {
        None
    } else {
        Some(Rgb565::from_num(s.parse().expect("colour")))
    }
}
fn deco(s: &str) -> DecorationColor<Rgb565> {
    match s {
        "n" => DecorationColor::None,
        "t" => DecorationColor::TextColor,
        v => DecorationColor::Custom(Rgb565::from_num(v.parse().expect("colour"))),
    }
}
fn baseline_of(i: u32) -> Baseline {
    match i {
        0 => Baseline::Top,
        1 => Baseline::Bottom,
        2 => Baseline::Middle,
        _ => Baseline::Alphabetic,
    }
}
fn baseline_offset(font: &MonoFont, i: u32) -> i32 {
    let h = font.character_size.height;
    match i {
        0 => 0,
        1 => h.saturating_sub(1) as i32,
        2 => (h.saturating_sub(1) / 2) as i32,
        _ => font.baseline as i32,
    }
}

fn style_of<'a>(font: &'a MonoFont<'a>, tc: &str, bg: &str, ul: &str, st: &str) -> MonoTextStyle<'a, Rgb565> {
    let mut s: MonoTextStyle<'a, Rgb565> = MonoTextStyleBuilder::new().font(font).build();
    s.text_color = opt_col(tc);
    s.background_color = opt_col(bg);
    s.underline_color = deco(ul);
    s.strikethrough_color = deco(st);
    s
}

/// The same style configured through the public builder, colours and decorations FIRST and the font LAST
/// (`MonoTextStyleBuilder::font` rebuilds the style: it must keep every other setting; seeded change C14-r3-2
/// copied the underline setting into the strikethrough there).
fn style_via_builder<'a>(font: &'a MonoFont<'a>, tc: &str, bg: &str, ul: &str, st: &str) -> MonoTextStyle<'a, Rgb565> {
    let mut b = MonoTextStyleBuilder::<Rgb565>::new();
    if let Some(c) = opt_col(tc) {
        b = b.text_color(c);
    }
    if let Some(c) = opt_col(bg) {
        b = b.background_color(c);
    }
    b = match deco(ul) {
        DecorationColor::None => b,
        DecorationColor::TextColor => b.underline(),
        DecorationColor::Custom(c) => b.underline_with_color(c),
    };
    b = match deco(st) {
        DecorationColor::None => b,
        DecorationColor::TextColor => b.strikethrough(),
        DecorationColor::Custom(c) => b.strikethrough_with_color(c),
    };
    b.font(font).build()
}

fn draw_via<D: DrawTarget<Color = Rgb565, Error = TErr>>(
    style: &MonoTextStyle<Rgb565>, via: &str, bl: u32, pos: Point, text: &str, target: &mut D,
) -> Point {
    let r = if via == "s" {
        style.draw_string(text, pos, baseline_of(bl), target)
    } else if via == "t" {
        Text::with_baseline(text, pos, *style, baseline_of(bl)).draw(target)
    } else {
        let w: u32 = via[1..].parse().expect("whitespace width");
        style.draw_whitespace(w, pos, baseline_of(bl), target)
    };
    r.expect("recording target does not fail")
}

fn fill_rect(m: &mut PMap, x: i64, y: i64, w: i64, h: i64, c: u32) {
    for yy in y..y + h {
        for xx in x..x + w {
            m.insert((yy as i32, xx as i32), c);
        }
    }
}

/// Fonts whose glyphs and strings are drawn. Thorough: all. Quick: a selection that depends on the seed and
/// contains every size/weight constant name (`FONT_4X6` .. `FONT_10X20`, 22 of them) and every character set
/// module (14) at least once: the i-th name is taken from the character set number `(i + rot) mod 14`, `rot`
/// drawn from the seed (the next character set that has the name when that one lacks it: `jis_x0201` has only
/// 6 sizes), then one font of every character set still missing, then seeded random fonts up to 24.
fn quick_fonts(tier: Tier, rng: &mut Rng) -> Vec<usize> {
    if tier == Tier::Thorough {
        return (0..FONTS.len()).collect();
    }
    let mut mods: Vec<&str> = Vec::new();
    let mut names: Vec<&str> = Vec::new();
    for f in FONTS.iter() {
        if !mods.contains(&f.0) {
            mods.push(f.0);
        }
        if !names.contains(&f.1) {
            names.push(f.1);
        }
    }
    let find = |m: &str, n: &str| (0..FONTS.len()).find(|i| FONTS[*i].0 == m && FONTS[*i].1 == n);
    let rot = rng.below((mods.len() * names.len()) as u64) as usize;
    let mut v: Vec<usize> = Vec::new();
    for (i, n) in names.iter().enumerate() {
        let hit = (0..mods.len()).find_map(|d| find(mods[(i + rot + d) % mods.len()], n));
        v.push(hit.expect("every font name occurs in some module"));
    }
    for (j, m) in mods.iter().enumerate() {
        if !v.iter().any(|i| FONTS[*i].0 == *m) {
            let own: Vec<usize> = (0..FONTS.len()).filter(|i| FONTS[*i].0 == *m).collect();
            v.push(own[(rot + j) % own.len()]);
        }
    }
    while v.len() < 24 {
        let i = rng.below(FONTS.len() as u64) as usize;
        if !v.contains(&i) {
            v.push(i);
        }
    }
    v.sort();
    v.dedup();
    v
}

/// Custom fonts whose underline and strikethrough rectangles share rows (no built-in font has that, and the
/// fonts of `custom_fonts` put the underline below the cell): (ulOff, ulH, stOff, stH) = partial overlap with
/// rows of either decoration alone / strikethrough inside the underline / underline inside a strikethrough
/// that is higher than the cell / identical rectangles (spacing 0). Drawn with DIFFERENT decoration colours
/// these are the only ops on which the order of the two `if let` blocks of `draw_decorations` shows.
fn overlap_fonts(rng: &mut Rng) -> Vec<(String, String, Vec<u32>)> {
    let mut out = Vec::new();
    let data = vec![0u32, 0x61, 0x6e];
    for (cw, ch, sp, gpr, uo, uh, so, sh) in
        [(5u32, 7u32, 1u32, 7u32, 2u32, 3u32, 3u32, 3u32), (4, 6, 2, 16, 1, 4, 2, 1), (3, 7, 3, 1, 6, 3, 0, 8), (6, 8, 0, 5, 3, 2, 3, 2)]
    {
        let iw = gpr * cw + 1;
        let ih = ((14 + gpr - 1) / gpr) * ch;
        let bits: Vec<bool> = (0..iw * ih).map(|_| rng.chance(1, 2)).collect();
        let spec = format!("c:{}:{}:{}:{}:{}:{}:{}:{}:{}:{}:{}:{}", iw, ih, cw, ch, sp, ch - 2, uo, uh, so, sh, 3, fmt_list(data.iter()));
        out.push((spec, hex_of(&bits), vec![0x61, 0x62, 0x6e, 0x7a, 0x63]));
    }
    out
}
/// (underline, strikethrough) pairs that differ in colour when both are drawn
const OVERLAP_DECOS: [(&str, &str); 4] = [("1365", "t"), ("t", "1365"), ("1365", "2047"), ("2047", "1365")];

/// custom fonts: (fontspec, atlas hex, characters worth drawing)
fn custom_fonts(rng: &mut Rng) -> Vec<(String, String, Vec<u32>)> {
    let mut out = Vec::new();
    // mapping strings: (data, replacement)
    let maps: Vec<(Vec<u32>, u32)> = vec![
        (vec![0, 0x61, 0x7a, 0, 0x41, 0x43, 0x30, 0x31, 0x39], 2),
        (vec![0x78, 0x79, 0x7a, 0x20, 0, 0x30, 0x39], 3),
        (vec![0, 0x20, 0x7f], 31),
        (vec![0, 0xe9, 0xf2, 0x1f600, 0x3b1], 0),
    ];
    for (mi, (data, repl)) in maps.iter().enumerate() {
        let s: String = data.iter().map(|c| char_of(*c)).collect();
        let count = StrGlyphMapping::new(&s, 0).chars().count() as u32;
        for (gi, gpr) in [1u32, 7, 16].iter().enumerate() {
            for sp in 1..=3u32 {
                let (cw, ch) = [(5u32, 7u32), (3, 4), (8, 8), (1, 1), (6, 3)][(mi + gi + sp as usize) % 5];
                // image width: not necessarily a multiple of the character width or of 8
                let slack = [0u32, 1, cw.saturating_sub(1)][(mi + sp as usize) % 3];
                let iw = gpr * cw + slack;
                let rows = (count.max(*repl + 1) + gpr - 1) / gpr;
                let ih = rows * ch + (sp % 2);
                let bits: Vec<bool> = (0..iw * ih).map(|_| rng.chance(1, 2)).collect();
                let spec = format!(
                    "c:{}:{}:{}:{}:{}:{}:{}:{}:{}:{}:{}:{}",
                    iw, ih, cw, ch, sp, ch.saturating_sub(2), ch + 1, 1 + sp % 2, ch / 2, 1, repl, fmt_list(data.iter())
                );
                let mut chars: Vec<u32> = StrGlyphMapping::new(&s, 0).chars().map(|c| c as u32).collect();
                chars.extend_from_slice(&[0x0a, 0x7e, 0x1f601]);
                out.push((spec, hex_of(&bits), chars));
            }
        }
    }
    // degenerate fonts: zero character width, image narrower than a character, glyph rows missing
    // (replacement index and late glyphs outside the atlas), zero character height, spacing 0
    let data = vec![0u32, 0x61, 0x6a];
    for (iw, ih, cw, ch, sp, repl) in [(8u32, 8u32, 0u32, 4u32, 1u32, 0u32), (3, 8, 4, 4, 1, 0), (8, 4, 4, 4, 2, 9), (8, 8, 4, 0, 1, 0), (12, 12, 4, 4, 0, 1)] {
        let bits: Vec<bool> = (0..iw * ih).map(|_| rng.chance(1, 2)).collect();
        let spec = format!("c:{}:{}:{}:{}:{}:{}:{}:{}:{}:{}:{}:{}", iw, ih, cw, ch, sp, 2, ch + 1, 1, ch / 2, 1, repl, fmt_list(data.iter()));
        out.push((spec, hex_of(&bits), vec![0x61, 0x62, 0x63, 0x64, 0x6a, 0x7a]));
    }
    out
}

const COLOUR_OPTS: [(&str, &str); 4] = [("65535", "-"), ("-", "31"), ("2016", "63488"), ("-", "-")];
const DECOS: [&str; 3] = ["n", "t", "1365"];

impl Module for M {
    fn name(&self) -> &'static str {
        "font"
    }
    fn rule(&self) -> &'static str {
        "ops: every mapped character of all 14 built-in mappings + 12 unmapped probes (NUL, control, C1, surrogate \
         neighbours, U+FFFD, non-BMP) through `index`; hand-written and seeded random mapping strings (ranges, \
         incomplete/reversed ranges, duplicates, surrogate gap); constants, own-index and cell-inside facts of all 292 fonts \
         (`font.info`, every tier). DRAWN (`font.glyph`, `font.draw`) are the selected fonts only: thorough = all \
         292; quick = 24 of the 292, chosen from the seed so that each of the 22 size/weight names (FONT_4X6 .. \
         FONT_10X20, incl. bold / italic) and each of the 14 character sets occurs at least once (name i from \
         character set (i + rot) mod 14, rot from the seed), the rest seeded random; 268 fonts are NOT drawn in a \
         quick run. Per selected font: every mapped character + the unmapped probes as single glyphs and as \
         drawn strings of 16 characters x 4 colour options (text / background / both / none) x underline, \
         strikethrough in {None, TextColor, Custom} x 4 baselines x draw_string / Text::draw, positions in +-40; \
         custom fonts with spacing 1..=3 over synthetic atlases of 1, 7 and 16 glyphs per row (image width not a \
         multiple of the character width), degenerate fonts, and 4 custom fonts whose underline and \
         strikethrough rows overlap, drawn with decorations of two different colours (the only ops that show \
         the order of the two decorations). A draw/glyph op is non-trivial when at least one pixel is written; \
         distinct = distinct op text."
    }

    fn generate(&self, pid: &str, tier: Tier, rng: &mut Rng, emit: &mut dyn FnMut(String)) {
        if pid == "C15" {
            // `TextRenderer::draw_whitespace` (what external layout code calls between words): the baseline shift
            // applies to the background box AND to the decorations (seeded change C15-r3-3 left the decorations
            // unshifted). Compared with the model `MonoFont.drawWhitespace`; the `C14:` oracle classes do not count
            // in the C15 check, the correspondence does.
            for (spec, hex, _) in custom_fonts(rng) {
                for bl in 0..4 {
                    emit(format!("font.draw {} w{} {} 9 31 1365 2047 {} 4 - {}", spec, 1 + rng.below(20), bl, rng.range(-9, 9), hex));
                    emit(format!("font.draw {} w{} {} - - 2047 n {} 4 - {}", spec, 1 + rng.below(20), bl, rng.range(-9, 9), hex));
                    emit(format!("font.draw {} w{} {} 7 - t 1365 {} 4 - {}", spec, 1 + rng.below(20), bl, rng.range(-9, 9), hex));
                }
            }
            return;
        }
        if pid != "C14" {
            return;
        }
        // ---- index: all mapped characters of all mappings + unmapped probes ---------------------------
        let nmap = Mapping::iter().count();
        for mid in 0..nmap {
            for c in mapping_chars(mid).iter() {
                emit(format!("font.index {} {}", mid, *c as u32));
            }
            for cp in UNMAPPED {
                emit(format!("font.index {} {}", mid, cp));
            }
        }
        // ---- arbitrary mapping strings ------------------------------------------------------------------
        let probes: Vec<u32> = vec![0, 0x20, 0x30, 0x39, 0x41, 0x61, 0x62, 0x63, 0x64, 0x65, 0x7a, 0xd7ff, 0xe000, 0xe001, 0x1f600];
        let hand: Vec<(Vec<u32>, u32)> = vec![
            (vec![], 0),
            (vec![0x61], 0),
            (vec![0x61, 0x62, 0x63], 1),
            (vec![0, 0x61, 0x63], 2),
            (vec![0, 0x61], 0),
            (vec![0], 5),
            (vec![0x61, 0, 0x62], 4),
            (vec![0x61, 0, 0x62, 0x64, 0x65], 3),
            (vec![0, 0x63, 0x61, 0x64], 7),          // reversed range: empty
            (vec![0, 0x61, 0x61], 7),                // one-character range
            (vec![0x61, 0x61, 0x62], 9),             // duplicate: first position wins
            (vec![0, 0x61, 0x63, 0, 0x62, 0x65], 9), // overlapping ranges
            (vec![0, 0, 0x20], 1),                   // range starting at NUL
            (vec![0, 0x41, 0],  1),                  // range ending at NUL (reversed)
            (vec![0, 0xd7fe, 0xe001], 1),            // range across the surrogate gap
            (vec![0, 0x1f600, 0x1f603, 0x7a], 0),
            (vec![0x7a, 0, 0x30, 0x39, 0, 0x41], 2), // incomplete range at the end
        ];
        for (data, repl) in &hand {
            emit(format!("font.indexs {} {} {}", repl, fmt_list(data.iter()), fmt_list(probes.iter())));
        }
        let nrand = if tier == Tier::Quick { 300 } else { 5000 };
        for _ in 0..nrand {
            let len = rng.below(9) as usize;
            let alphabet = [0u32, 0, 0x30, 0x31, 0x39, 0x41, 0x61, 0x62, 0x63, 0x64, 0x65, 0x7a, 0xd7ff, 0xe000, 0xe001, 0x1f600];
            let data: Vec<u32> = (0..len).map(|_| *rng.pick(&alphabet)).collect();
            emit(format!("font.indexs {} {} {}", rng.below(12), fmt_list(data.iter()), fmt_list(probes.iter())));
        }
        // ---- constants of every built-in font -----------------------------------------------------------
        for fid in 0..FONTS.len() {
            emit(format!("font.info {}", fid));
        }
        // ---- glyphs and drawn strings of the selected built-in fonts --------------------------------------
        let fonts = quick_fonts(tier, rng);
        let mut combo = 0usize;
        for fid in fonts {
            let at = builtin_atlas(fid);
            let mut cps: Vec<u32> = mapping_chars(FONTS[fid].2).iter().map(|c| *c as u32).collect();
            cps.extend_from_slice(&UNMAPPED);
            for chunk in cps.chunks(32) {
                emit(format!("font.glyph b:{} {} {}", fid, fmt_list(chunk.iter()), at.1));
            }
            for chunk in cps.chunks(16) {
                for (tc, bg) in COLOUR_OPTS {
                    combo += 1;
                    let ul = DECOS[combo % 3];
                    let st = DECOS[(combo / 3) % 3];
                    // `Text` splits at '\n' and strips '\r': those strings go through draw_string only
                    let plain = !chunk.iter().any(|c| *c == 0x0a || *c == 0x0d);
                    let via = if plain && combo % 4 == 1 { "t" } else { "s" };
                    emit(format!(
                        "font.draw b:{} {} {} {} {} {} {} {} {} {} {}",
                        fid, via, rng.below(4), tc, bg, ul, st, rng.range(-40, 40), rng.range(-40, 40), fmt_list(chunk.iter()), at.1
                    ));
                }
            }
            // empty string, single characters, whitespace
            emit(format!("font.draw b:{} s 0 65535 31 t t 3 4 - {}", fid, at.1));
            emit(format!("font.draw b:{} t 3 65535 31 t 7 -3 4 65 {}", fid, at.1));
            emit(format!("font.draw b:{} w0 1 65535 31 t t 3 4 - {}", fid, at.1));
            emit(format!("font.draw b:{} w{} {} - 31 2 t {} 4 - {}", fid, 1 + rng.below(30), rng.below(4), rng.range(-9, 9), at.1));
            emit(format!("font.draw b:{} w{} {} 7 - t n {} 4 - {}", fid, 1 + rng.below(30), rng.below(4), rng.range(-9, 9), at.1));
        }
        // ---- custom fonts ---------------------------------------------------------------------------------
        for (spec, hex, chars) in custom_fonts(rng) {
            for chunk in chars.chunks(32) {
                emit(format!("font.glyph {} {} {}", spec, fmt_list(chunk.iter()), hex));
            }
            for chunk in chars.chunks(12) {
                for (tc, bg) in COLOUR_OPTS {
                    combo += 1;
                    let ul = DECOS[combo % 3];
                    let st = DECOS[(combo / 3) % 3];
                    let plain = !chunk.iter().any(|c| *c == 0x0a || *c == 0x0d);
                    let via = if plain && combo % 4 == 1 { "t" } else { "s" };
                    emit(format!(
                        "font.draw {} {} {} {} {} {} {} {} {} {} {}",
                        spec, via, rng.below(4), tc, bg, ul, st, rng.range(-40, 40), rng.range(-40, 40), fmt_list(chunk.iter()), hex
                    ));
                }
            }
            emit(format!("font.draw {} w{} {} 9 31 t 5 {} 4 - {}", spec, rng.below(20), rng.below(4), rng.range(-9, 9), hex));
        }
        // ---- custom fonts with overlapping underline / strikethrough rows, decorations of different colours ---
        for (spec, hex, chars) in overlap_fonts(rng) {
            emit(format!("font.glyph {} {} {}", spec, fmt_list(chars.iter()), hex));
            for (tc, bg) in COLOUR_OPTS {
                for (ul, st) in OVERLAP_DECOS {
                    combo += 1;
                    let via = if combo % 3 == 1 { "t" } else { "s" };
                    let n = 1 + (combo % chars.len());
                    emit(format!(
                        "font.draw {} {} {} {} {} {} {} {} {} {} {}",
                        spec, via, rng.below(4), tc, bg, ul, st, rng.range(-40, 40), rng.range(-40, 40), fmt_list(chars[..n].iter()), hex
                    ));
                }
            }
            emit(format!("font.draw {} w{} {} 9 31 1365 2047 {} 4 - {}", spec, 1 + rng.below(20), rng.below(4), rng.range(-9, 9), hex));
            emit(format!("font.draw {} w{} {} - - 2047 1365 {} 4 - {}", spec, 1 + rng.below(20), rng.below(4), rng.range(-9, 9), hex));
        }
    }

    fn execute(&self, op: &str, ctx: &mut Ctx) -> String {
        let mut t = Toks::new(op);
        match t.str() {
            "font.index" => {
                let mid = t.usize();
                let cp = t.u32();
                let c = char_of(cp);
                let idx = mapping_of(mid).index(c);
                let chars = mapping_chars(mid);
                ctx.count("index");
                match chars.iter().position(|v| *v == c) {
                    Some(p) => {
                        ctx.count("index:mapped");
                        ctx.nontrivial(op);
                        ctx.expect(idx == p, "C14:index-not-position-of-mapped-char", || format!("index {} but position {}", idx, p));
                        ctx.expect(chars.iter().filter(|v| **v == c).count() == 1, "C14:mapped-char-listed-twice", || format!("U+{:04X}", cp));
                        ctx.expect(mapping_of(mid).contains(c), "C14:contains-false-for-mapped-char", || format!("U+{:04X}", cp));
                    }
                    None => {
                        ctx.count("index:unmapped");
                        let q = chars.iter().position(|v| *v == '?');
                        ctx.expect(Some(idx) == q, "C14:unmapped-char-not-replacement-glyph", || format!("index {} but '?' is at {:?}", idx, q));
                    }
                }
                format!("{}", idx)
            }
            "font.indexs" => {
                let repl = t.usize();
                let data: String = t.u32_list().into_iter().map(char_of).collect();
                let cps = t.u32_list();
                let m = StrGlyphMapping::new(&data, repl);
                let chars: Vec<char> = m.chars().collect();
                ctx.count("indexs");
                if !chars.is_empty() {
                    ctx.nontrivial(op);
                }
                let mut idx = Vec::new();
                for cp in cps {
                    let c = char_of(cp);
                    let i = m.index(c);
                    let want = chars.iter().position(|v| *v == c).unwrap_or(repl);
                    ctx.expect(i == want, "C14:index-not-position-of-mapped-char", || format!("U+{:04X}: index {} expected {}", cp, i, want));
                    idx.push(i);
                }
                format!("n={} idx={}", chars.len(), fmt_list(idx.iter()))
            }
            "font.info" => {
                let fid = t.usize();
                if fid >= FONTS.len() {
                    return "nofont".into();
                }
                let f = FONTS[fid].3;
                let chars = mapping_chars(FONTS[fid].2);
                ctx.count("info");
                ctx.nontrivial(op);
                let sz = f.image.size();
                let (cw, ch) = (f.character_size.width, f.character_size.height);
                // every mapped character has its own index, whose cell lies completely inside the font image
                let mut seen = std::collections::HashSet::new();
                let mut own = true;
                let mut inside = true;
                for c in chars.iter() {
                    let i = f.glyph_mapping.index(*c);
                    own &= seen.insert(i);
                    inside &= cell_inside(f, cell_of(f, i));
                }
                ctx.expect(own, "C14:mapped-chars-share-an-index", || format!("{}::{}", FONTS[fid].0, FONTS[fid].1));
                ctx.expect(inside, "C14:glyph-cell-outside-font-image", || format!("{}::{}", FONTS[fid].0, FONTS[fid].1));
                let r = f.glyph_mapping.index('\u{1}');
                ctx.expect(cell_inside(f, cell_of(f, r)), "C14:replacement-cell-outside-font-image", || format!("{}::{} index {}", FONTS[fid].0, FONTS[fid].1, r));
                ctx.expect(
                    cw > 0 && ch > 0 && chars.len() as u32 <= (sz.width / cw) * (sz.height / ch),
                    "C14:atlas-has-fewer-cells-than-glyphs",
                    || format!("{}::{}", FONTS[fid].0, FONTS[fid].1),
                );
                format!(
                    "{} {} {} {} {} {} {} {} {} {}",
                    sz.width, sz.height, cw, ch, f.character_spacing, f.baseline, f.underline.offset, f.underline.height,
                    f.strikethrough.offset, f.strikethrough.height
                )
            }
            "font.glyph" => {
                let spec = t.str();
                let cps = t.u32_list();
                let atlas_tok = t.str();
                let r = with_font(spec, atlas_tok, |fc, _bits| {
                    let font = fc.font;
                    let mut items: Vec<String> = Vec::new();
                    for cp in &cps {
                        let c = char_of(*cp);
                        let idx = font.glyph_mapping.index(c);
                        let want = designated(fc, c);
                        ctx.count(if fc.chars.contains(&c) { "glyph:mapped" } else { "glyph:unmapped" });
                        ctx.expect(idx == want, "C14:wrong-glyph-designated", || format!("U+{:04X}: index {} expected {}", cp, idx, want));
                        let cell = cell_of(font, idx);
                        let inside = cell_inside(font, cell);
                        if fc.builtin {
                            ctx.expect(inside, "C14:glyph-cell-outside-font-image", || format!("U+{:04X} index {}", cp, idx));
                        } else if !inside {
                            ctx.count("glyph:custom-cell-outside");
                        }
                        // what the real code hands to fill_contiguous when the character is drawn with both colours
                        let style = style_of(font, "1", "0", "n", "n");
                        let mut r2 = R2::<Rgb565>::unbounded();
                        let s: String = c.to_string();
                        style.draw_string(&s, Point::zero(), Baseline::Top, &mut r2).expect("no fault");
                        let n = (cell.2 * cell.3) as usize;
                        // HOW the glyph reaches the target is not a clause of C14 (it speaks of pixels and colours): that it is
                        // ONE fill_contiguous call over exactly the cell is what the model's call list transcribes, validated
                        // here as `tie-hypothesis` classes (a failure is a broken tie, not a failing input). The size of the
                        // real call is the observable part of the glyph area in the result line.
                        let mut real_size = (cell.2, cell.3);
                        let log = r2.rec.log.as_slice();
                        ctx.expect(matches!(log, [] | [Call::FillContiguous(..)]), "C14:tie-hypothesis:glyph-drawn-by-one-fill_contiguous", || {
                            format!("U+{:04X}: {} calls", cp, log.len())
                        });
                        match log {
                            [Call::FillContiguous(a, cs)] => {
                                real_size = (a.size.width, a.size.height);
                                ctx.expect(
                                    *a == embedded_graphics::primitives::Rectangle::new(Point::zero(), Size::new(cell.2, cell.3)) && cs.len() == n,
                                    "C14:tie-hypothesis:glyph-fill-area-is-the-cell",
                                    || format!("U+{:04X}: area {} with {} colours", cp, fmt_rect(a), cs.len()),
                                );
                            }
                            _ => {}
                        }
                        // the picture left on the target: the cell at the origin (text colour 1, background 0); `None` = nothing drawn
                        let map = &r2.rec.map;
                        let drawn: Option<Vec<Option<bool>>> = if map.is_empty() {
                            None
                        } else {
                            let mut v = Vec::with_capacity(n);
                            for dy in 0..cell.3 as i32 {
                                for dx in 0..cell.2 as i32 {
                                    v.push(map.get(&(dy, dx)).map(|c| *c == 1));
                                }
                            }
                            Some(v)
                        };
                        // pixels outside the cell: the text allows the spacing strip right of the cell in the background colour
                        let stray = map
                            .iter()
                            .filter(|((y, x), c)| {
                                let in_cell = *x >= 0 && *y >= 0 && (*x as u32) < cell.2 && (*y as u32) < cell.3;
                                let in_spacing = *x >= cell.2 as i32 && (*x as i64) < cell.2 as i64 + font.character_spacing as i64 && *y >= 0 && (*y as u32) < cell.3 && **c == 0;
                                !in_cell && !in_spacing
                            })
                            .count();
                        // oracle: exactly the atlas pixels of the designated cell, or nothing if there is no such cell
                        let expect: Option<Vec<Option<bool>>> = if inside {
                            let mut v = Vec::with_capacity(n);
                            for dy in 0..cell.3 as i64 {
                                for dx in 0..cell.2 as i64 {
                                    v.push(Some(font.image.pixel(Point::new((cell.0 + dx) as i32, (cell.1 + dy) as i32)) == Some(BinaryColor::On)));
                                }
                            }
                            Some(v)
                        } else {
                            None
                        };
                        ctx.expect(drawn == expect && stray == 0, "C14:glyph-bitmap-not-designated-cell", || {
                            format!("U+{:04X} index {} cell {:?}: the picture of the character is not the designated cell ({} pixel(s) outside cell and spacing)", cp, idx, cell, stray)
                        });
                        if drawn.is_some() {
                            ctx.nontrivial(op);
                        }
                        let bits = match &drawn {
                            Some(v) => v
                                .iter()
                                .map(|b| match b {
                                    Some(true) => '1',
                                    Some(false) => '0',
                                    None => 'x',
                                })
                                .collect::<String>(),
                            None => "-".to_string(),
                        };
                        items.push(format!("{}:{},{},{},{}:{}", idx, cell.0, cell.1, real_size.0, real_size.1, bits));
                    }
                    if items.is_empty() {
                        "-".to_string()
                    } else {
                        items.join(" ")
                    }
                });
                match r {
                    Ok(s) => s,
                    Err(e) => e,
                }
            }
            "font.draw" => {
                let spec = t.str();
                let via = t.str();
                let bl = t.u32();
                let (tc, bg, ul, st) = (t.str(), t.str(), t.str(), t.str());
                let pos = t.point();
                let cps = t.u32_list();
                let atlas_tok = t.str();
                let r = with_font(spec, atlas_tok, |fc, _bits| {
                    let font = fc.font;
                    let text: String = cps.iter().map(|c| char_of(*c)).collect();
                    // every other op configures the style through the public builder (font last), the rest through
                    // the public fields: the op line, not the way it is realised, says what the style is
                    let style = if (cps.len() + bl as usize) % 2 == 0 { style_via_builder(font, tc, bg, ul, st) } else { style_of(font, tc, bg, ul, st) };
                    ctx.count(if (cps.len() + bl as usize) % 2 == 0 { "draw:style-via-builder" } else { "draw:style-via-fields" });
                    let mut r1 = R1::<Rgb565>::unbounded();
                    let mut r2 = R2::<Rgb565>::unbounded();
                    let n1 = draw_via(&style, via, bl, pos, &text, &mut r1);
                    let n2 = draw_via(&style, via, bl, pos, &text, &mut r2);
                    // a target whose bounding box does not start at the origin and cuts the text: the picture is the
                    // unbounded picture restricted to the box (seeded change C14-r3-3 skipped glyphs starting at
                    // x >= box width, i.e. assumed the box starts at x = 0)
                    {
                        let tb = embedded_graphics::primitives::Rectangle::new(Point::new(pos.x - 5, pos.y - 7), Size::new(40, 30));
                        let mut r3 = R2::<Rgb565>::new(tb);
                        let n3 = draw_via(&style, via, bl, pos, &text, &mut r3);
                        let want: PMap = r1.rec.map.iter().filter(|((y, x), _)| tb.contains(Point::new(*x, *y))).map(|(k, v)| (*k, *v)).collect();
                        if want.len() != r1.rec.map.len() {
                            ctx.count("draw:cut-by-a-bounded-target");
                        }
                        ctx.expect(r3.rec.map == want && n3 == n1, "C14:bounded-target-picture-ne-cut-of-unbounded", || {
                            format!("box {}: {} px, expected {} px; next {:?} vs {:?}", fmt_rect(&tb), r3.rec.map.len(), want.len(), n3, n1)
                        });
                        // the same box on a draw_iter-only target, and degenerate boxes (empty, flat, disjoint) on both kinds
                        // of target: the picture is the unbounded picture restricted to the box (nothing for those), the
                        // returned position is the one of the unbounded target
                        let mut r4 = R1::<Rgb565>::new(tb);
                        let n4 = draw_via(&style, via, bl, pos, &text, &mut r4);
                        ctx.expect(r4.rec.map == restrict_map(&r1.rec.map, &tb) && n4 == n1, "C14:bounded-target-picture-ne-cut-of-unbounded", || {
                            format!("draw_iter-only box {}: {} px, expected {} px; next {:?} vs {:?}", fmt_rect(&tb), r4.rec.map.len(), want.len(), n4, n1)
                        });
                        for (name, b) in degenerate_boxes(&tb) {
                            let (mut d1, mut d2) = (R1::<Rgb565>::new(b), R2::<Rgb565>::new(b));
                            let m1 = draw_via(&style, via, bl, pos, &text, &mut d1);
                            let m2 = draw_via(&style, via, bl, pos, &text, &mut d2);
                            let wantb = restrict_map(&r1.rec.map, &b);
                            ctx.count("draw:degenerate-bounded-target");
                            ctx.expect(d1.rec.map == wantb && d2.rec.map == wantb && m1 == n1 && m2 == n1, "C14:bounded-target-picture-ne-cut-of-unbounded", || {
                                format!("{} box {}: {} / {} px, expected {} px; next {:?} / {:?} vs {:?}", name, fmt_rect(&b), d1.rec.map.len(), d2.rec.map.len(), wantb.len(), m1, m2, n1)
                            });
                        }
                    }
                    ctx.count(&format!("draw:via-{}", &via[..1]));
                    ctx.count(&format!("draw:text-{}:bg-{}", if tc == "-" { "none" } else { "set" }, if bg == "-" { "none" } else { "set" }));
                    let dk = |d: &str| if d == "n" || d == "t" { d.to_string() } else { "c".to_string() };
                    ctx.count(&format!("draw:ul-{}:st-{}", dk(ul), dk(st)));
                    ctx.count(if fc.builtin { "draw:builtin" } else { "draw:custom" });
                    ctx.expect(n1 == n2, "C14:next-position-depends-on-target", || format!("{:?} vs {:?}", n1, n2));
                    if !r1.rec.map.is_empty() {
                        ctx.nontrivial(op);
                    }

                    // ---- oracle: the picture the property text describes -------------------------------------
                    let (cw, ch) = (font.character_size.width as i64, font.character_size.height as i64);
                    let sp = font.character_spacing as i64;
                    let x0 = pos.x as i64;
                    let y0 = pos.y as i64 - baseline_offset(font, bl) as i64;
                    let tcn = opt_col(tc).map(|c| c.num());
                    let bgn = opt_col(bg).map(|c| c.num());
                    let mut want = PMap::new();
                    let text_width: i64;
                    if via.starts_with('w') {
                        let w: i64 = via[1..].parse().unwrap();
                        text_width = w;
                        if let Some(b) = bgn {
                            fill_rect(&mut want, x0, y0, w, ch, b);
                        }
                    } else {
                        let n = cps.len() as i64;
                        text_width = if n == 0 { 0 } else { n * cw + (n - 1) * sp };
                        for (i, cp) in cps.iter().enumerate() {
                            let cx = x0 + i as i64 * (cw + sp);
                            let idx = designated(fc, char_of(*cp));
                            let cell = cell_of(font, idx);
                            if cell_inside(font, cell) {
                                for dy in 0..ch {
                                    for dx in 0..cw {
                                        let on = font.image.pixel(Point::new((cell.0 + dx) as i32, (cell.1 + dy) as i32)) == Some(BinaryColor::On);
                                        if let Some(c) = if on { tcn } else { bgn } {
                                            want.insert(((y0 + dy) as i32, (cx + dx) as i32), c);
                                        }
                                    }
                                }
                            } else if fc.builtin {
                                ctx.fail("C14:glyph-cell-outside-font-image", format!("U+{:04X} index {}", cp, idx));
                            } else {
                                ctx.count("draw:custom-cell-outside");
                            }
                            if (i as i64) < n - 1 {
                                if let Some(b) = bgn {
                                    fill_rect(&mut want, cx + cw, y0, sp, ch, b);
                                }
                            }
                        }
                    }
                    // decorations: strikethrough, then underline, over the full text width at the font's offsets.
                    // Observation (outside the property's quantifier, see DESIGN.md C15): with neither text nor
                    // background colour the real code measures n*(cw+sp), i.e. the line extends over the trailing
                    // spacing of a custom font.
                    // In that one case both widths are accepted: the property text asks for "the full text
                    // width", and the trailing spacing is a quirk the existing suite pins
                    // (`transparent_text_dimensions_one_line_spaced`), not something the property demands.
                    let mut deco_widths = vec![text_width];
                    if !via.starts_with('w') && tcn.is_none() && bgn.is_none() && sp > 0 && !cps.is_empty() {
                        deco_widths.insert(0, text_width + sp);
                        ctx.count("draw:obs-transparent-text-decoration-spans-trailing-spacing");
                    }
                    let eff = |d: &str| -> Option<u32> {
                        match d {
                            "n" => None,
                            "t" => tcn,
                            v => Some(v.parse().unwrap()),
                        }
                    };
                    let base = want;
                    let mut wants: Vec<PMap> = Vec::new();
                    // Both decorations drawn, in different colours, over common rows: the property text ("cover the
                    // full text width at the font's decoration offsets") does not say which colour the common rows
                    // get, so either is accepted here (wants[0] = the documented order, underline last).
                    let (so, sh) = (font.strikethrough.offset as i64, font.strikethrough.height as i64);
                    let (uo, uh) = (font.underline.offset as i64, font.underline.height as i64);
                    let overlap = match (eff(st), eff(ul)) {
                        (Some(a), Some(b)) => a != b && so.max(uo) < (so + sh).min(uo + uh),
                        _ => false,
                    };
                    for deco_width in deco_widths {
                        let mut want = base.clone();
                        if deco_width > 0 {
                            if let Some(c) = eff(st) {
                                fill_rect(&mut want, x0, y0 + so, deco_width, sh, c);
                                if wants.is_empty() {
                                    ctx.count("draw:strikethrough-drawn");
                                }
                            }
                            if let Some(c) = eff(ul) {
                                fill_rect(&mut want, x0, y0 + uo, deco_width, uh, c);
                                if wants.is_empty() {
                                    ctx.count("draw:underline-drawn");
                                }
                            }
                            if overlap {
                                if wants.is_empty() {
                                    ctx.count("draw:decorations-overlap-in-different-colours");
                                }
                                let mut alt = want.clone();
                                fill_rect(&mut alt, x0, y0 + so, deco_width, sh, eff(st).unwrap());
                                wants.push(want);
                                wants.push(alt);
                                continue;
                            }
                        }
                        wants.push(want);
                    }
                    let want = &wants[0];
                    let classify = |got: &PMap| -> Option<(&'static str, String)> {
                        if wants.iter().any(|w| got == w) {
                            return None;
                        }
                        let miss = want.iter().find(|(k, v)| got.get(k) != Some(v));
                        let extra = got.iter().find(|(k, _)| !want.contains_key(k));
                        if let Some((k, v)) = miss {
                            Some(("C14:pixel-differs-from-designated-cell", format!("at ({},{}) expected {} got {:?}", k.1, k.0, v, got.get(k))))
                        } else {
                            let (k, v) = extra.unwrap();
                            Some(("C14:pixel-outside-cells-and-decorations", format!("at ({},{}) colour {}", k.1, k.0, v)))
                        }
                    };
                    for (name, got) in [("r1", &r1.rec.map), ("r2", &r2.rec.map)] {
                        ctx.checked();
                        if let Some((class, detail)) = classify(got) {
                            ctx.fail(class, format!("{}: {}", name, detail));
                        }
                    }
                    let m1 = r1.rec.fmt_map();
                    let m2 = r2.rec.fmt_map();
                    format!("next={} r1={} r2={}", fmt_pt(n1), m1, if m2 == m1 { "same".to_string() } else { m2 })
                });
                match r {
                    Ok(s) => s,
                    Err(e) => e,
                }
            }
            _ => panic!("unknown op {}", op),
        }
    }
}
