//! module `rect` (serves C16) — Rectangle operations agree with the set of points they describe.
//!
//! Streams (op lines; every result line is compared with the Lean model `EG.Model.Rect`):
//!   rect.pair  ax ay aw ah bx by bw bh     -> i=<a∩b> j=<b∩a> e=<envelope>
//!   rect.one   x y w h                      -> br c rows cols zs anchors pts contains-bitmap
//!   rect.resize x y w h nw nh ax ay         -> r=<resized> rw=<resized_width> rh=<resized_height>
//!   rect.offset x y w h o                   -> <offset rect>
//!   rect.corners x1 y1 x2 y2                -> <with_corners rect>
//!   rect.withcenter cx cy w h               -> <with_center rect>
//!   rect.pts   x y w h                      -> `points()` in iteration order, digested beyond 64 points
//!                                              (`n= first= last= h=`, see `m_line::pts_digest`): rectangles
//!                                              larger than the 12x12 limit of `rect.one`
//!
//! Oracle (the property text as a predicate, evaluated on the real results):
//!   Lean statement mirrored: `mem_intersection`, `intersection_zero_of_disjoint`,
//!   `envelope_least`, `contains_iff_points`, `points_row_major`, `resized_keeps_anchor`,
//!   `offset_moves_sides`, `offset_grow_moves_sides`, `with_center_center`.
use crate::common::*;
use embedded_graphics::{
    geometry::{AnchorPoint, AnchorX, AnchorY},
    prelude::*,
    primitives::Rectangle,
};

pub struct M;

const ANCHORS: [AnchorPoint; 9] = [
    AnchorPoint::TopLeft,
    AnchorPoint::TopCenter,
    AnchorPoint::TopRight,
    AnchorPoint::CenterLeft,
    AnchorPoint::Center,
    AnchorPoint::CenterRight,
    AnchorPoint::BottomLeft,
    AnchorPoint::BottomCenter,
    AnchorPoint::BottomRight,
];

fn ax_of(i: u32) -> AnchorX {
    match i {
        0 => AnchorX::Left,
        1 => AnchorX::Center,
        _ => AnchorX::Right,
    }
}
fn ay_of(i: u32) -> AnchorY {
    match i {
        0 => AnchorY::Top,
        1 => AnchorY::Center,
        _ => AnchorY::Bottom,
    }
}

/// the point set of a rectangle as two half-open i64 intervals (empty if zero sized)
fn ivals(r: &Rectangle) -> Option<((i64, i64), (i64, i64))> {
    if r.size.width == 0 || r.size.height == 0 {
        None
    } else {
        Some((
            (r.top_left.x as i64, r.top_left.x as i64 + r.size.width as i64),
            (r.top_left.y as i64, r.top_left.y as i64 + r.size.height as i64),
        ))
    }
}

fn common(a: &Rectangle, b: &Rectangle) -> Option<((i64, i64), (i64, i64))> {
    let (ax, ay) = ivals(a)?;
    let (bx, by) = ivals(b)?;
    let x = (ax.0.max(bx.0), ax.1.min(bx.1));
    let y = (ay.0.max(by.0), ay.1.min(by.1));
    if x.0 < x.1 && y.0 < y.1 {
        Some((x, y))
    } else {
        None
    }
}

impl Module for M {
    fn name(&self) -> &'static str {
        "rect"
    }
    fn rule(&self) -> &'static str {
        "ops are generated as: all ordered pairs of rectangles with corners in a small grid (incl. zero width/height), \
         every rectangle of the grid for the single-rectangle queries, all 9 anchors x target sizes, offsets -N..=N \
         of all sizes 0..=7 x 0..=7 (zero sides included: `offset:zero-side-grown` counts the ops where a zero \
         side is grown by n > 0), `points()` of 14 fixed + seeded random rectangles of up to 321x240 / 150x150 \
         points (beyond the 12x12 whose points `rect.one` lists) through a digest, \
         then seeded random rectangles with coordinates up to +-2^20. An op is non-trivial when the rectangles involved \
         are not all zero-sized and (for pairs) their x- or y-intervals touch or overlap; distinct = distinct op text."
    }

    fn generate(&self, _pid: &str, tier: Tier, rng: &mut Rng, emit: &mut dyn FnMut(String)) {
        let (gx, gy): (i32, i32) = if tier == Tier::Quick { (4, 3) } else { (6, 5) };
        // all rectangles with corners in a (gx+1) x (gy+1) grid, shifted so that the grid straddles the origin
        let mut rects: Vec<(i32, i32, u32, u32)> = Vec::new();
        for x0 in 0..=gx {
            for x1 in x0..=gx {
                for y0 in 0..=gy {
                    for y1 in y0..=gy {
                        rects.push((x0 - 2, y0 - 1, (x1 - x0) as u32, (y1 - y0) as u32));
                    }
                }
            }
        }
        for a in &rects {
            for b in &rects {
                emit(format!("rect.pair {} {} {} {} {} {} {} {}", a.0, a.1, a.2, a.3, b.0, b.1, b.2, b.3));
            }
        }
        for a in &rects {
            emit(format!("rect.one {} {} {} {}", a.0, a.1, a.2, a.3));
            emit(format!("rect.corners {} {} {} {}", a.0, a.1, a.0 + a.2 as i32, a.1 - a.3 as i32));
            emit(format!("rect.withcenter {} {} {} {}", a.0, a.1, a.2, a.3));
        }
        let nsz: u32 = if tier == Tier::Quick { 5 } else { 8 };
        for (w, h) in [(0u32, 0u32), (1, 1), (2, 3), (3, 2), (4, 4), (5, 7), (0, 4), (6, 0)] {
            for nw in 0..=nsz {
                for nh in 0..=nsz {
                    for ax in 0..3 {
                        for ay in 0..3 {
                            emit(format!("rect.resize -3 2 {} {} {} {} {} {}", w, h, nw, nh, ax, ay));
                        }
                    }
                }
            }
        }
        let no: i32 = if tier == Tier::Quick { 6 } else { 12 };
        for w in 0..=7u32 {
            for h in 0..=7u32 {
                for o in -no..=no {
                    emit(format!("rect.offset -2 1 {} {} {}", w, h, o));
                }
            }
        }
        // points() of rectangles beyond the 12x12 limit of `rect.one` (compared through a digest)
        for (x, y, w, h) in [
            (0i64, 0i64, 13i64, 13i64), (-6, -7, 13, 12), (-40, 3, 65, 1), (3, -40, 1, 65), (-1, -1, 64, 2), (-33, -2, 65, 2), (7, 7, 2, 33),
            (-50, -20, 100, 37), (0, 0, 320, 240), (-160, -120, 321, 239), (1048000, -1048576, 40, 30), (-1048576, 1048000, 17, 19),
            (5, 5, 300, 0), (5, 5, 0, 300),
        ] {
            emit(format!("rect.pts {} {} {} {}", x, y, w, h));
        }
        for _ in 0..(if tier == Tier::Quick { 60 } else { 600 }) {
            let scale = *rng.pick(&[40i64, 1000, 1 << 20]);
            let (w, h) = if rng.chance(1, 2) { (rng.range(13, 150), rng.range(1, 150)) } else { (rng.range(1, 150), rng.range(13, 150)) };
            emit(format!("rect.pts {} {} {} {}", rng.range(-scale, scale), rng.range(-scale, scale), w, h));
        }
        // random rectangles up to +-2^20
        let n = if tier == Tier::Quick { 4000 } else { 200_000 };
        let big = 1i64 << 20;
        let rr = |rng: &mut Rng| -> (i64, i64, i64, i64) {
            let scale = *rng.pick(&[8i64, 64, 1024, big]);
            let x = rng.range(-scale, scale);
            let y = rng.range(-scale, scale);
            let w = if rng.chance(1, 10) { 0 } else { rng.range(0, scale) };
            let h = if rng.chance(1, 10) { 0 } else { rng.range(0, scale) };
            (x, y, w, h)
        };
        for _ in 0..n {
            let a = rr(rng);
            // bias the second rectangle towards touching/overlapping the first
            let b = if rng.chance(1, 2) {
                let dx = rng.range(-3, 3);
                let dy = rng.range(-3, 3);
                let x = a.0 + *rng.pick(&[0, a.2, -a.2]) + dx;
                let y = a.1 + *rng.pick(&[0, a.3, -a.3]) + dy;
                let w = (a.2 + rng.range(-2, 2)).max(0);
                let h = (a.3 + rng.range(-2, 2)).max(0);
                (x, y, w, h)
            } else {
                rr(rng)
            };
            emit(format!("rect.pair {} {} {} {} {} {} {} {}", a.0, a.1, a.2, a.3, b.0, b.1, b.2, b.3));
            emit(format!("rect.one {} {} {} {}", a.0, a.1, a.2, a.3));
            let ax = rng.below(3);
            let ay = rng.below(3);
            emit(format!("rect.resize {} {} {} {} {} {} {} {}", a.0, a.1, a.2, a.3, b.2, b.3, ax, ay));
            let o = rng.range(-(a.2.max(a.3) / 2 + 3), 40);
            emit(format!("rect.offset {} {} {} {} {}", a.0, a.1, a.2, a.3, o));
            emit(format!("rect.corners {} {} {} {}", a.0, a.1, b.0, b.1));
            emit(format!("rect.withcenter {} {} {} {}", a.0, a.1, a.2, a.3));
        }
    }

    fn execute(&self, op: &str, ctx: &mut Ctx) -> String {
        let mut t = Toks::new(op);
        match t.str() {
            "rect.pair" => {
                let a = t.rect();
                let b = t.rect();
                let i = a.intersection(&b);
                let j = b.intersection(&a);
                let e = a.envelope(&b);
                ctx.count("pair");
                let cm = common(&a, &b);
                if a.is_zero_sized() && b.is_zero_sized() {
                    // the envelope of two empty rectangles is not empty (zero size treated as 1): Lean `envelope_zero_sized`
                    ctx.count("pair:both-zero-sized");
                }
                if !(a.is_zero_sized() && b.is_zero_sized()) {
                    ctx.nontrivial(op);
                }
                match cm {
                    Some((x, y)) => {
                        ctx.count("pair:overlap");
                        let want = Rectangle::new(
                            Point::new(x.0 as i32, y.0 as i32),
                            Size::new((x.1 - x.0) as u32, (y.1 - y.0) as u32),
                        );
                        ctx.expect(i == want, "intersection-not-common-points", || {
                            format!("a∩b = {} expected {}", fmt_rect(&i), fmt_rect(&want))
                        });
                        ctx.expect(j == want, "intersection-not-common-points", || {
                            format!("b∩a = {} expected {}", fmt_rect(&j), fmt_rect(&want))
                        });
                    }
                    None => {
                        ctx.count("pair:disjoint");
                        ctx.expect(i.is_zero_sized() && j.is_zero_sized(), "intersection-not-zero-sized", || {
                            format!("no common point but a∩b = {} b∩a = {}", fmt_rect(&i), fmt_rect(&j))
                        });
                    }
                }
                // contains() agrees on a probe set: the corners of both rectangles +-1
                let mut probes = Vec::new();
                for r in [&a, &b] {
                    for dx in [-1i64, 0, 1] {
                        for dy in [-1i64, 0, 1] {
                            for (cx, cy) in [
                                (r.top_left.x as i64, r.top_left.y as i64),
                                (r.top_left.x as i64 + r.size.width as i64 - 1, r.top_left.y as i64 + r.size.height as i64 - 1),
                                (r.top_left.x as i64, r.top_left.y as i64 + r.size.height as i64 - 1),
                                (r.top_left.x as i64 + r.size.width as i64 - 1, r.top_left.y as i64),
                            ] {
                                probes.push(Point::new((cx + dx) as i32, (cy + dy) as i32));
                            }
                        }
                    }
                }
                let mut bad = None;
                for p in probes {
                    if i.contains(p) != (a.contains(p) && b.contains(p)) || j.contains(p) != i.contains(p) {
                        bad = Some(p);
                    }
                }
                ctx.expect(bad.is_none(), "intersection-contains-mismatch", || format!("at {:?}", bad));
                // envelope: smallest rectangle containing both, operands treated as at least 1x1
                let lo_x = (a.top_left.x as i64).min(b.top_left.x as i64);
                let lo_y = (a.top_left.y as i64).min(b.top_left.y as i64);
                let hi_x = (a.top_left.x as i64 + (a.size.width as i64).max(1)).max(b.top_left.x as i64 + (b.size.width as i64).max(1));
                let hi_y = (a.top_left.y as i64 + (a.size.height as i64).max(1)).max(b.top_left.y as i64 + (b.size.height as i64).max(1));
                let want = Rectangle::new(Point::new(lo_x as i32, lo_y as i32), Size::new((hi_x - lo_x) as u32, (hi_y - lo_y) as u32));
                ctx.expect(e == want, "envelope-not-least", || format!("envelope {} expected {}", fmt_rect(&e), fmt_rect(&want)));
                format!("i={} j={} e={}", fmt_rect(&i), fmt_rect(&j), fmt_rect(&e))
            }
            "rect.one" => {
                let r = t.rect();
                ctx.count("one");
                if !r.is_zero_sized() {
                    ctx.nontrivial(op);
                }
                let br = r.bottom_right();
                let c = r.center();
                let rows = r.rows();
                let cols = r.columns();
                let small = r.size.width <= 12 && r.size.height <= 12;
                // bottom_right
                match br {
                    Some(p) => ctx.expect(
                        !r.is_zero_sized()
                            && p.x as i64 == r.top_left.x as i64 + r.size.width as i64 - 1
                            && p.y as i64 == r.top_left.y as i64 + r.size.height as i64 - 1,
                        "bottom-right",
                        || format!("{:?}", p),
                    ),
                    None => ctx.expect(r.is_zero_sized(), "bottom-right", || "None for non-empty".into()),
                }
                ctx.expect(
                    rows.start == r.top_left.y
                        && rows.end as i64 == r.top_left.y as i64 + r.size.height as i64
                        && cols.start == r.top_left.x
                        && cols.end as i64 == r.top_left.x as i64 + r.size.width as i64,
                    "rows-columns",
                    || format!("{:?} {:?}", rows, cols),
                );
                let wc = Rectangle::with_center(c, r.size);
                ctx.expect(wc == r, "with-center-center", || format!("with_center(center) = {}", fmt_rect(&wc)));
                if let Some(p) = br {
                    let w2 = Rectangle::with_corners(r.top_left, p);
                    let w3 = Rectangle::with_corners(p, r.top_left);
                    ctx.expect(w2 == r && w3 == r, "with-corners", || format!("{} {}", fmt_rect(&w2), fmt_rect(&w3)));
                }
                let anchors: Vec<Point> = ANCHORS.iter().map(|a| r.anchor_point(*a)).collect();
                // anchor points: left/top = top_left, right/bottom = bottom_right (size treated >= 1), centre within 1/2
                {
                    let w1 = (r.size.width as i64).max(1);
                    let h1 = (r.size.height as i64).max(1);
                    let mut ok = true;
                    for (k, a) in anchors.iter().enumerate() {
                        let (kx, ky) = (k % 3, k / 3);
                        let ex2 = 2 * r.top_left.x as i64 + [0, w1 - 1, 2 * (w1 - 1)][kx];
                        let ey2 = 2 * r.top_left.y as i64 + [0, h1 - 1, 2 * (h1 - 1)][ky];
                        let dx = 2 * a.x as i64 - ex2;
                        let dy = 2 * a.y as i64 - ey2;
                        if !(dx == 0 || (kx == 1 && dx == -1)) || !(dy == 0 || (ky == 1 && dy == -1)) {
                            ok = false;
                        }
                    }
                    ctx.expect(ok, "anchor-point", || format!("{:?}", anchors));
                }
                let mut out = format!(
                    "br={} c={} rows={},{} cols={},{} zs={} an={}",
                    fmt_opt_pt(br),
                    fmt_pt(c),
                    rows.start,
                    rows.end,
                    cols.start,
                    cols.end,
                    r.is_zero_sized() as u8,
                    fmt_pts(anchors.iter().copied())
                );
                if small {
                    ctx.count("one:small");
                    let pts: Vec<Point> = r.points().collect();
                if r.size.width as u64 * r.size.height as u64 <= 400 {
                    iter_protocol_check(ctx, "iterator-protocol:rectangle-points", r.points(), 400);
                }
                    // contains() bitmap over the box plus a 2 px margin, row-major
                    let mut bits = String::new();
                    let mut expect_pts = Vec::new();
                    for y in (r.top_left.y - 2)..(r.top_left.y + r.size.height as i32 + 2) {
                        for x in (r.top_left.x - 2)..(r.top_left.x + r.size.width as i32 + 2) {
                            let p = Point::new(x, y);
                            let inside = r.contains(p);
                            bits.push(if inside { '1' } else { '0' });
                            if inside {
                                expect_pts.push(p);
                            }
                            let spec = x >= r.top_left.x
                                && y >= r.top_left.y
                                && (x as i64) < r.top_left.x as i64 + r.size.width as i64
                                && (y as i64) < r.top_left.y as i64 + r.size.height as i64;
                            ctx.expect(inside == spec, "contains-not-top-left-plus-size", || format!("{:?}", p));
                            // the `ContainsPoint` trait impl (what generic code reaches; a separate copy of the inherent
                            // method in the main crate) says the same (seeded changes C05-r3-1 / C16-r3-1)
                            let via_trait = <Rectangle as embedded_graphics::primitives::ContainsPoint>::contains(&r, p);
                            ctx.expect(via_trait == spec, "contains-trait-not-top-left-plus-size", || format!("{:?}: trait {} spec {}", p, via_trait, spec));
                        }
                    }
                    // `points()` consumed partly by `next()` and then through `fold`-based adaptors (count / for_each /
                    // last): still the remaining points (seeded change C16-r3-3: a `fold` override that walked the later
                    // rows with the current row's remaining range)
                    for k in [1usize, r.size.width as usize, r.size.width as usize + 1] {
                        if k == 0 || k > pts.len() {
                            continue;
                        }
                        let mut it = r.points();
                        for _ in 0..k {
                            it.next();
                        }
                        let mut rest: Vec<Point> = Vec::new();
                        it.clone().for_each(|p| rest.push(p));
                        let cnt = it.clone().count();
                        let last = it.last();
                        ctx.expect(rest[..] == pts[k..] && cnt == pts.len() - k && last == pts[k..].last().copied(), "points-after-next-then-fold", || {
                            format!("{} after {} next(): for_each {} points, count {}, last {:?}; expected {}", fmt_rect(&r), k, rest.len(), cnt, last, pts.len() - k)
                        });
                    }
                    ctx.expect(pts == expect_pts, "points-not-contains-row-major", || {
                        format!("points {} vs contains {}", fmt_pts(pts.iter().copied()), fmt_pts(expect_pts.iter().copied()))
                    });
                    ctx.expect(pts.len() as u64 == r.size.width as u64 * r.size.height as u64, "points-length", || format!("{}", pts.len()));
                    out.push_str(&format!(" pts={} in={}", fmt_pts(pts), bits));
                } else {
                    ctx.count("one:large");
                    // spot-check contains at the corners +-1
                    let x0 = r.top_left.x as i64;
                    let y0 = r.top_left.y as i64;
                    let x1 = x0 + r.size.width as i64;
                    let y1 = y0 + r.size.height as i64;
                    let mut bits = String::new();
                    for y in [y0 - 1, y0, y1 - 1, y1] {
                        for x in [x0 - 1, x0, x1 - 1, x1] {
                            let inside = r.contains(Point::new(x as i32, y as i32));
                            let spec = x >= x0 && x < x1 && y >= y0 && y < y1;
                            bits.push(if inside { '1' } else { '0' });
                            ctx.expect(inside == spec, "contains-not-top-left-plus-size", || format!("{},{}", x, y));
                        }
                    }
                    out.push_str(&format!(" in16={}", bits));
                }
                out
            }
            "rect.pts" => {
                let r = t.rect();
                ctx.count("pts");
                if r.size.width > 12 || r.size.height > 12 {
                    ctx.count("pts:larger-than-12x12");
                }
                let pts: Vec<Point> = r.points().collect();
                if r.size.width as u64 * r.size.height as u64 <= 400 {
                    iter_protocol_check(ctx, "iterator-protocol:rectangle-points", r.points(), 400);
                }
                if !pts.is_empty() {
                    ctx.nontrivial(op);
                }
                // exactly the points top-left plus size describes, row-major, each once
                let (x0, y0) = (r.top_left.x as i64, r.top_left.y as i64);
                let (w, h) = (r.size.width as i64, r.size.height as i64);
                ctx.expect(pts.len() as i64 == w * h, "points-length", || format!("{} points for {}", pts.len(), fmt_rect(&r)));
                let mut k = 0usize;
                let mut bad: Option<(i64, i64)> = None;
                'rows: for y in y0..y0 + h {
                    for x in x0..x0 + w {
                        if k >= pts.len() || pts[k].x as i64 != x || pts[k].y as i64 != y || !r.contains(pts[k]) {
                            bad = Some((x, y));
                            break 'rows;
                        }
                        k += 1;
                    }
                }
                ctx.expect(bad.is_none(), "points-not-contains-row-major", || format!("{}: point #{} is not {:?}", fmt_rect(&r), k, bad));
                crate::m_line::pts_digest(&pts)
            }
            "rect.resize" => {
                let r = t.rect();
                let ns = t.size();
                let axi = t.u32();
                let ayi = t.u32();
                let (ax, ay) = (ax_of(axi), ay_of(ayi));
                let ap = AnchorPoint::from_xy(ax, ay);
                ctx.count("resize");
                ctx.nontrivial(op);
                let rs = r.resized(ns, ap);
                let rw = r.resized_width(ns.width, ax);
                let rh = r.resized_height(ns.height, ay);
                ctx.expect(rs.size == ns && rw.size == Size::new(ns.width, r.size.height) && rh.size == Size::new(r.size.width, ns.height), "resized-size", || {
                    format!("{} {} {}", fmt_rect(&rs), fmt_rect(&rw), fmt_rect(&rh))
                });
                // the anchor stays fixed: exactly for edge / corner anchors, within one pixel for centre
                let before = r.anchor_point(ap);
                let after = rs.anchor_point(ap);
                let dx = (before.x - after.x).abs();
                let dy = (before.y - after.y).abs();
                let okx = if axi == 1 { dx <= 1 } else { dx == 0 };
                let oky = if ayi == 1 { dy <= 1 } else { dy == 0 };
                ctx.expect(okx && oky, "resized-moves-anchor", || format!("anchor {:?} -> {:?}", before, after));
                ctx.expect(rw.top_left == Point::new(rs.top_left.x, r.top_left.y) && rh.top_left == Point::new(r.top_left.x, rs.top_left.y), "resized-axis-mix", || {
                    format!("{} {} {}", fmt_rect(&rs), fmt_rect(&rw), fmt_rect(&rh))
                });
                format!("r={} rw={} rh={}", fmt_rect(&rs), fmt_rect(&rw), fmt_rect(&rh))
            }
            "rect.offset" => {
                let r = t.rect();
                let o = t.i32();
                ctx.count("offset");
                let q = r.offset(o);
                // the `OffsetOutline` trait impl (what the generic stroke / fill area code calls) is the same function
                // (round-5 seed C16-r5-1: a rewrite of the trait impl through with_corners, wrong for tall narrow shapes)
                let via_trait = <Rectangle as embedded_graphics::primitives::OffsetOutline>::offset(&r, o);
                ctx.expect(via_trait == q, "offset-trait-vs-method", || format!("trait {} method {}", fmt_rect(&via_trait), fmt_rect(&q)));
                // offsetting by n moves every side by n (when the result is not degenerate)
                let w = r.size.width as i64;
                let h = r.size.height as i64;
                let o64 = o as i64;
                // A side of zero length can grow (o >= 0) but nothing can be removed from it. For o >= 0 every side
                // moves by o whatever the size (also when a side stays zero: o = 0), as long as the size fits u32.
                let fits = w + 2 * o64 <= u32::MAX as i64 && h + 2 * o64 <= u32::MAX as i64;
                if (o64 >= 0 && fits) || (w + 2 * o64 > 0 && h + 2 * o64 > 0 && w > 0 && h > 0) {
                    if (w == 0 || h == 0) && o64 > 0 {
                        ctx.count("offset:zero-side-grown");
                    }
                    if (w == 0 || h == 0) && o64 == 0 {
                        ctx.count("offset:zero-side-offset-0");
                    }
                    ctx.nontrivial(op);
                    ctx.count("offset:nondegenerate");
                    let want = Rectangle::new(
                        Point::new((r.top_left.x as i64 - o64) as i32, (r.top_left.y as i64 - o64) as i32),
                        Size::new((w + 2 * o64) as u32, (h + 2 * o64) as u32),
                    );
                    ctx.expect(q == want, "offset-moves-sides", || format!("{} expected {}", fmt_rect(&q), fmt_rect(&want)));
                } else {
                    ctx.count("offset:degenerate");
                    let ww = (w + 2 * o64).max(0) as u32;
                    let hh = (h + 2 * o64).max(0) as u32;
                    ctx.expect(q.size == Size::new(ww, hh), "offset-size", || format!("{}", fmt_rect(&q)));
                    // the axes are independent (Lean: `offset_moves_sides_x/_y`): an axis whose sides can move by o
                    // (something is left of it after shrinking) does so even if the other axis collapses
                    if o64 < 0 && w > 0 && w + 2 * o64 > 0 {
                        ctx.count("offset:degenerate:x-axis-still-checked");
                        ctx.expect(q.top_left.x as i64 == r.top_left.x as i64 - o64, "offset-moves-sides", || format!("x axis: {} from {}", fmt_rect(&q), fmt_rect(&r)));
                    }
                    if o64 < 0 && h > 0 && h + 2 * o64 > 0 {
                        ctx.count("offset:degenerate:y-axis-still-checked");
                        ctx.expect(q.top_left.y as i64 == r.top_left.y as i64 - o64, "offset-moves-sides", || format!("y axis: {} from {}", fmt_rect(&q), fmt_rect(&r)));
                    }
                }
                fmt_rect(&q)
            }
            "rect.corners" => {
                let p1 = t.point();
                let p2 = t.point();
                ctx.count("corners");
                ctx.nontrivial(op);
                let r = Rectangle::with_corners(p1, p2);
                ctx.expect(
                    r.contains(p1) && r.contains(p2) && r.top_left == p1.component_min(p2) && r.bottom_right() == Some(p1.component_max(p2)),
                    "with-corners",
                    || fmt_rect(&r),
                );
                fmt_rect(&r)
            }
            "rect.withcenter" => {
                let c = t.point();
                let s = t.size();
                ctx.count("withcenter");
                ctx.nontrivial(op);
                let r = Rectangle::with_center(c, s);
                ctx.expect(r.size == s && r.center() == c, "with-center-center", || format!("{} center {:?}", fmt_rect(&r), r.center()));
                fmt_rect(&r)
            }
            other => panic!("unknown op {}", other),
        }
    }
}
