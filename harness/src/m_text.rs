//! module `text` — streams `text.*` (not built yet).
use crate::common::*;

pub struct M;

impl Module for M {
    fn name(&self) -> &'static str {
        "text"
    }
    fn rule(&self) -> &'static str {
        "not built yet"
    }
    fn generate(&self, _pid: &str, _tier: Tier, _rng: &mut Rng, _emit: &mut dyn FnMut(String)) {}
    fn execute(&self, op: &str, _ctx: &mut Ctx) -> String {
        panic!("unknown op {}", op)
    }
}
