//! module `text` (serves C15; text parts of C02, C07, C01) — `Text` layout with `MonoTextStyle`.
//!
//! Streams (op lines; every result line is compared with the Lean model `EG.Model.TextLayout`):
//!   text.layout  <fontspec> <bl> <al> <lhk> <lhv> <tc> <bg> <ul> <st> <x> <y> <cps>
//!        -> `next=<x,y> bb=<x,y,w,h> px=<n>:<hash>:<extent>|-`
//!        next = what `Text::draw` returns, bb = `Text::bounding_box()`, px = the pixel map left on the
//!        draw_iter-only target R1 (number of pixels, hash, extent `x,y,w,h` or `-`), printed when the op
//!        determines the picture: for the harness-built fonts always (their atlas is the fixed bit pattern of
//!        `with_font`, which the model recomputes), for built-in fonts only when the picture is determined by
//!        the layout alone (text colour == background colour, or neither set: then no pixel depends on the
//!        glyph bitmaps, which are C14's topic), else `px=-`.
//!   text.tr      <the same tokens> <dx> <dy>
//!        -> the same for `text.translate(d)`, plus ` mut=same|diff` (`translate_mut` vs `translate`)
//!   text.measure <fontspec> <bl> <tc> <bg> <ul> <st> <x> <y> <cps>
//!        -> `bb=<rect> mnext=<x,y> dnext=<x,y> lh=<n>`: `measure_string` box and next position, what
//!        `draw_string` returns, `line_height()` (all through the `TextRenderer` trait)
//!   text.chain   <fontspec> <bl> <al> <tc> <bg> <ul> <st> <x> <y> <cps1> <cps2>
//!        -> `n1=<x,y> n2=<x,y> n12=<x,y>`: `Text(s1).draw` returns n1, `Text(s2 at n1).draw` returns n2,
//!        `Text(s1 + s2).draw` returns n12
//!   fontspec: `b:<fid>` (index into the generated `FONTS` table = Lean `fontTable`) or
//!             `c:<cw>:<ch>:<sp>:<bl>:<ulOff>:<ulH>:<stOff>:<stH>` — a font built here: mapping `"\0 ~"`
//!             (U+0020..=U+007E, replacement index 31 = '?'), atlas 16 glyphs per row x 6 rows with a fixed
//!             bit pattern. Custom fonts are the only ones with character spacing > 0.
//!   bl: 0 Top, 1 Bottom, 2 Middle, 3 Alphabetic; al: 0 Left, 1 Center, 2 Right;
//!   lhk/lhv: `p <pixels>` or `c <percent>`; tc/bg: `-` or raw Rgb565; ul/st: `n` None, `t` TextColor, else raw.
//!   hash: h = 0; for every pixel in row-major order: h = (h * 1000003 + t mod P) mod P with
//!         t = ((y + 2^20) * 2^21 + (x + 2^20)) * 65536 + colour + 1, P = 2^31 - 1.
//!
//! Oracle = the property texts as predicates on the real results (classes prefixed with the property):
//!   C15  draw return == `measure_string(..).next_position` (per line through `draw_string`, and for the whole
//!        text: the last line at the position the alignment rule gives); chaining (spacing 0: picture of s1 then
//!        s2 at the returned position == picture of s1 + s2, same returned position); alignment of each line
//!        (drawn with text + background colour so that the drawn extent is the line box): starts at x / last
//!        column == x / |first + last - 2x| <= 1; the baseline shifts the first line's top to y - offset
//!        (Top 0, Bottom ch-1, Middle (ch-1)/2, Alphabetic font.baseline); a text with `\n` == its segments
//!        drawn as separate texts `line_height` apart (Pixels(p) -> p, Percent(q) -> ch*q/100), same returned
//!        position; replacing every `\r\n` by `\n` changes neither picture nor box nor returned position.
//!   C02  every drawn pixel inside `bounding_box()`; a transparent style draws nothing.
//!   C07  `translate(d)`: picture, box and returned position shift by d; `translate_mut` == `translate`.
//!   C01  R1 (draw_iter only) and R2 (native fills) end with the same picture and returned position.
//! Observations outside the properties' quantifier (custom fonts with spacing > 0, neither text nor
//! background colour): `draw_string` returns n*(cw+sp) past the start (one trailing spacing more than
//! `measure_string`), and a custom-coloured decoration then extends `sp` columns beyond the box. Counted
//! (`obs:*`); the oracles accept both the pinned value and the value `measure_string` predicts (the property
//! would be met by either), anything else is a failure.
use crate::common::*;
use embedded_graphics::{
    image::ImageRaw,
    mono_font::{mapping::StrGlyphMapping, DecorationDimensions, MonoFont, MonoTextStyle, MonoTextStyleBuilder},
    pixelcolor::{BinaryColor, Rgb565},
    prelude::*,
    primitives::Rectangle,
    text::{renderer::TextRenderer, Alignment, Baseline, DecorationColor, LineHeight, Text, TextStyle, TextStyleBuilder},
};

#[path = "font_table.rs"]
mod font_table;
use font_table::FONTS;

pub struct M;

type Style<'a> = MonoTextStyle<'a, Rgb565>;

fn char_of(cp: u32) -> char {
    char::from_u32(cp).expect("op carries a non-scalar code point")
}

/// Runs `f` with the font a fontspec token describes (`builtin` flag second).
fn with_font<R>(spec: &str, f: impl FnOnce(&MonoFont, bool) -> R) -> Result<R, String> {
    let fs: Vec<&str> = spec.split(':').collect();
    match fs[0] {
        "b" => {
            let fid: usize = fs[1].parse().expect("fid");
            if fid >= FONTS.len() {
                return Err("nofont".into());
            }
            Ok(f(FONTS[fid].3, true))
        }
        "c" => {
            let n = |i: usize| -> u32 { fs[i].parse().expect("custom font field") };
            let (cw, ch, sp, bl, uo, uh, so, sh) = (n(1), n(2), n(3), n(4), n(5), n(6), n(7), n(8));
            let (iw, ih) = (16 * cw, 6 * ch);
            let bpr = ((iw + 7) / 8) as usize;
            let mut bytes = vec![0u8; bpr * ih as usize];
            for y in 0..ih as usize {
                for x in 0..iw as usize {
                    if (x * 7 + y * 3 + x * y) % 5 < 2 {
                        bytes[y * bpr + x / 8] |= 0x80 >> (x % 8);
                    }
                }
            }
            let image = ImageRaw::<BinaryColor>::new(&bytes, Size::new(iw, ih)).map_err(|_| "badimage".to_string())?;
            let mapping = StrGlyphMapping::new("\0 ~", 31);
            let font = MonoFont {
                image,
                character_size: Size::new(cw, ch),
                character_spacing: sp,
                baseline: bl,
                strikethrough: DecorationDimensions::new(so, sh),
                underline: DecorationDimensions::new(uo, uh),
                glyph_mapping: &mapping,
            };
            Ok(f(&font, false))
        }
        _ => Err("nofont".into()),
    }
}

fn opt_col(s: &str) -> Option<Rgb565> {
    if s == "-" {
        None
    } else {
        Some(Rgb565::from_num(s.parse().expect("colour")))
    }
}
fn deco(s: &str) -> DecorationColor<Rgb565> {
    match s {
        "n" => DecorationColor::None,
        "t" => DecorationColor::TextColor,
        v => DecorationColor::Custom(Rgb565::from_num(v.parse().expect("colour"))),
    }
}
fn baseline_of(i: u32) -> Baseline {
    match i {
        0 => Baseline::Top,
        1 => Baseline::Bottom,
        2 => Baseline::Middle,
        _ => Baseline::Alphabetic,
    }
}
fn alignment_of(i: u32) -> Alignment {
    match i {
        0 => Alignment::Left,
        1 => Alignment::Center,
        _ => Alignment::Right,
    }
}
/// the documented offset between the line position and the top of the line
fn documented_offset(font: &MonoFont, bl: u32) -> i32 {
    let h = font.character_size.height;
    match bl {
        0 => 0,
        1 => h.saturating_sub(1) as i32,
        2 => (h.saturating_sub(1) / 2) as i32,
        _ => font.baseline as i32,
    }
}
fn style_of<'a>(font: &'a MonoFont<'a>, tc: Option<Rgb565>, bg: Option<Rgb565>, ul: DecorationColor<Rgb565>, st: DecorationColor<Rgb565>) -> Style<'a> {
    let mut s: Style<'a> = MonoTextStyleBuilder::new().font(font).build();
    s.text_color = tc;
    s.background_color = bg;
    s.underline_color = ul;
    s.strikethrough_color = st;
    s
}

const P31: u64 = 2147483647;
fn map_hash(m: &PMap) -> u64 {
    let mut h: u64 = 0;
    for ((y, x), c) in m.iter() {
        let t = (((*y as i64 + (1 << 20)) as u64) * (1 << 21) + ((*x as i64 + (1 << 20)) as u64)) * 65536 + *c as u64 + 1;
        h = (h * 1000003 + t % P31) % P31;
    }
    h
}
/// (min x, min y, max x, max y) of a pixel map
fn extent(m: &PMap) -> Option<(i32, i32, i32, i32)> {
    let mut e: Option<(i32, i32, i32, i32)> = None;
    for ((y, x), _) in m.iter() {
        e = Some(match e {
            None => (*x, *y, *x, *y),
            Some((a, b, c, d)) => (a.min(*x), b.min(*y), c.max(*x), d.max(*y)),
        });
    }
    e
}
fn fmt_px(m: &PMap) -> String {
    let ext = match extent(m) {
        None => "-".to_string(),
        Some((a, b, c, d)) => format!("{},{},{},{}", a, b, c - a + 1, d - b + 1),
    };
    format!("{}:{}:{}", m.len(), map_hash(m), ext)
}
fn shift_map(m: &PMap, d: Point) -> PMap {
    m.iter().map(|((y, x), c)| ((*y + d.y, *x + d.x), *c)).collect()
}

/// everything a layout op carries besides the font
struct Lay {
    bl: u32,
    al: u32,
    lh: LineHeight,
    tc: Option<Rgb565>,
    bg: Option<Rgb565>,
    ul: DecorationColor<Rgb565>,
    st: DecorationColor<Rgb565>,
    pos: Point,
    text: String,
}
impl Lay {
    fn parse(t: &mut Toks) -> Lay {
        let bl = t.u32();
        let al = t.u32();
        let lhk = t.str();
        let lhv = t.u32();
        let lh = if lhk == "p" { LineHeight::Pixels(lhv) } else { LineHeight::Percent(lhv) };
        let (tc, bg, ul, st) = (opt_col(t.str()), opt_col(t.str()), deco(t.str()), deco(t.str()));
        let pos = t.point();
        let text: String = t.u32_list().into_iter().map(char_of).collect();
        Lay { bl, al, lh, tc, bg, ul, st, pos, text }
    }
    fn ts(&self) -> TextStyle {
        TextStyleBuilder::new().alignment(alignment_of(self.al)).baseline(baseline_of(self.bl)).line_height(self.lh).build()
    }
    /// is the picture determined by the layout alone (no pixel depends on a glyph bitmap)?
    fn determined(&self) -> bool {
        (self.tc.is_some() && self.tc == self.bg) || (self.tc.is_none() && self.bg.is_none())
    }
}

fn draw_r1(text: &Text<Style>) -> (PMap, Point) {
    let mut r = R1::<Rgb565>::unbounded();
    let n = text.draw(&mut r).expect("recording target does not fail");
    (r.rec.map, n)
}
fn draw_r2(text: &Text<Style>) -> (PMap, Point) {
    let mut r = R2::<Rgb565>::unbounded();
    let n = text.draw(&mut r).expect("recording target does not fail");
    (r.rec.map, n)
}

/// The custom-font observation: neither text nor background colour, spacing > 0.
fn trailing_spacing_case(font: &MonoFont, l: &Lay) -> bool {
    l.tc.is_none() && l.bg.is_none() && font.character_spacing > 0
}

/// All oracles of a laid-out text; returns (picture on R1, returned position, bounding box).
fn check_text(ctx: &mut Ctx, op: &str, font: &MonoFont, builtin: bool, l: &Lay) -> (PMap, Point, Rectangle) {
    let style = style_of(font, l.tc, l.bg, l.ul, l.st);
    let ts = l.ts();
    let text = Text::with_text_style(&l.text, l.pos, style, ts);
    let (m1, n1) = draw_r1(&text);
    let (m2, n2) = draw_r2(&text);
    let bb = text.bounding_box();
    let (cw, ch, sp) = (font.character_size.width as i32, font.character_size.height as i32, font.character_spacing as i32);
    let obs_case = trailing_spacing_case(font, l);
    if !m1.is_empty() {
        ctx.nontrivial(op);
    }

    // ---- distribution ------------------------------------------------------------------------------
    let segs: Vec<&str> = l.text.split('\n').collect();
    ctx.count(&format!("lines:{}", segs.len().min(6)));
    ctx.count(&format!("align:{}", ["left", "center", "right"][l.al.min(2) as usize]));
    ctx.count(&format!("baseline:{}", ["top", "bottom", "middle", "alphabetic"][l.bl.min(3) as usize]));
    ctx.count(match l.lh {
        LineHeight::Pixels(_) => "line-height:pixels",
        LineHeight::Percent(_) => "line-height:percent",
    });
    ctx.count(&format!(
        "colours:text-{}:bg-{}:ul-{}:st-{}",
        if l.tc.is_some() { "set" } else { "none" },
        if l.bg.is_some() { "set" } else { "none" },
        if l.ul.is_none() { "n" } else if l.ul.is_text_color() { "t" } else { "c" },
        if l.st.is_none() { "n" } else if l.st.is_text_color() { "t" } else { "c" },
    ));
    ctx.count(if builtin { "font:builtin" } else { "font:custom-with-spacing" });
    if l.text.is_empty() {
        ctx.count("text:empty");
    }
    if segs.iter().any(|s| s.is_empty()) && segs.len() > 1 {
        ctx.count("text:has-empty-line");
    }
    if l.text.ends_with('\n') {
        ctx.count("text:trailing-newline");
    }
    if l.text.contains("\r\n") {
        ctx.count("text:crlf");
    }
    if l.text.contains('\r') && !l.text.contains("\r\n") {
        ctx.count("text:lone-cr");
    }
    if l.text.chars().any(|c| (c as u32) > 0xffff) {
        ctx.count("text:non-bmp");
    }

    // ---- C01: both drawing paths ---------------------------------------------------------------------
    ctx.expect(m1 == m2, "C01:text-r1-picture-ne-r2", || format!("{} vs {} pixels", m1.len(), m2.len()));
    ctx.expect(n1 == n2, "C01:text-r1-return-ne-r2", || format!("{:?} vs {:?}", n1, n2));

    // ---- C15 ------------------------------------------------------------------------------------------
    let lh_abs: i32 = match l.lh {
        LineHeight::Pixels(p) => p as i32,
        LineHeight::Percent(q) => (ch as i64 * q as i64 / 100) as i32,
    };
    let off = documented_offset(font, l.bl);
    let baseline = baseline_of(l.bl);
    let both = style_of(font, Some(Rgb565::from_num(1)), Some(Rgb565::from_num(2)), DecorationColor::None, DecorationColor::None);
    // (b) the segments as separate texts, line_height apart
    let mut acc = R1::<Rgb565>::unbounded();
    let mut last = l.pos;
    let mut line_boxes: Vec<Rectangle> = Vec::new();
    for (i, seg) in segs.iter().enumerate() {
        let p = Point::new(l.pos.x, l.pos.y + i as i32 * lh_abs);
        let single = Text::with_text_style(seg, p, style, ts);
        last = single.draw(&mut acc).expect("no fault");

        // the line as the property sees it: the segment without the `\r` of a `\r\n`
        let line = seg.strip_suffix('\r').unwrap_or(seg);
        let n = line.chars().count() as i32;
        let width = if n == 0 { 0 } else { n * cw + (n - 1) * sp };

        // (d) alignment: extent of the line drawn with both colours
        let (mb, _) = draw_r1(&Text::with_text_style(seg, p, both, ts));
        match extent(&mb) {
            Some((x0, y0, x1, y1)) => {
                ctx.expect(x1 - x0 + 1 == width && y1 - y0 + 1 == ch, "C15:line-extent-not-n-cells", || format!("{}x{} expected {}x{}", x1 - x0 + 1, y1 - y0 + 1, width, ch));
                match l.al {
                    0 => ctx.expect(x0 == l.pos.x, "C15:align-left-line-does-not-start-at-x", || format!("starts at {} x={}", x0, l.pos.x)),
                    2 => ctx.expect(x1 == l.pos.x, "C15:align-right-line-does-not-end-at-x", || format!("ends at {} x={}", x1, l.pos.x)),
                    _ => ctx.expect((x0 + x1 - 2 * l.pos.x).abs() <= 1, "C15:align-center-off-by-more-than-half-a-pixel", || format!("{}..={} x={}", x0, x1, l.pos.x)),
                }
                // (e) baseline: top of the line
                ctx.expect(y0 == p.y - off, "C15:baseline-shift-not-documented-offset", || format!("top {} expected {}", y0, p.y - off));
            }
            None => ctx.expect(width == 0 || ch == 0, "C15:non-empty-line-draws-nothing", || format!("width {}", width)),
        }
        // the same through the box of the line in the real style
        let sbb = single.bounding_box();
        line_boxes.push(sbb);
        if sbb.size.width > 0 && sbb.size.height > 0 {
            let (x0, x1) = (sbb.top_left.x, sbb.top_left.x + sbb.size.width as i32 - 1);
            let ok = match l.al {
                0 => x0 == l.pos.x,
                2 => x1 == l.pos.x,
                _ => (x0 + x1 - 2 * l.pos.x).abs() <= 1,
            };
            ctx.expect(ok && sbb.size.width as i32 == width, "C15:line-box-not-aligned", || format!("{} x={} width {}", fmt_rect(&sbb), l.pos.x, width));
            ctx.expect(sbb.top_left.y == p.y - off, "C15:baseline-shift-not-documented-offset", || format!("box top {} expected {}", sbb.top_left.y, p.y - off));
        }
        // (a) draw_string returns what measure_string predicts, at the position the alignment rule gives
        let lp = Point::new(
            match l.al {
                0 => l.pos.x,
                2 => l.pos.x - (width - 1),
                _ => l.pos.x - (width - 1) / 2,
            },
            p.y,
        );
        let predicted = style.measure_string(line, lp, baseline).next_position;
        let mut scratch = R1::<Rgb565>::unbounded();
        let returned = style.draw_string(line, lp, baseline, &mut scratch).expect("no fault");
        // ... whatever the target shows of the line: targets that cut the line on the right / on both sides (boxes
        // that do not start at the origin), draw_iter-only and native (round-5 seed C15-r5-2: an early return at the
        // first glyph right of the target's box returned that glyph's position)
        {
            let mb = style.measure_string(line, lp, baseline).bounding_box;
            let w3 = (mb.size.width / 3).max(1);
            for (k, bx) in [
                Rectangle::new(mb.top_left - Point::new(2, 2), Size::new(w3 + 2, mb.size.height + 4)),
                Rectangle::new(mb.top_left + Point::new(w3 as i32, -1), Size::new(w3, mb.size.height + 2)),
                Rectangle::new(mb.top_left - Point::new(9, 0), Size::new(5, mb.size.height.max(1))),
            ]
            .iter()
            .enumerate()
            {
                let mut b1 = R1::<Rgb565>::new(*bx);
                let mut b2 = R2::<Rgb565>::new(*bx);
                let n1b = style.draw_string(line, lp, baseline, &mut b1).expect("no fault");
                let n2b = style.draw_string(line, lp, baseline, &mut b2).expect("no fault");
                ctx.expect(n1b == returned && n2b == returned, "C15:draw-return-depends-on-the-target", || {
                    format!("box #{} {}: draw_iter-only {:?}, native {:?}, unbounded {:?}", k, fmt_rect(bx), n1b, n2b, returned)
                });
            }
        }
        if obs_case && n > 0 {
            ctx.count("obs:transparent-text-draw-string-returns-trailing-spacing");
            // outside C15's quantifier (custom spaced font, no colours): the suite pins the trailing spacing
            // (`transparent_text_dimensions_one_line_spaced`); the property would be met by either value.
            ctx.expect(returned == predicted + Point::new(sp, 0) || returned == predicted, "C15:draw-return-ne-measure-next", || format!("custom font: {:?} vs {:?}", returned, predicted));
        } else {
            ctx.expect(returned == predicted, "C15:draw-return-ne-measure-next", || format!("draw_string {:?} measure_string {:?}", returned, predicted));
            if i + 1 == segs.len() {
                ctx.expect(n1 == predicted, "C15:draw-return-ne-measure-next", || format!("Text::draw {:?} measure_string of the last line {:?}", n1, predicted));
            }
        }
    }
    ctx.expect(acc.rec.map == m1, "C15:multiline-picture-ne-separate-lines", || format!("{} vs {} pixels", m1.len(), acc.rec.map.len()));
    ctx.expect(last == n1, "C15:multiline-return-ne-last-line", || format!("{:?} vs {:?}", n1, last));
    // (c) CR LF == LF
    if l.text.contains("\r\n") {
        if l.text.contains("\r\r\n") {
            // replacing would create a new CR LF out of the preceding CR: not the property's comparison
            ctx.count("obs:cr-cr-lf-not-compared");
        } else {
            let lf = l.text.replace("\r\n", "\n");
            let t2 = Text::with_text_style(&lf, l.pos, style, ts);
            let (m3, n3) = draw_r1(&t2);
            let bb3 = t2.bounding_box();
            ctx.expect(m3 == m1, "C15:crlf-picture-ne-lf", || format!("{} vs {} pixels", m1.len(), m3.len()));
            ctx.expect(n3 == n1, "C15:crlf-return-ne-lf", || format!("{:?} vs {:?}", n1, n3));
            ctx.expect(bb3 == bb, "C15:crlf-box-ne-lf", || format!("{} vs {}", fmt_rect(&bb), fmt_rect(&bb3)));
        }
    }
    // ---- C02: box contains the picture; transparent draws nothing -----------------------------------------
    let outside: Vec<(i32, i32)> = m1.keys().filter(|(y, x)| !bb.contains(Point::new(*x, *y))).cloned().collect();
    if !outside.is_empty() && obs_case && !builtin {
        // the only admissible mechanism: decoration columns over the trailing spacing of a line
        let ok = outside.iter().all(|(y, x)| {
            line_boxes.iter().any(|b| {
                let right = b.top_left.x + b.size.width as i32;
                b.size.width > 0 && *x >= right && *x < right + sp && *y >= b.top_left.y && *y < b.top_left.y + (b.size.height as i32).max(ch)
            })
        });
        ctx.count("obs:transparent-text-decoration-spans-trailing-spacing");
        ctx.expect(ok, "C02:text-pixel-outside-bbox", || format!("{} pixels outside {}", outside.len(), fmt_rect(&bb)));
    } else {
        ctx.expect(outside.is_empty(), "C02:text-pixel-outside-bbox", || {
            format!("{} pixels outside {} e.g. ({},{})", outside.len(), fmt_rect(&bb), outside[0].1, outside[0].0)
        });
    }
    if style.is_transparent() {
        ctx.count("style:transparent");
        ctx.expect(m1.is_empty() && m2.is_empty(), "C02:text-transparent-style-draws", || format!("{} pixels", m1.len()));
    }
    (m1, n1, bb)
}

// ---------------------------------------------------------------------------------------------------------
// generator
// ---------------------------------------------------------------------------------------------------------
const STRINGS: [&str; 42] = [
    "", "A", "AB", "Hello", "\n", "A\n", "\nA", "A\nB", "AB\nC", "A\n\nBC", "AB\n\n", "\n\n", "A\r\nB", "AB\r\nC", "\r\n",
    "A\r\n", "\r\nA", "A\r\n\r\nB", "A\rB", "\r", "A\r", "\rA", "A\r\r\nB", "A\n\rB", "A\nB\r", "AB\r\nCDE\nF\r\n", "\u{e9}t\u{e9}",
    "\u{1F600}", "a\u{1F600}b\n\u{0}", "\t", "\u{7f}x", "The quick\nbrown fox\njumps", "iiii\nWWWWWWWW\nii", "A B", " ", "  \n ",
    "x\ny\nz\nw\nv", "0123456789ABCDEFGHIJ", "\u{ff71}\u{ff72}\n\u{a5}", "\u{a0}|\r\n|", "long line here\r\nshort\r\n\r\nend", "q\u{10ffff}\u{d7ff}",
];
/// (tc, bg, ul, st)
const COLOURS: [(&str, &str, &str, &str); 10] = [
    ("65535", "-", "n", "n"),
    ("2016", "63488", "n", "n"),
    ("31", "31", "1365", "2730"),
    ("31", "31", "t", "n"),
    ("-", "31", "t", "n"),
    ("-", "-", "1365", "7"),
    ("-", "-", "n", "n"),
    ("65535", "-", "t", "t"),
    ("992", "992", "n", "n"),
    ("2016", "63488", "1365", "t"),
];
const LINE_HEIGHTS: [(&str, u32); 7] = [("c", 100), ("c", 150), ("c", 37), ("p", 0), ("p", 25), ("p", 7), ("c", 0)];
const POSITIONS: [(i32, i32); 2] = [(0, 0), (-17, 23)];
const CUSTOM: [&str; 6] = [
    "c:5:7:1:5:8:1:3:1",
    "c:3:4:2:3:4:2:2:1",
    "c:8:8:3:6:6:1:4:1",
    "c:1:1:1:0:1:1:0:1",
    "c:6:3:2:2:5:2:1:1",
    "c:4:9:1:7:3:2:4:2",
];

fn fid_of(module: &str, name: &str) -> usize {
    FONTS.iter().position(|f| f.0 == module && f.1 == name).expect("font in table")
}
fn cps_of(s: &str) -> String {
    fmt_list(s.chars().map(|c| c as u32))
}
fn quick_fonts() -> Vec<String> {
    let mut v: Vec<String> = [
        ("ascii", "FONT_4X6"),
        ("ascii", "FONT_6X10"),
        ("ascii", "FONT_9X15"),
        ("ascii", "FONT_10X20"),
        ("iso_8859_1", "FONT_6X13"),
        ("jis_x0201", "FONT_9X18"),
        ("iso_8859_15", "FONT_5X8"),
        ("ascii", "FONT_7X13_BOLD"),
    ]
    .iter()
    .map(|(m, n)| format!("b:{}", fid_of(m, n)))
    .collect();
    v.extend(CUSTOM.iter().map(|s| s.to_string()));
    v
}
fn random_string(rng: &mut Rng) -> String {
    // incl. zero-width characters (unmapped in every built-in font: they take a cell like any other unmapped character;
    // round-5 seed C15-r5-1 skipped them while drawing but not while measuring)
    let alphabet: [&str; 19] = ["A", "b", "W", "i", " ", "\n", "\n", "\r\n", "\r", "\u{e9}", "\u{1F600}", "?", "0", "\u{0}", "\u{ff71}", "~", "\u{200B}", "\u{FEFF}", "\u{2060}"];
    let len = rng.below(25) as usize;
    let mut s = String::new();
    for _ in 0..len {
        s.push_str(*rng.pick(&alphabet[..]));
    }
    s
}
fn layout_tokens(font: &str, bl: u64, al: u64, lh: (&str, u32), col: (&str, &str, &str, &str), pos: (i32, i32), s: &str) -> String {
    format!("{} {} {} {} {} {} {} {} {} {} {} {}", font, bl, al, lh.0, lh.1, col.0, col.1, col.2, col.3, pos.0, pos.1, cps_of(s))
}

impl Module for M {
    fn name(&self) -> &'static str {
        "text"
    }
    fn rule(&self) -> &'static str {
        "ops: quick 8 built-in fonts (4X6, 6X10, 9X15 underline inside the cell, 10X20, iso_8859_1, iso_8859_15, \
         jis_x0201, bold) + 6 harness-built fonts with spacing 1..=3 x 42 strings (empty, single/multi-line, empty \
         lines, trailing newline, CR LF variants, lone CR, CR CR LF, unmapped, non-BMP) x 3 alignments x 4 baselines \
         with line height (7: percent 100/150/37/0, pixels 0/25/7), colour/decoration option (10: text, both, solid \
         + custom decorations, background only, decorations only, transparent, TextColor decorations) and position \
         (2) rotating, plus seeded random parameter/string combinations; thorough: all fonts of three charsets, 500 \
         random strings. measure ops over the same fonts. chain ops (`text.chain`): every split point of 11 \
         strings on the built-in fonts of the selection + 2 spaced harness-built fonts, alignment Left except \
         every 11th op, plus seeded random pairs of which about 9 in 10 are in the property's scope (font \
         without spacing, Left, continuation without newline, no CR before the joint); the counter \
         `chain:applicable` says how many ops the chaining oracle judged. Pictures (`px=`) are compared with \
         the model for every harness-built font and, for built-in fonts, for the styles whose picture does not \
         depend on glyph bitmaps. A layout op is non-trivial when at least one pixel is drawn; distinct = \
         distinct op text."
    }

    fn generate(&self, pid: &str, tier: Tier, rng: &mut Rng, emit: &mut dyn FnMut(String)) {
        let thorough = tier == Tier::Thorough;
        let mut fonts = quick_fonts();
        if thorough {
            fonts.clear();
            for (i, f) in FONTS.iter().enumerate() {
                if f.0 == "ascii" || f.0 == "iso_8859_1" || f.0 == "jis_x0201" {
                    fonts.push(format!("b:{}", i));
                }
            }
            for (i, f) in FONTS.iter().enumerate() {
                // every charset once for the other eleven
                if !(f.0 == "ascii" || f.0 == "iso_8859_1" || f.0 == "jis_x0201") && f.1 == "FONT_9X15" {
                    fonts.push(format!("b:{}", i));
                }
            }
            fonts.extend(CUSTOM.iter().map(|s| s.to_string()));
        }
        let mut strings: Vec<String> = STRINGS.iter().map(|s| s.to_string()).collect();
        for _ in 0..(if thorough { 500 } else { 30 }) {
            strings.push(random_string(rng));
        }
        let mut combo: usize = 0;
        match pid {
            "C15" | "C02" | "C01" => {
                // C15: the full grid; C02 / C01: every third combination of the same grid
                let stride = if pid == "C15" { 1 } else { 3 };
                for font in &fonts {
                    for s in &strings {
                        for al in 0..3u64 {
                            for bl in 0..4u64 {
                                combo += 1;
                                if combo % stride != 0 {
                                    continue;
                                }
                                let lh = LINE_HEIGHTS[combo % LINE_HEIGHTS.len()];
                                let col = COLOURS[(combo / 7) % COLOURS.len()];
                                let pos = POSITIONS[(combo / 3) % 2];
                                emit(format!("text.layout {}", layout_tokens(font, bl, al, lh, col, pos, s)));
                            }
                        }
                    }
                }
                // seeded random combinations
                for _ in 0..(if thorough { 20000 } else { 2500 } / stride) {
                    let font = rng.pick(&fonts).clone();
                    let s = if rng.chance(1, 2) { rng.pick(&strings).clone() } else { random_string(rng) };
                    let lh = if rng.chance(1, 2) { *rng.pick(&LINE_HEIGHTS) } else if rng.chance(1, 2) { ("p", rng.below(40) as u32) } else { ("c", rng.below(300) as u32) };
                    let col = *rng.pick(&COLOURS);
                    let pos = (rng.range(-300, 300) as i32, rng.range(-300, 300) as i32);
                    emit(format!("text.layout {}", layout_tokens(&font, rng.below(4), rng.below(3), lh, col, pos, &s)));
                }
                if pid == "C02" {
                    // C02: a slice of the measure ops (every third font / string pair): the pixels `draw_string` writes
                    // lie inside the box `measure_string` reports (class C02:line-pixel-outside-measured-box, which no op
                    // of the C02 check evaluated before: text.measure was generated for C15 only)
                    let mut k = 0usize;
                    for font in &fonts {
                        for s in &strings {
                            k += 1;
                            if k % 3 != 0 {
                                continue;
                            }
                            let col = COLOURS[k % COLOURS.len()];
                            let pos = POSITIONS[k % 2];
                            emit(format!("text.measure {} {} {} {} {} {} {} {} {}", font, k % 4, col.0, col.1, col.2, col.3, pos.0, pos.1, cps_of(s)));
                        }
                    }
                }
                if pid == "C15" {
                    // a moved `Text` keeps its layout (alignment, baseline, line height): `translate` changes the
                    // position only (C07's stream, a slice of it here: seeded change C15-r3-1 rebuilt the moved text
                    // with the default `TextStyle`); the `C07:` oracle classes do not count in this check, the
                    // comparison with the model does
                    for (fi, font) in fonts.iter().enumerate() {
                        for (si, s) in strings.iter().enumerate().take(8) {
                            let k = fi * 8 + si;
                            let lh = LINE_HEIGHTS[k % LINE_HEIGHTS.len()];
                            let col = COLOURS[(k / 3) % COLOURS.len()];
                            let d = [(5i32, -3i32), (-40, 17), (0, 9)][k % 3];
                            emit(format!("text.tr {} {} {}", layout_tokens(font, (k % 4) as u64, ((k / 4) % 3) as u64, lh, col, POSITIONS[k % 2], s), d.0, d.1));
                        }
                    }
                    for font in &fonts {
                        for s in &strings {
                            combo += 1;
                            let col = COLOURS[combo % COLOURS.len()];
                            let pos = POSITIONS[combo % 2];
                            emit(format!("text.measure {} {} {} {} {} {} {} {} {}", font, combo % 4, col.0, col.1, col.2, col.3, pos.0, pos.1, cps_of(s)));
                        }
                    }
                    // chaining: every split point of some strings, random pairs. The property's claim is about
                    // fonts without spacing (all built-in fonts), a left-aligned continuation on the same line:
                    // the generator spends about 7 of 8 ops there; the rest (spaced harness-built fonts, Center /
                    // Right, a continuation with a newline, a CR before the joint) only feeds the model
                    // comparison of the returned positions and the `chain:not-applicable-*` counters.
                    let chain_strings = ["AB", "Hello World", "A\nBC", "ab\n", "\ncd", "A\r", "xy\r\nz", "", "\u{1F600}\u{e9}", "iW\n\nq~", "  x "];
                    let spaced = |f: &String| f.starts_with("c:");
                    let unspaced: Vec<String> = fonts.iter().filter(|f| !spaced(f)).cloned().collect();
                    let mut chain_fonts: Vec<String> = unspaced.clone();
                    chain_fonts.push(CUSTOM[0].to_string());
                    chain_fonts.push(CUSTOM[5].to_string());
                    for font in &chain_fonts {
                        for s in chain_strings {
                            let cs: Vec<char> = s.chars().collect();
                            for k in 0..=cs.len() {
                                combo += 1;
                                let col = COLOURS[combo % COLOURS.len()];
                                let al = if combo % 11 == 0 { 1 + combo % 2 } else { 0 };
                                let s1: String = cs[..k].iter().collect();
                                let s2: String = cs[k..].iter().collect();
                                emit(format!(
                                    "text.chain {} {} {} {} {} {} {} {} {} {} {}",
                                    font, combo % 4, al, col.0, col.1, col.2, col.3, rng.range(-20, 20), rng.range(-20, 20), cps_of(&s1), cps_of(&s2)
                                ));
                            }
                        }
                    }
                    for _ in 0..(if thorough { 3000 } else { 400 }) {
                        let font = if rng.chance(9, 10) { rng.pick(&unspaced).clone() } else { rng.pick(&fonts).clone() };
                        let col = *rng.pick(&COLOURS);
                        let (mut s1, mut s2) = (random_string(rng), random_string(rng));
                        if rng.chance(9, 10) {
                            // a continuation on the same line; the last line of s1 not ending in a CR
                            s2 = s2.replace('\n', "");
                            while s1.ends_with('\r') {
                                s1.pop();
                            }
                        }
                        emit(format!(
                            "text.chain {} {} {} {} {} {} {} {} {} {} {}",
                            font, rng.below(4), if rng.chance(9, 10) { 0 } else { rng.below(3) }, col.0, col.1, col.2, col.3, rng.range(-50, 50), rng.range(-50, 50), cps_of(&s1), cps_of(&s2)
                        ));
                    }
                }
            }
            "C07" => {
                let offsets: [(i32, i32); 8] = [(1, 0), (-1, 0), (0, 1), (0, -1), (-40, -40), (13, -29), (0, 0), (-7, 250)];
                for font in &fonts {
                    for s in &strings {
                        combo += 1;
                        let lh = LINE_HEIGHTS[combo % LINE_HEIGHTS.len()];
                        let col = COLOURS[(combo / 7) % COLOURS.len()];
                        let pos = if combo % 3 == 0 { (rng.range(-30, 30) as i32, rng.range(-30, 30) as i32) } else { POSITIONS[combo % 2] };
                        let d = offsets[combo % offsets.len()];
                        emit(format!("text.tr {} {} {}", layout_tokens(font, (combo % 4) as u64, ((combo / 4) % 3) as u64, lh, col, pos, s), d.0, d.1));
                    }
                }
                for _ in 0..(if thorough { 5000 } else { 600 }) {
                    let font = rng.pick(&fonts).clone();
                    let s = if rng.chance(1, 2) { rng.pick(&strings).clone() } else { random_string(rng) };
                    let lh = *rng.pick(&LINE_HEIGHTS);
                    let col = *rng.pick(&COLOURS);
                    let pos = (rng.range(-100, 100) as i32, rng.range(-100, 100) as i32);
                    emit(format!(
                        "text.tr {} {} {}",
                        layout_tokens(&font, rng.below(4), rng.below(3), lh, col, pos, &s),
                        rng.range(-200, 200),
                        rng.range(-200, 200)
                    ));
                }
            }
            _ => {}
        }
    }

    fn execute(&self, op: &str, ctx: &mut Ctx) -> String {
        let mut t = Toks::new(op);
        let stream = t.str();
        match stream {
            "text.layout" | "text.tr" => {
                let spec = t.str();
                let l = Lay::parse(&mut t);
                let d = if stream == "text.tr" { Some(t.point()) } else { None };
                let r = with_font(spec, |font, builtin| {
                    ctx.count(if d.is_some() { "tr" } else { "layout" });
                    let (m, n, bb) = check_text(ctx, op, font, builtin, &l);
                    match d {
                        None => format!("next={} bb={} px={}", fmt_pt(n), fmt_rect(&bb), if !builtin || l.determined() { fmt_px(&m) } else { "-".into() }),
                        Some(d) => {
                            // ---- C07 ---------------------------------------------------------------------
                            let style = style_of(font, l.tc, l.bg, l.ul, l.st);
                            let text = Text::with_text_style(&l.text, l.pos, style, l.ts());
                            let moved = text.translate(d);
                            let mut mutated = text;
                            mutated.translate_mut(d);
                            let same = mutated == moved;
                            ctx.expect(same, "C07:text-translate-mut-ne-translate", || format!("{:?} vs {:?}", mutated.position, moved.position));
                            ctx.expect(moved.position == l.pos + d && moved.text == l.text && moved.text_style == l.ts() && moved.character_style == style,
                                "C07:text-translate-changes-more-than-position", || format!("{:?}", moved.position));
                            let (mm, mn) = draw_r1(&moved);
                            let mbb = moved.bounding_box();
                            ctx.expect(mm == shift_map(&m, d), "C07:text-picture-not-shifted", || format!("{} vs {} pixels", mm.len(), m.len()));
                            ctx.expect(mn == n + d, "C07:text-return-not-shifted", || format!("{:?} vs {:?} + {:?}", mn, n, d));
                            // the same on bounded targets that cut the moved text at its right / bottom and at its left /
                            // top side: the picture inside the target is the shifted picture, and the returned position does
                            // not depend on the target (seeded change C07-r3-3 stopped at the target's right edge and
                            // returned the position reached there)
                            {
                                let (w3, h3) = ((mbb.size.width / 3) as i32, (mbb.size.height / 3) as i32);
                                for tl in [mbb.top_left - Point::new(w3 + 1, h3 + 1), mbb.top_left + Point::new(w3 + 1, h3 + 1)] {
                                    let b = Rectangle::new(tl, mbb.size);
                                    let mut r = R2::<Rgb565>::new(b);
                                    let bn = moved.draw(&mut r).expect("recording target does not fail");
                                    let want: PMap = shift_map(&m, d).into_iter().filter(|((y, x), _)| b.contains(Point::new(*x, *y))).collect();
                                    if want.len() != m.len() && !want.is_empty() {
                                        ctx.count("tr:cut-by-a-bounded-target");
                                    }
                                    ctx.expect(r.rec.map == want, "C07:text-picture-not-shifted-on-bounded-target", || format!("box {}: {} vs {} pixels", fmt_rect(&b), r.rec.map.len(), want.len()));
                                    ctx.expect(bn == n + d, "C07:text-return-not-shifted-on-bounded-target", || format!("box {}: {:?} vs {:?} + {:?}", fmt_rect(&b), bn, n, d));
                                    // the same box on a draw_iter-only target
                                    let mut r = R1::<Rgb565>::new(b);
                                    let bn = moved.draw(&mut r).expect("recording target does not fail");
                                    ctx.expect(r.rec.map == want, "C07:text-picture-not-shifted-on-bounded-target", || format!("draw_iter-only box {}: {} vs {} pixels", fmt_rect(&b), r.rec.map.len(), want.len()));
                                    ctx.expect(bn == n + d, "C07:text-return-not-shifted-on-bounded-target", || format!("draw_iter-only box {}: {:?} vs {:?} + {:?}", fmt_rect(&b), bn, n, d));
                                }
                                // degenerate boxes (empty, flat, disjoint), both kinds of target: nothing is drawn, the returned
                                // position is unchanged
                                for (name, b) in degenerate_boxes(&mbb) {
                                    let want = restrict_map(&shift_map(&m, d), &b);
                                    let (mut d1, mut d2) = (R1::<Rgb565>::new(b), R2::<Rgb565>::new(b));
                                    let n1 = moved.draw(&mut d1).expect("recording target does not fail");
                                    let n2 = moved.draw(&mut d2).expect("recording target does not fail");
                                    ctx.count("tr:degenerate-bounded-target");
                                    ctx.expect(d1.rec.map == want && d2.rec.map == want, "C07:text-picture-not-shifted-on-bounded-target", || format!("{} box {}: {} / {} vs {} pixels", name, fmt_rect(&b), d1.rec.map.len(), d2.rec.map.len(), want.len()));
                                    ctx.expect(n1 == n + d && n2 == n + d, "C07:text-return-not-shifted-on-bounded-target", || format!("{} box {}: {:?} / {:?} vs {:?} + {:?}", name, fmt_rect(&b), n1, n2, n, d));
                                }
                            }
                            ctx.expect(mbb == bb.translate(d), "C07:text-box-not-shifted", || format!("{} vs {} moved", fmt_rect(&mbb), fmt_rect(&bb)));
                            format!(
                                "next={} bb={} px={} mut={}",
                                fmt_pt(mn),
                                fmt_rect(&mbb),
                                if !builtin || l.determined() { fmt_px(&mm) } else { "-".into() },
                                if same { "same" } else { "diff" }
                            )
                        }
                    }
                });
                r.unwrap_or_else(|e| e)
            }
            "text.measure" => {
                let spec = t.str();
                let bl = t.u32();
                let (tc, bg, ul, st) = (opt_col(t.str()), opt_col(t.str()), deco(t.str()), deco(t.str()));
                let pos = t.point();
                let text: String = t.u32_list().into_iter().map(char_of).collect();
                let r = with_font(spec, |font, builtin| {
                    let style = style_of(font, tc, bg, ul, st);
                    let m = style.measure_string(&text, pos, baseline_of(bl));
                    let mut r1 = R1::<Rgb565>::unbounded();
                    let dn = style.draw_string(&text, pos, baseline_of(bl), &mut r1).expect("no fault");
                    ctx.count("measure");
                    if !text.is_empty() {
                        ctx.nontrivial(op);
                    }
                    let n = text.chars().count() as i32;
                    let sp = font.character_spacing as i32;
                    if tc.is_none() && bg.is_none() && sp > 0 && n > 0 {
                        ctx.count("obs:transparent-text-draw-string-returns-trailing-spacing");
                        // outside C15's quantifier (custom spaced font, no colours): either value meets the text
                        ctx.expect(!builtin && (dn == m.next_position + Point::new(sp, 0) || dn == m.next_position), "C15:draw-return-ne-measure-next", || format!("{:?} vs {:?}", dn, m.next_position));
                    } else {
                        ctx.expect(dn == m.next_position, "C15:draw-return-ne-measure-next", || format!("draw_string {:?} measure_string {:?}", dn, m.next_position));
                    }
                    // every pixel of the line inside the measured box
                    let out = r1.rec.map.keys().filter(|(y, x)| !m.bounding_box.contains(Point::new(*x, *y))).count();
                    if !(tc.is_none() && bg.is_none() && sp > 0) {
                        ctx.expect(out == 0, "C02:line-pixel-outside-measured-box", || format!("{} pixels outside {}", out, fmt_rect(&m.bounding_box)));
                    }
                    format!("bb={} mnext={} dnext={} lh={}", fmt_rect(&m.bounding_box), fmt_pt(m.next_position), fmt_pt(dn), style.line_height())
                });
                r.unwrap_or_else(|e| e)
            }
            "text.chain" => {
                let spec = t.str();
                let bl = t.u32();
                let al = t.u32();
                let (tc, bg, ul, st) = (opt_col(t.str()), opt_col(t.str()), deco(t.str()), deco(t.str()));
                let pos = t.point();
                let s1: String = t.u32_list().into_iter().map(char_of).collect();
                let s2: String = t.u32_list().into_iter().map(char_of).collect();
                let r = with_font(spec, |font, _builtin| {
                    let style = style_of(font, tc, bg, ul, st);
                    let ts = TextStyleBuilder::new().alignment(alignment_of(al)).baseline(baseline_of(bl)).build();
                    let mut chained = R1::<Rgb565>::unbounded();
                    let n1 = Text::with_text_style(&s1, pos, style, ts).draw(&mut chained).expect("no fault");
                    let n2 = Text::with_text_style(&s2, n1, style, ts).draw(&mut chained).expect("no fault");
                    let s12 = format!("{}{}", s1, s2);
                    let mut whole = R1::<Rgb565>::unbounded();
                    let n12 = Text::with_text_style(&s12, pos, style, ts).draw(&mut whole).expect("no fault");
                    ctx.count("chain");
                    // the property: fonts without spacing; a left-aligned continuation on the same line
                    // (s2 without newline; the last line of s1 must not end in a CR that is stripped only
                    // when it is last)
                    let last1 = s1.rsplit('\n').next().unwrap_or("");
                    let applicable = font.character_spacing == 0 && al == 0 && !s2.contains('\n') && !last1.ends_with('\r');
                    if applicable {
                        ctx.count("chain:applicable");
                        if !whole.rec.map.is_empty() {
                            ctx.nontrivial(op);
                        }
                        ctx.expect(n2 == n12, "C15:chaining-return-differs", || format!("{:?} vs {:?}", n2, n12));
                        ctx.expect(chained.rec.map == whole.rec.map, "C15:chaining-picture-differs", || format!("{} vs {} pixels", chained.rec.map.len(), whole.rec.map.len()));
                    } else {
                        ctx.count(if font.character_spacing != 0 {
                            "chain:not-applicable-font-with-spacing"
                        } else if al != 0 {
                            "chain:not-applicable-center-or-right"
                        } else if s2.contains('\n') {
                            "chain:not-applicable-continuation-has-newline"
                        } else {
                            "chain:not-applicable-cr-before-joint"
                        });
                        if n2 != n12 || chained.rec.map != whole.rec.map {
                            ctx.count("chain:not-applicable-and-differs");
                        }
                    }
                    format!("n1={} n2={} n12={}", fmt_pt(n1), fmt_pt(n2), fmt_pt(n12))
                });
                r.unwrap_or_else(|e| e)
            }
            _ => panic!("unknown op {}", op),
        }
    }
}
