//! egv — correspondence harness and property oracles for embedded-graphics.
//!
//! usage: egv <property> <quick|thorough> <seed> <outdir> [--ops <file>]
//!
//! Writes into <outdir>:
//!   ops.txt     one operation per line (input of the Lean model driver)
//!   impl.txt    what the real library returned for that op, canonical text
//!   oracle.txt  `<op index>\t<class>\t<detail>` per oracle failure
//!   dist.json   evaluations, distinct non-trivial cases, counters (input distribution), samples
mod common;
mod shapes;
mod m_adapters;
mod m_circle;
mod m_color;
mod m_conv;
mod m_ellipse;
mod m_faults;
mod m_fb;
mod m_font;
mod m_image;
mod m_line;
mod m_mock;
mod m_poly;
mod m_raw;
mod m_rect;
mod m_rrect;
mod m_scale;
mod m_sector;
mod m_styled;
mod m_text;
mod m_thick;
mod m_tri;

use common::*;
use std::io::Write;

#[global_allocator]
static GLOBAL: CountingAlloc = CountingAlloc;

/// `file:line: <source text of that line>` of the last panic, so that a panic can be classified by
/// the expression that raised it (robust against line shifts elsewhere in the file).
fn panic_site(loc: &std::panic::Location) -> String {
    let file = loc.file();
    // path relative to the repository root, wherever the repository lives
    let short = match (file.find("/core/src/"), file.find("/src/")) {
        (Some(i), _) => &file[i + 1..],
        (None, Some(i)) if !file.starts_with("/rustc/") => &file[i + 1..],
        _ => file,
    };
    let text = std::fs::read_to_string(file)
        .ok()
        .and_then(|s| s.lines().nth(loc.line() as usize - 1).map(|l| l.trim().to_string()))
        .unwrap_or_default();
    format!("{}: {}", short, text)
}

fn modules() -> Vec<Box<dyn Module>> {
    vec![
        Box::new(m_rect::M),
        Box::new(m_raw::M),
        Box::new(m_fb::M),
        Box::new(m_image::M),
        Box::new(m_color::M),
        Box::new(m_conv::M),
        Box::new(m_adapters::M),
        Box::new(m_line::M),
        Box::new(m_thick::M),
        Box::new(m_poly::M),
        Box::new(m_tri::M),
        Box::new(m_mock::M),
        Box::new(m_font::M),
        Box::new(m_text::M),
        Box::new(m_circle::M),
        Box::new(m_ellipse::M),
        Box::new(m_rrect::M),
        Box::new(m_sector::M),
        Box::new(m_styled::M),
        Box::new(m_faults::M),
        Box::new(m_scale::M),
    ]
}

/// Which modules the check of a property runs (each module generates the ops relevant to `pid`).
fn modules_for(pid: &str) -> &'static [&'static str] {
    match pid {
        "C01" => &["styled", "adapters", "image", "text", "circle", "ellipse", "rrect", "sector", "thick"],
        "C02" => &["styled", "text", "image", "thick", "sector"],
        "C03" => &["adapters"],
        "C04" => &["faults"],
        "C05" => &["rect", "circle", "ellipse", "rrect", "sector", "tri"],
        "C06" => &["styled", "circle", "ellipse", "rrect"],
        "C07" => &["styled", "line", "text", "image", "thick", "sector", "poly"],
        "C08" => &["scale"],
        "C09" => &["image"],
        "C10" => &["fb"],
        "C11" => &["raw"],
        "C12" => &["color"],
        "C13" => &["conv"],
        "C14" => &["font"],
        "C15" => &["text", "font"],
        "C16" => &["rect"],
        "C17" => &["line", "thick"],
        "C18" => &["circle", "ellipse", "rrect", "sector"],
        "C19" => &["tri", "poly", "thick"],
        "C20" => &["mock"],
        _ => &[],
    }
}

fn json_str(s: &str) -> String {
    let mut o = String::from("\"");
    for ch in s.chars() {
        match ch {
            '"' => o.push_str("\\\""),
            '\\' => o.push_str("\\\\"),
            '\n' => o.push_str("\\n"),
            '\t' => o.push_str("\\t"),
            c if (c as u32) < 0x20 => o.push_str(&format!("\\u{:04x}", c as u32)),
            c => o.push(c),
        }
    }
    o.push('"');
    o
}

fn main() {
    let args: Vec<String> = std::env::args().collect();
    if args.len() < 5 {
        eprintln!("usage: egv <property> <quick|thorough> <seed> <outdir> [--ops <file>]");
        std::process::exit(2);
    }
    let pid = args[1].as_str();
    let tier = if args[2] == "thorough" { Tier::Thorough } else { Tier::Quick };
    let seed: u64 = args[3].parse().unwrap_or(0);
    let outdir = std::path::PathBuf::from(&args[4]);
    let ops_file = if args.len() >= 7 && args[5] == "--ops" { Some(args[6].clone()) } else { None };
    std::fs::create_dir_all(&outdir).unwrap();

    let all = modules();
    let wanted = modules_for(pid);
    if wanted.is_empty() {
        eprintln!("unknown property {}", pid);
        std::process::exit(2);
    }

    // quiet panics: they are results here (`panic:<message>`), not crashes
    std::panic::set_hook(Box::new(|info| {
        alloc_arm(false);
        let site = info.location().map(panic_site).unwrap_or_default();
        if std::env::var_os("EGV_BACKTRACE").is_some() {
            eprintln!("panic: {}\n{}", info, std::backtrace::Backtrace::force_capture());
        }
        PANIC_LOC.with(|l| *l.borrow_mut() = site);
    }));

    let mut ops: Vec<String> = Vec::new();
    if let Some(f) = ops_file {
        for l in std::fs::read_to_string(f).unwrap().lines() {
            if !l.trim().is_empty() {
                ops.push(l.to_string());
            }
        }
    } else {
        // corpus (minimised past failures and witnesses) first
        let corpus = std::path::Path::new(env!("CARGO_MANIFEST_DIR")).join("../corpus").join(format!("{}.ops", pid));
        if let Ok(s) = std::fs::read_to_string(corpus) {
            for l in s.lines() {
                if !l.trim().is_empty() && !l.starts_with('#') {
                    ops.push(l.to_string());
                }
            }
        }
        for (k, name) in wanted.iter().enumerate() {
            let m = all.iter().find(|m| m.name() == *name).expect("module");
            // one independent PRNG stream per module, all derived from the one seed
            let mut rng = Rng::new(seed.wrapping_mul(1_000_003).wrapping_add(k as u64));
            m.generate(pid, tier, &mut rng, &mut |s| ops.push(s));
        }
    }

    let mut ctx = Ctx::new(tier, pid);
    let mut scratch = Ctx::new(tier, pid);
    let mut f_ops = std::io::BufWriter::new(std::fs::File::create(outdir.join("ops.txt")).unwrap());
    let mut f_impl = std::io::BufWriter::new(std::fs::File::create(outdir.join("impl.txt")).unwrap());
    let mut samples: Vec<(String, String)> = Vec::new();
    let n = ops.len();
    let sample_every = (n / 6).max(1);
    for (i, op) in ops.iter().enumerate() {
        ctx.cur_op = i;
        DRAIN_CALLS.with(|c| c.set(0));
        let stream = op.split(' ').next().unwrap_or("");
        let mname = stream.split('.').next().unwrap_or("");
        let res = match all.iter().find(|m| m.name() == mname) {
            None => format!("panic:no module for stream {}", stream),
            Some(m) => {
                let c = &mut ctx;
                match std::panic::catch_unwind(std::panic::AssertUnwindSafe(|| m.execute(op, c))) {
                    Ok(s) => s,
                    Err(e) => {
                        let msg = if let Some(s) = e.downcast_ref::<&str>() {
                            s.to_string()
                        } else if let Some(s) = e.downcast_ref::<String>() {
                            s.clone()
                        } else {
                            "?".to_string()
                        };
                        alloc_arm(false);
                        let site = PANIC_LOC.with(|l| l.borrow().clone());
                        format!("panic:{} @ {}", msg.replace(['\n', '\t'], " "), site.replace(['\n', '\t'], " "))
                    }
                }
            }
        };
        // The picture must not depend on HOW a target consumes the iterators it is handed: every op that made a
        // recording target drain an iterator is run a second time with the targets consuming by internal iteration,
        // after a first next(), or by size_hint + nth (common.rs `drain_iter`); the result line must be the same.
        let far0 = far_pixels_take();
        let drained = DRAIN_CALLS.with(|c| c.replace(0));
        if drained > 0 && !res.starts_with("panic:") {
            if let Some(m) = all.iter().find(|m| m.name() == mname) {
                let mode = 1 + (i % 3) as u32;
                CONSUME_MODE.with(|c| c.set(mode));
                PROTOCOL_FAULT.with(|f| *f.borrow_mut() = None);
                scratch.failures.clear();
                let sc = &mut scratch;
                let again = std::panic::catch_unwind(std::panic::AssertUnwindSafe(|| m.execute(op, sc)));
                CONSUME_MODE.with(|c| c.set(0));
                alloc_arm(false);
                DRAIN_CALLS.with(|c| c.set(0));
                let _ = far_pixels_take();
                let fault = PROTOCOL_FAULT.with(|f| f.borrow_mut().take());
                let same = matches!(&again, Ok(s) if *s == res);
                ctx.count(&format!("consumption-mode-{}-reruns", mode));
                ctx.expect(same, "target-consumption-mode-changes-the-result", || {
                    let what = match &again { Ok(s) => { let mut t = s.clone(); t.truncate(160); t } Err(_) => "panic".to_string() };
                    format!("mode {} (1 for_each, 2 next then for_each, 3 size_hint + nth): {}", mode, what)
                });
                ctx.expect(fault.is_none(), "iterator-size-hint-does-not-bracket", || fault.clone().unwrap_or_default());
            }
        }
        // pixels an "unbounded" (+-2^20) recording target had to drop: the picture oracles of the op did not see them
        let (far, fx, fy) = far0;
        if far > 0 {
            if op_is_display_scale(op) {
                ctx.expect(false, "pixel-outside-the-recording-range", || {
                    format!("{} pixel(s) offered outside the +-2^20 recording range by an op of display scale, first ({},{})", far, fx, fy)
                });
            } else {
                ctx.count("obs:far-pixels-dropped-by-an-unbounded-target(op-with-coordinates-above-2^18)");
            }
        } else if op_is_display_scale(op) {
            // (evaluated for every op of display scale; the class name has no property prefix: it counts everywhere)
            ctx.expect(true, "pixel-outside-the-recording-range", String::new);
        }
        if res.starts_with("panic:") {
            ctx.count("result:panic");
            // a panic that the module did not turn into a result itself is always an oracle failure;
            // the class names the panic site (file + source text of the panicking line)
            let site = res.split(" @ ").nth(1).unwrap_or("").to_string();
            ctx.fail(&format!("panic@{}", site), res.clone());
        }
        writeln!(f_ops, "{}", op).unwrap();
        writeln!(f_impl, "{}", res).unwrap();
        if i % sample_every == 0 && samples.len() < 8 {
            let mut r = res.clone();
            if r.len() > 300 {
                r.truncate(300);
                r.push_str("...");
            }
            let mut o = op.clone();
            if o.len() > 300 {
                o.truncate(300);
                o.push_str("...");
            }
            samples.push((o, r));
        }
    }
    f_ops.flush().unwrap();
    f_impl.flush().unwrap();

    // failures whose class is prefixed with another property's id do not count for this check
    let mine = |class: &str| -> bool {
        let b = class.as_bytes();
        if b.len() > 4 && b[0] == b'C' && b[1].is_ascii_digit() && b[2].is_ascii_digit() && b[3] == b':' {
            &class[..3] == pid
        } else {
            true
        }
    };
    let mut f_or = std::io::BufWriter::new(std::fs::File::create(outdir.join("oracle.txt")).unwrap());
    let mut nfail = 0;
    for f in &ctx.failures {
        if mine(&f.class) {
            nfail += 1;
            writeln!(f_or, "{}\t{}\t{}", f.op_index, f.class, f.detail.replace(['\n', '\t'], " ")).unwrap();
        }
    }
    f_or.flush().unwrap();

    let rules: Vec<String> = wanted
        .iter()
        .map(|name| format!("[{}] {}", name, all.iter().find(|m| m.name() == *name).unwrap().rule()))
        .collect();
    let mut d = String::new();
    d.push_str("{\n");
    d.push_str(&format!(" \"property\": {},\n", json_str(pid)));
    d.push_str(&format!(" \"modules\": {},\n", json_str(&wanted.join(","))));
    d.push_str(&format!(" \"evaluations\": {},\n", n));
    d.push_str(&format!(" \"oracle_checks\": {},\n", ctx.oracle_checks));
    d.push_str(&format!(" \"distinct_nontrivial\": {},\n", ctx.nontrivial.len()));
    d.push_str(&format!(" \"rule\": {},\n", json_str(&rules.join(" ; "))));
    d.push_str(&format!(" \"oracle_failures\": {},\n", nfail));
    d.push_str(" \"counters\": {");
    let mut first = true;
    for (k, v) in &ctx.counters {
        if !first {
            d.push(',');
        }
        first = false;
        d.push_str(&format!("\n  {}: {}", json_str(k), v));
    }
    d.push_str("\n },\n \"classes_evaluated\": {");
    let mut ce: Vec<(&String, &u64)> = ctx.class_evals.iter().collect();
    ce.sort();
    for (i, (k, v)) in ce.iter().enumerate() {
        if i > 0 {
            d.push(',');
        }
        d.push_str(&format!("\n  {}: {}", json_str(k), v));
    }
    d.push_str("\n },\n \"samples\": [");
    for (i, (o, r)) in samples.iter().enumerate() {
        if i > 0 {
            d.push(',');
        }
        d.push_str(&format!("\n  {{\"op\": {}, \"impl\": {}}}", json_str(o), json_str(r)));
    }
    d.push_str("\n ]\n}\n");
    std::fs::write(outdir.join("dist.json"), d).unwrap();
}
