//! egv — correspondence harness and property oracles for embedded-graphics.
//!
//! usage: egv <property> <quick|thorough> <seed> <outdir> [--ops <file>]
//!
//! Writes into <outdir>:
//!   ops.txt     one operation per line (input of the Lean model driver)
//!   impl.txt    what the real library returned for that op, canonical text
//!   oracle.txt  `<op index>\t<class>\t<detail>` per oracle failure
//!   dist.json   evaluations, distinct non-trivial cases, counters (input distribution), samples
mod common;
mod c01;
mod c02;
mod c03;
mod c04;
mod c05;
mod c06;
mod c07;
mod c08;
mod c09;
mod c10;
mod c11;
mod c12;
mod c13;
mod c14;
mod c15;
mod c16;
mod c17;
mod c18;
mod c19;
mod c20;

use common::*;
use std::io::Write;

fn props() -> Vec<Box<dyn Prop>> {
    vec![
        Box::new(c01::C01),
        Box::new(c02::C02),
        Box::new(c03::C03),
        Box::new(c04::C04),
        Box::new(c05::C05),
        Box::new(c06::C06),
        Box::new(c07::C07),
        Box::new(c08::C08),
        Box::new(c09::C09),
        Box::new(c10::C10),
        Box::new(c11::C11),
        Box::new(c12::C12),
        Box::new(c13::C13),
        Box::new(c14::C14),
        Box::new(c15::C15),
        Box::new(c16::C16),
        Box::new(c17::C17),
        Box::new(c18::C18),
        Box::new(c19::C19),
        Box::new(c20::C20),
    ]
}

fn json_str(s: &str) -> String {
    let mut o = String::from("\"");
    for ch in s.chars() {
        match ch {
            '"' => o.push_str("\\\""),
            '\\' => o.push_str("\\\\"),
            '\n' => o.push_str("\\n"),
            '\t' => o.push_str("\\t"),
            c if (c as u32) < 0x20 => o.push_str(&format!("\\u{:04x}", c as u32)),
            c => o.push(c),
        }
    }
    o.push('"');
    o
}

fn main() {
    let args: Vec<String> = std::env::args().collect();
    if args.len() < 5 {
        eprintln!("usage: egv <property> <quick|thorough> <seed> <outdir> [--ops <file>]");
        std::process::exit(2);
    }
    let pid = args[1].as_str();
    let tier = if args[2] == "thorough" { Tier::Thorough } else { Tier::Quick };
    let seed: u64 = args[3].parse().unwrap_or(0);
    let outdir = std::path::PathBuf::from(&args[4]);
    let ops_file = if args.len() >= 7 && args[5] == "--ops" { Some(args[6].clone()) } else { None };
    std::fs::create_dir_all(&outdir).unwrap();

    let all = props();
    let prop = match all.iter().find(|p| p.id() == pid) {
        Some(p) => p,
        None => {
            eprintln!("unknown property {}", pid);
            std::process::exit(2);
        }
    };

    // quiet panics: they are results here (`panic:<message>`), not crashes
    std::panic::set_hook(Box::new(|_| {}));

    let mut ops: Vec<String> = Vec::new();
    if let Some(f) = ops_file {
        for l in std::fs::read_to_string(f).unwrap().lines() {
            if !l.trim().is_empty() {
                ops.push(l.to_string());
            }
        }
    } else {
        // corpus (minimised past failures and witnesses) first
        let corpus = std::path::Path::new(env!("CARGO_MANIFEST_DIR")).join("../corpus").join(format!("{}.ops", pid));
        if let Ok(s) = std::fs::read_to_string(corpus) {
            for l in s.lines() {
                if !l.trim().is_empty() && !l.starts_with('#') {
                    ops.push(l.to_string());
                }
            }
        }
        let mut rng = Rng::new(seed);
        prop.generate(tier, &mut rng, &mut |s| ops.push(s));
    }

    let mut ctx = Ctx::new(tier);
    let mut f_ops = std::io::BufWriter::new(std::fs::File::create(outdir.join("ops.txt")).unwrap());
    let mut f_impl = std::io::BufWriter::new(std::fs::File::create(outdir.join("impl.txt")).unwrap());
    let mut samples: Vec<(String, String)> = Vec::new();
    let n = ops.len();
    let sample_every = (n / 6).max(1);
    for (i, op) in ops.iter().enumerate() {
        ctx.cur_op = i;
        let res = {
            let c = &mut ctx;
            match std::panic::catch_unwind(std::panic::AssertUnwindSafe(|| prop.execute(op, c))) {
                Ok(s) => s,
                Err(e) => {
                    let msg = if let Some(s) = e.downcast_ref::<&str>() {
                        s.to_string()
                    } else if let Some(s) = e.downcast_ref::<String>() {
                        s.clone()
                    } else {
                        "?".to_string()
                    };
                    format!("panic:{}", msg.replace(['\n', '\t'], " "))
                }
            }
        };
        if res.starts_with("panic:") {
            ctx.count("result:panic");
            // a panic of the harness/library on an op is always an oracle failure unless the
            // property module turned it into a result itself
            ctx.fail("panic", res.clone());
        }
        writeln!(f_ops, "{}", op).unwrap();
        writeln!(f_impl, "{}", res).unwrap();
        if i % sample_every == 0 && samples.len() < 8 {
            let mut r = res.clone();
            if r.len() > 300 {
                r.truncate(300);
                r.push_str("...");
            }
            let mut o = op.clone();
            if o.len() > 300 {
                o.truncate(300);
                o.push_str("...");
            }
            samples.push((o, r));
        }
    }
    f_ops.flush().unwrap();
    f_impl.flush().unwrap();

    let mut f_or = std::io::BufWriter::new(std::fs::File::create(outdir.join("oracle.txt")).unwrap());
    for f in &ctx.failures {
        writeln!(f_or, "{}\t{}\t{}", f.op_index, f.class, f.detail.replace(['\n', '\t'], " ")).unwrap();
    }
    f_or.flush().unwrap();

    let mut d = String::new();
    d.push_str("{\n");
    d.push_str(&format!(" \"property\": {},\n", json_str(pid)));
    d.push_str(&format!(" \"evaluations\": {},\n", n));
    d.push_str(&format!(" \"oracle_checks\": {},\n", ctx.oracle_checks));
    d.push_str(&format!(" \"distinct_nontrivial\": {},\n", ctx.nontrivial.len()));
    d.push_str(&format!(" \"rule\": {},\n", json_str(prop.rule())));
    d.push_str(&format!(" \"oracle_failures\": {},\n", ctx.failures.len()));
    d.push_str(" \"counters\": {");
    let mut first = true;
    for (k, v) in &ctx.counters {
        if !first {
            d.push(',');
        }
        first = false;
        d.push_str(&format!("\n  {}: {}", json_str(k), v));
    }
    d.push_str("\n },\n \"samples\": [");
    for (i, (o, r)) in samples.iter().enumerate() {
        if i > 0 {
            d.push(',');
        }
        d.push_str(&format!("\n  {{\"op\": {}, \"impl\": {}}}", json_str(o), json_str(r)));
    }
    d.push_str("\n ]\n}\n");
    std::fs::write(outdir.join("dist.json"), d).unwrap();
}
