//! module `raw` (serves C11) — raw load/store and iteration round-trip in both data orders.
//!
//! Streams (every result line is compared with the Lean model `EG.Model.Raw`):
//!   raw.store <bits> <order 0|1> <bytes> <index> <value>
//!        -> `<ok|err> <bytes after> <load of every index 0 ..= pixel_count+1 after the store>`
//!   raw.load  <bits> <order> <bytes> <index>          -> `<value|none>`
//!   raw.iter  <bits> <order> <bytes> <script>          script item: -1 = next(), k >= 0 = nth(k)
//!        -> `<lo>,<hi>,<item|none>;...` (size_hint before each step, then the step's result)
//!           ` end=<lo>,<hi> rest=<items a for loop still sees>`
//!   order 0 = LittleEndianMsb0, 1 = BigEndianLsb0; <bytes> = comma list or `-`.
//!
//! Oracle (the property text as predicates on the real results, against an independent reference
//! that places every single bit by the documented layout, `ref_bit`):
//!   Lean statements mirrored (EG/Props/C11.lean): `load_store_same`, `load_store_other`,
//!   `store_touches_only`, `store_touches_only_bits`, `store_oob`, `load_oob`, `layout_subbyte`,
//!   `layout_u8`, `layout_multibyte`, `iter_toList`, `iter_next`, `iter_nth`, `size_hint_exact`,
//!   `size_hint_brackets`.
//!
//! Huge indices ARE generated (`usize::MAX / 4 + 1`, `usize::MAX / 2 + 1`, `usize::MAX`, ...): since
//! /repo commit e95846b the multi-byte `load`/`store` compute the byte offset with `checked_mul`, so
//! an index whose byte offset does not fit `usize` is rejected like any other index beyond the
//! buffer (`None` / `Err`, buffer unchanged); the model's `Nat` product + slice test says the same.
//! Iterator scripts drive the running position past `usize::MAX` (`nth(i64::MAX)` twice, then
//! `nth(2 + j)`): the real `nth` must saturate there; a wrapping add would yield item `j` again.
//! The oracle's reference position is the mathematical sum (u128), not a saturating one.
use crate::common::*;
use embedded_graphics::{iterator::raw::RawDataSlice, pixelcolor::raw::*};

pub struct M;

const DEPTHS: [u32; 7] = [1, 2, 4, 8, 16, 24, 32];

macro_rules! dispatch {
    ($bits:expr, $ord:expr, $f:ident ( $($a:expr),* )) => {
        match ($bits, $ord) {
            (1, 0) => $f::<RawU1, LittleEndianMsb0>($($a),*),
            (1, _) => $f::<RawU1, BigEndianLsb0>($($a),*),
            (2, 0) => $f::<RawU2, LittleEndianMsb0>($($a),*),
            (2, _) => $f::<RawU2, BigEndianLsb0>($($a),*),
            (4, 0) => $f::<RawU4, LittleEndianMsb0>($($a),*),
            (4, _) => $f::<RawU4, BigEndianLsb0>($($a),*),
            (8, 0) => $f::<RawU8, LittleEndianMsb0>($($a),*),
            (8, _) => $f::<RawU8, BigEndianLsb0>($($a),*),
            (16, 0) => $f::<RawU16, LittleEndianMsb0>($($a),*),
            (16, _) => $f::<RawU16, BigEndianLsb0>($($a),*),
            (24, 0) => $f::<RawU24, LittleEndianMsb0>($($a),*),
            (24, _) => $f::<RawU24, BigEndianLsb0>($($a),*),
            (32, 0) => $f::<RawU32, LittleEndianMsb0>($($a),*),
            (32, _) => $f::<RawU32, BigEndianLsb0>($($a),*),
            _ => panic!("bad depth"),
        }
    };
}

fn real_load<R: RawData, O: DataOrder>(buf: &[u8], i: usize) -> Option<u32>
where
    R::Storage: Into<u32>,
{
    R::load::<O>(buf, i).map(|r| r.into_inner().into())
}

fn real_store<R: RawData, O: DataOrder>(buf: &mut [u8], i: usize, v: u32) -> bool
where
    R::Storage: Into<u32>,
{
    R::from_u32(v).store::<O>(buf, i).is_ok()
}

/// runs an iterator script on the real `RawDataIterator`; returns per step (size_hint before, result),
/// the size_hint after the script and the items a `for` loop still sees.
#[allow(clippy::type_complexity)]
fn real_iter<R: RawData, O: DataOrder>(
    buf: &[u8],
    script: &[i64],
) -> (Vec<((usize, Option<usize>), Option<u32>)>, (usize, Option<usize>), Vec<u32>)
where
    R::Storage: Into<u32>,
{
    let mut it = RawDataSlice::<R, O>::new(buf).into_iter();
    let mut steps = Vec::new();
    for &k in script {
        let h = it.size_hint();
        let r = if k < 0 { it.next() } else { it.nth(k as usize) };
        steps.push((h, r.map(|r| r.into_inner().into())));
    }
    let end = it.size_hint();
    let mut rest = Vec::new();
    for r in it {
        rest.push(r.into_inner().into());
        if rest.len() > 8 * buf.len() + 8 {
            break; // runaway guard (reported by the oracle as a length mismatch)
        }
    }
    (steps, end, rest)
}

/// The same script again, then the rest consumed by internal iteration: (`fold`, `count()`, `last()`) - they must show
/// what the `for` loop of `real_iter` shows (round-5 seed C11-r5-1: a `fold` override that is wrong after a `next()`).
fn real_iter_internal<R: RawData, O: DataOrder>(buf: &[u8], script: &[i64]) -> (Vec<u32>, usize, Option<u32>)
where
    R::Storage: Into<u32>,
{
    let advanced = || {
        let mut it = RawDataSlice::<R, O>::new(buf).into_iter();
        for &k in script {
            let _ = if k < 0 { it.next() } else { it.nth(k as usize) };
        }
        it
    };
    let cap = 8 * buf.len() + 8;
    let folded = advanced().fold(Vec::new(), |mut v: Vec<u32>, r| {
        if v.len() <= cap {
            v.push(r.into_inner().into());
        }
        v
    });
    (folded, advanced().count(), advanced().last().map(|r| r.into_inner().into()))
}

// ---------------------------------------------------------------------------------------------
// Independent reference: the documented layout, one bit at a time.
// ---------------------------------------------------------------------------------------------

/// number of whole pixels in `len` bytes
pub(crate) fn pixel_count(bits: u32, len: usize) -> usize {
    len * 8 / bits as usize
}

/// `(byte index, bit position inside that byte, 0 = least significant)` of bit `k` of pixel `i`.
/// LittleEndianMsb0: multi-byte pixels least significant byte first; sub-byte pixels packed from
/// the most significant bits of each byte downwards. BigEndianLsb0: most significant byte first;
/// sub-byte pixels packed from the least significant bits upwards.
pub(crate) fn ref_bit(bits: u32, order: u32, i: usize, k: u32) -> (usize, u32) {
    if bits < 8 {
        let ppb = (8 / bits) as usize;
        let slot = (i % ppb) as u32;
        let base = if order == 0 { 8 - bits * (slot + 1) } else { bits * slot };
        (i / ppb, base + k)
    } else {
        let n = (bits / 8) as usize;
        let j = (k / 8) as usize;
        let off = if order == 0 { j } else { n - 1 - j };
        (i * n + off, k % 8)
    }
}

pub(crate) fn ref_fits(bits: u32, len: usize, i: usize) -> bool {
    (i as u128 + 1) * bits as u128 <= 8 * len as u128
}

pub(crate) fn ref_load(bits: u32, order: u32, buf: &[u8], i: usize) -> Option<u32> {
    if !ref_fits(bits, buf.len(), i) {
        return None;
    }
    let mut v = 0u32;
    for k in 0..bits {
        let (b, p) = ref_bit(bits, order, i, k);
        v |= (((buf[b] >> p) & 1) as u32) << k;
    }
    Some(v)
}

pub(crate) fn mask(bits: u32) -> u32 {
    if bits == 32 {
        u32::MAX
    } else {
        (1 << bits) - 1
    }
}

fn fmt_opt(v: Option<u32>) -> String {
    match v {
        Some(v) => v.to_string(),
        None => "none".into(),
    }
}
fn fmt_hint(h: (usize, Option<usize>)) -> String {
    format!("{},{}", h.0, h.1.map(|v| v.to_string()).unwrap_or_else(|| "none".into()))
}
fn parse_bytes(t: &mut Toks) -> Vec<u8> {
    t.u32_list().into_iter().map(|b| b as u8).collect()
}
fn parse_script(s: &str) -> Vec<i64> {
    if s == "-" {
        vec![]
    } else {
        s.split(',').map(|x| x.parse().expect("bad script item")).collect()
    }
}

fn background(pattern: u32, len: usize) -> Vec<u8> {
    (0..len)
        .map(|j| match pattern {
            0 => 0x00,
            1 => 0xFF,
            _ => ((j as u32 * 0x3B + 0xA5) ^ (j as u32 * j as u32 * 7)) as u8,
        })
        .collect()
}

fn values_for(bits: u32, tier: Tier, rng: &mut Rng, all16: bool) -> Vec<u32> {
    let m = mask(bits);
    if bits <= 8 {
        let mut v: Vec<u32> = (0..=m).collect();
        // values with bits above the mask: `new` must drop them
        v.push(m + 1);
        v.push(0xFFFF_FF00 | (m >> 1));
        v
    } else if bits == 16 && all16 {
        (0..=m).collect()
    } else {
        let mut v = vec![0, 1, m, m - 1, m >> 1, (m >> 1) + 1, 0x0102_0304 & m, 0x8040_2010 & m, 0x00FF_00FF & m, 0xFF00_FF00 & m, 0xA5C3_7E18 & m];
        if bits < 32 {
            v.push(m + 1); // masked to 0 by `new`
            v.push(0xFFFF_FFFF);
        }
        let n = if tier == Tier::Quick { 64 } else { 512 };
        for _ in 0..n {
            v.push((rng.next() as u32) & if rng.chance(1, 8) { u32::MAX } else { m });
        }
        v
    }
}

impl Module for M {
    fn name(&self) -> &'static str {
        "raw"
    }
    fn rule(&self) -> &'static str {
        "ops: every depth (1,2,4,8,16,24,32) x both data orders x buffer lengths 0..=L (L=6 quick, 12 thorough) x 3 background \
         patterns x every pixel index 0..=pixel_count+2 x values (all for <= 8 bit, all 65536 for 16 bit in the thorough tier, \
         boundary + seeded random above); iterator scripts of next()/nth(k) (all single nth(k) for k to pixel_count+2, scripts whose \
         running position passes usize::MAX so that nth must saturate, then seeded random scripts); the size_hint oracle \
         demands bracketing only (lower <= remaining <= upper), exactness is what the model comparison adds. A store op is non-trivial when the index is inside the buffer and the stored value differs \
         from the value loaded before; an iterator op when the buffer holds at least one pixel; a load op when it is inside. \
         distinct = distinct op text."
    }

    fn generate(&self, _pid: &str, tier: Tier, rng: &mut Rng, emit: &mut dyn FnMut(String)) {
        let max_len: usize = if tier == Tier::Quick { 6 } else { 12 };
        for &bits in &DEPTHS {
            for order in 0..2u32 {
                // --- store / load -------------------------------------------------------------
                let vals = values_for(bits, tier, rng, false);
                for len in 0..=max_len {
                    for pat in 0..3u32 {
                        let buf = background(pat, len);
                        let bs = fmt_list(buf.iter());
                        let count = pixel_count(bits, len);
                        for i in 0..=count + 2 {
                            emit(format!("raw.load {} {} {} {}", bits, order, bs, i));
                            // 8-bit: all 256 values at the first, last and first outside index; a sample elsewhere
                            let full = bits < 8 || i == 0 || i + 1 >= count && i <= count || len <= 2;
                            for (vi, v) in vals.iter().enumerate() {
                                if !full && bits == 8 && vi % 16 != (i + len) % 16 {
                                    continue;
                                }
                                if !full && bits > 8 && vi >= 11 && vi % 4 != (i + len) % 4 {
                                    continue;
                                }
                                emit(format!("raw.store {} {} {} {} {}", bits, order, bs, i, v));
                            }
                        }
                    }
                }
                if bits == 16 && tier == Tier::Thorough {
                    // all 16-bit values, at an inner index of a 7-byte buffer (one excess byte)
                    let buf = background(2, 7);
                    let bs = fmt_list(buf.iter());
                    for v in values_for(16, tier, rng, true) {
                        emit(format!("raw.store 16 {} {} 1 {}", order, bs, v));
                    }
                }
                // far outside indices
                // (incl. indices whose byte offset overflows usize: they must be rejected, not wrap around)
                for &i in &[1000usize, 1 << 20, 1 << 40, 1 << 61, 1 << 62, 1 << 63, usize::MAX / 4 + 1, usize::MAX / 3 + 1, usize::MAX / 2 + 1, usize::MAX / 2 + 2, usize::MAX - 1, usize::MAX] {
                    let bs = fmt_list(background(2, 5).iter());
                    emit(format!("raw.load {} {} {} {}", bits, order, bs, i));
                    emit(format!("raw.store {} {} {} {} 1", bits, order, bs, i));
                }
                // --- iterator -----------------------------------------------------------------
                for len in 0..=max_len {
                    for pat in 1..3u32 {
                        let buf = background(pat, len);
                        let bs = fmt_list(buf.iter());
                        let count = pixel_count(bits, len);
                        emit(format!("raw.iter {} {} {} -", bits, order, bs));
                        // all next(), two more than there are items
                        let all_next: Vec<i64> = (0..count.min(20) + 2).map(|_| -1).collect();
                        emit(format!("raw.iter {} {} {} {}", bits, order, bs, fmt_list(all_next.iter())));
                        if pat == 2 {
                            for k in 0..=count + 2 {
                                emit(format!("raw.iter {} {} {} {},-1,-1", bits, order, bs, k));
                                emit(format!("raw.iter {} {} {} -1,{},-1,0", bits, order, bs, k));
                            }
                            emit(format!("raw.iter {} {} {} {},-1,0", bits, order, bs, 1u64 << 40));
                            emit(format!("raw.iter {} {} {} {},-1,0", bits, order, bs, 1u64 << 62));
                            emit(format!("raw.iter {} {} {} -1,{},-1", bits, order, bs, (1u64 << 62) - 1));
                            // the running position passes usize::MAX: `nth` must saturate, not wrap.
                            // 0 -> 2^63-1 -> 2^64-2, then nth(2+j) would wrap to position j (item j again);
                            // after one next(): 1 -> 2^63 -> 2^64-1 (= usize::MAX exactly), nth(1+j) would wrap to j.
                            let big = i64::MAX;
                            emit(format!("raw.iter {} {} {} -1,{},{},2,-1", bits, order, bs, big, big));
                            for j in 0..=(count.min(6) + 1) {
                                emit(format!("raw.iter {} {} {} {},{},{},-1,0", bits, order, bs, big, big, 2 + j));
                                emit(format!("raw.iter {} {} {} -1,{},{},{},-1", bits, order, bs, big, big, 1 + j));
                            }
                            emit(format!("raw.iter {} {} {} {},{},{},{},0,-1", bits, order, bs, big, big, big, big));
                        }
                    }
                }
                let n_rand = if tier == Tier::Quick { 40 } else { 1000 };
                for _ in 0..n_rand {
                    let len = rng.range(0, max_len as i64 + 2) as usize;
                    let buf: Vec<u8> = (0..len).map(|_| rng.next() as u8).collect();
                    let count = pixel_count(bits, len) as i64;
                    let steps = rng.range(1, 10);
                    let script: Vec<i64> = (0..steps)
                        .map(|_| if rng.chance(1, 2) { -1 } else { rng.range(0, (count / 2).max(2)) })
                        .collect();
                    emit(format!("raw.iter {} {} {} {}", bits, order, fmt_list(buf.iter()), fmt_list(script.iter())));
                }
                // random store/load on random buffers
                let n_rand = if tier == Tier::Quick { 300 } else { 20_000 };
                for _ in 0..n_rand {
                    let len = rng.range(0, max_len as i64 + 4) as usize;
                    let buf: Vec<u8> = (0..len).map(|_| rng.next() as u8).collect();
                    let count = pixel_count(bits, len) as i64;
                    let i = rng.range(0, count + 1);
                    let v = (rng.next() as u32) & if rng.chance(1, 8) { u32::MAX } else { mask(bits) };
                    emit(format!("raw.store {} {} {} {} {}", bits, order, fmt_list(buf.iter()), i, v));
                }
            }
        }
    }

    fn execute(&self, op: &str, ctx: &mut Ctx) -> String {
        let mut t = Toks::new(op);
        let stream = t.str();
        let bits = t.u32();
        let order = t.u32();
        let buf = parse_bytes(&mut t);
        let len = buf.len();
        let count = pixel_count(bits, len);
        ctx.count(&format!("{}:bits={}:order={}", stream, bits, order));
        match stream {
            "raw.load" => {
                let i = t.usize();
                let got = dispatch!(bits, order, real_load(&buf, i));
                let want = ref_load(bits, order, &buf, i);
                // load_oob / layout: `None` exactly beyond the buffer, otherwise the documented bits
                ctx.expect(got.is_none() == !ref_fits(bits, len, i), "load-oob-none", || format!("{} got {:?}", op, got));
                ctx.expect(got == want, "load-layout", || format!("{} got {:?} want {:?}", op, got, want));
                if got.is_some() {
                    ctx.nontrivial(op);
                    ctx.count("load:inside");
                } else {
                    ctx.count("load:outside");
                }
                fmt_opt(got)
            }
            "raw.store" => {
                let i = t.usize();
                let v = t.u32();
                let vm = v & mask(bits);
                let before = buf.clone();
                let mut after = buf.clone();
                let loads_before: Vec<Option<u32>> = (0..count + 2).map(|j| dispatch!(bits, order, real_load(&before, j))).collect();
                let ok = dispatch!(bits, order, real_store(&mut after, i, v));
                let loads_after: Vec<Option<u32>> = (0..count + 2).map(|j| dispatch!(bits, order, real_load(&after, j))).collect();
                let fits = ref_fits(bits, len, i);
                ctx.count(if fits { "store:inside" } else { "store:outside" });
                if v != vm {
                    ctx.count("store:value-above-mask");
                }
                // store_oob: an index beyond the buffer returns an error and leaves the buffer unchanged
                ctx.expect(ok == fits, "store-oob-result", || format!("{} ok={} fits={}", op, ok, fits));
                if !ok {
                    ctx.expect(after == before, "store-oob-buffer-changed", || format!("{} after {:?}", op, after));
                } else if fits {
                    // load_store_same
                    let l = dispatch!(bits, order, real_load(&after, i));
                    ctx.expect(l == Some(vm), "load-store-same", || format!("{} load {:?} want {}", op, l, vm));
                    // store_touches_only + layout: every bit of the buffer is either bit k of pixel i
                    // (then it equals bit k of v) or unchanged
                    let mut own = vec![0u8; len];
                    for k in 0..bits {
                        let (b, p) = ref_bit(bits, order, i, k);
                        own[b] |= 1 << p;
                        let bit = (after[b] >> p) & 1;
                        ctx.expect(bit as u32 == (vm >> k) & 1, "store-layout-bit", || {
                            format!("{} bit {} of the value expected in byte {} position {}", op, k, b, p)
                        });
                    }
                    let foreign = (0..len).all(|b| (before[b] ^ after[b]) & !own[b] == 0);
                    ctx.expect(foreign, "store-touches-foreign-bits", || format!("{} before {:?} after {:?}", op, before, after));
                    // load_store_other: every other index loads what it loaded before
                    let others = (0..count + 2).all(|j| j == i || loads_before[j] == loads_after[j]);
                    ctx.expect(others, "load-store-other", || format!("{} before {:?} after {:?}", op, loads_before, loads_after));
                    if loads_before.get(i).copied().flatten() != Some(vm) {
                        ctx.nontrivial(op);
                    }
                }
                // layout of everything that is loaded afterwards
                let lay = (0..count + 2).all(|j| loads_after[j] == ref_load(bits, order, &after, j));
                ctx.expect(lay, "load-layout", || format!("{} loads {:?}", op, loads_after));
                format!(
                    "{} {} {}",
                    if ok { "ok" } else { "err" },
                    fmt_list(after.iter()),
                    fmt_list(loads_after.iter().map(|l| fmt_opt(*l)))
                )
            }
            "raw.iter" => {
                let script = parse_script(t.str());
                let (steps, end, rest) = dispatch!(bits, order, real_iter(&buf, &script));
                if count > 0 {
                    ctx.nontrivial(op);
                }
                // reference: position in [load 0, load 1, ...]
                let items: Vec<u32> = (0..count).map(|j| ref_load(bits, order, &buf, j).unwrap()).collect();
                // position as a mathematical integer: "nth skips accordingly" means k items are skipped,
                // however large k is (the real index saturates at usize::MAX, which is beyond every buffer)
                let mut pos: u128 = 0;
                let remaining_at = |pos: u128| -> usize { (count as u128).saturating_sub(pos) as usize };
                for (n, (h, r)) in steps.iter().enumerate() {
                    let remaining = remaining_at(pos);
                    // size_hint brackets the number of remaining items
                    ctx.expect(h.0 <= remaining && h.1.map_or(true, |u| remaining <= u), "size-hint-bracket", || {
                        format!("{} step {} hint {:?} remaining {}", op, n, h, remaining)
                    });
                    if *h == (remaining, Some(remaining)) {
                        ctx.count("iter:size-hint-exact");
                    } else {
                        ctx.count("iter:size-hint-inexact");
                    }
                    let k = script[n];
                    if k >= 0 {
                        pos += k as u128;
                        ctx.count("iter:nth");
                        if pos > usize::MAX as u128 {
                            ctx.count("iter:nth-position-beyond-usize-max");
                        }
                    } else {
                        ctx.count("iter:next");
                    }
                    let want = if pos < count as u128 { Some(items[pos as usize]) } else { None };
                    if want.is_some() {
                        pos += 1;
                    }
                    ctx.expect(*r == want, if k >= 0 { "iter-nth" } else { "iter-next" }, || {
                        format!("{} step {} got {:?} want {:?}", op, n, r, want)
                    });
                }
                let remaining = remaining_at(pos);
                ctx.expect(end.0 <= remaining && end.1.map_or(true, |u| remaining <= u), "size-hint-bracket", || {
                    format!("{} end hint {:?} remaining {}", op, end, remaining)
                });
                let want_rest: &[u32] = if pos < count as u128 { &items[pos as usize..] } else { &[] };
                ctx.expect(rest == want_rest, "iter-items", || format!("{} rest {:?} want {:?}", op, rest, want_rest));
                let (folded, cnt, last) = dispatch!(bits, order, real_iter_internal(&buf, &script));
                ctx.expect(folded == rest && cnt == rest.len() && last == rest.last().copied(), "iter-items-by-internal-iteration", || {
                    format!("{} fold {:?} count {} last {:?}; next() yields {:?}", op, folded, cnt, last, rest)
                });
                format!(
                    "{} end={} rest={}",
                    if steps.is_empty() {
                        "-".to_string()
                    } else {
                        steps.iter().map(|(h, r)| format!("{},{}", fmt_hint(*h), fmt_opt(*r))).collect::<Vec<_>>().join(";")
                    },
                    fmt_hint(end),
                    fmt_list(rest.iter())
                )
            }
            _ => panic!("unknown op {}", op),
        }
    }
}
