//! module `poly` (serves C19, polyline part; C07: `poly.translated` ops only) — `Polyline::points()`.
//!
//! Streams (compared with the Lean model `EG.Model.Polyline`):
//!   poly.points n x y x y ...            -> points of `Polyline::new(&vertices).points()` in order
//!   poly.translated tx ty n x y x y ...  -> points of `Polyline::new(&vertices).translate((tx,ty)).points()`
//!   (format of `m_line::pts_digest`: full list up to 64 points, digest beyond)
//!
//! Oracle (C19: "a one-pixel polyline equals the union of its segment lines with shared joints
//! emitted once"; Lean statement mirrored: `polyline_points`):
//!   C19:poly-union       points() = seg_0.points() ++ seg_1.points()[1..] ++ seg_2.points()[1..] ++ ..
//!                        where seg_i = Line(v_i, v_{i+1}) and `Line::points()` is the real thin-line
//!                        iterator (itself covered by C17); fewer than 2 vertices give no point.
//!                        In particular the joint v_{i+1} appears once at the seam (also through
//!                        zero-length segments: repeated vertices add nothing).
//!   C19:poly-draw        a stroke-width-1 styled polyline draws exactly that point set
//!   C07:poly-translate   translate(d).points() = points() shifted by d
use crate::common::*;
use crate::m_line::pts_digest;
use embedded_graphics::{
    pixelcolor::BinaryColor,
    prelude::*,
    primitives::{Line, Polyline, PrimitiveStyle},
};
use std::collections::BTreeSet;

pub struct M;

fn union_spec(vs: &[Point]) -> Vec<Point> {
    let mut out = Vec::new();
    for (i, w) in vs.windows(2).enumerate() {
        let seg: Vec<Point> = Line::new(w[0], w[1]).points().collect();
        out.extend_from_slice(if i == 0 { &seg[..] } else { &seg[1..] });
    }
    out
}

fn op_of(stream: &str, vs: &[(i64, i64)]) -> String {
    let mut s = format!("{} {}", stream, vs.len());
    for (x, y) in vs {
        s.push_str(&format!(" {} {}", x, y));
    }
    s
}

fn all_on_grid(g: i64, n: usize, ox: i64, oy: i64, emit: &mut dyn FnMut(String)) {
    let cells = (g * g) as usize;
    let total = cells.pow(n as u32);
    for mut k in 0..total {
        let mut vs = Vec::with_capacity(n);
        for _ in 0..n {
            let c = (k % cells) as i64;
            k /= cells;
            vs.push((ox + c % g, oy + c / g));
        }
        emit(op_of("poly.points", &vs));
    }
}

fn classify(ctx: &mut Ctx, vs: &[Point]) {
    ctx.count(&format!("poly:vertices={}", vs.len().min(7)));
    if vs.windows(2).any(|w| w[0] == w[1]) {
        ctx.count("poly:repeated-vertex");
    }
    if vs.windows(3).any(|w| w[0] == w[2] && w[0] != w[1]) {
        ctx.count("poly:reversal");
    }
}

impl Module for M {
    fn name(&self) -> &'static str {
        "poly"
    }
    fn rule(&self) -> &'static str {
        "all vertex lists of length 0..=N over a g x g grid (quick: N=4 on 3x3 and N=3 on 4x4; thorough: N=5 on 3x3, N=4 on 4x4), \
         i.e. including repeated vertices and reversals, then seeded random polylines with 0..=6 vertices, coordinates up to \
         +-300, forced repeats / reversals, and translated polylines; non-trivial = at least 3 vertices and at least 2 \
         distinct ones; distinct = distinct op text. C07: only poly.translated - all lists of 0..=3 vertices on a 3x3 grid \
         crossing the origin with 6 non-zero offsets rotating, then seeded random ones (0..=6 vertices within +-300, offsets \
         within +-300; quick 300, thorough 5000)"
    }

    fn generate(&self, pid: &str, tier: Tier, rng: &mut Rng, emit: &mut dyn FnMut(String)) {
        let quick = tier == Tier::Quick;
        if pid == "C07" {
            // C07: `translate(d).points()` = `points()` shifted by d (class C07:poly-translate; the model of
            // `poly.translated` is compared on the same ops): all lists of 2 / 3 vertices on a 3 x 3 grid crossing the
            // origin, offsets rotating through non-zero values on both sides of the axes, then seeded random ones
            const OFFS: [(i64, i64); 6] = [(1, 0), (0, -1), (-7, -9), (5, 3), (-3, 4), (64, -33)];
            let mut k = 0usize;
            for n in 0..=3usize {
                let cells = 9usize;
                for mut c in 0..cells.pow(n as u32) {
                    let mut vs = Vec::new();
                    for _ in 0..n {
                        let i = (c % cells) as i64;
                        c /= cells;
                        vs.push((-1 + (i % 3) * 2, -2 + (i / 3) * 3));
                    }
                    k += 1;
                    let d = OFFS[k % OFFS.len()];
                    let op = op_of("poly.translated", &vs);
                    emit(format!("poly.translated {} {} {}", d.0, d.1, op.strip_prefix("poly.translated ").unwrap()));
                }
            }
            for _ in 0..(if quick { 300 } else { 5000 }) {
                let n = rng.range(0, 6) as usize;
                let sc = *rng.pick(&[6i64, 40, 300]);
                let mut vs: Vec<(i64, i64)> = Vec::new();
                for j in 0..n {
                    let v = match rng.below(6) {
                        0 if j >= 1 => vs[j - 1],
                        1 if j >= 2 => vs[j - 2],
                        _ => (rng.range(-sc, sc), rng.range(-sc, sc)),
                    };
                    vs.push(v);
                }
                let d = if rng.chance(1, 4) { *rng.pick(&OFFS) } else { (rng.range(-300, 300), rng.range(-300, 300)) };
                let op = op_of("poly.translated", &vs);
                emit(format!("poly.translated {} {} {}", d.0, d.1, op.strip_prefix("poly.translated ").unwrap()));
            }
            return;
        }
        if pid != "C19" {
            return;
        }
        for n in 0..=(if quick { 4 } else { 5 }) {
            all_on_grid(3, n, -1, -1, emit);
        }
        for n in 2..=(if quick { 3 } else { 4 }) {
            all_on_grid(4, n, 2, -5, emit);
        }
        let nrand = if quick { 3000 } else { 50_000 };
        for i in 0..nrand {
            let n = rng.range(0, 6) as usize;
            let sc = *rng.pick(&[3i64, 6, 12, 40, 300]);
            let mut vs: Vec<(i64, i64)> = Vec::new();
            for k in 0..n {
                let v = match rng.below(8) {
                    0 if k >= 1 => vs[k - 1],                      // repeated vertex
                    1 if k >= 2 => vs[k - 2],                      // reversal
                    2 if k >= 1 => (vs[k - 1].0 + rng.range(-sc, sc), vs[k - 1].1), // horizontal segment
                    3 if k >= 1 => (vs[k - 1].0, vs[k - 1].1 + rng.range(-sc, sc)), // vertical segment
                    _ => (rng.range(-sc, sc), rng.range(-sc, sc)),
                };
                vs.push(v);
            }
            if i % 4 == 3 {
                let op = op_of("poly.translated", &vs);
                let rest = op.strip_prefix("poly.translated ").unwrap().to_string();
                emit(format!("poly.translated {} {} {}", rng.range(-50, 50), rng.range(-50, 50), rest));
            } else {
                emit(op_of("poly.points", &vs));
            }
        }
    }

    fn execute(&self, op: &str, ctx: &mut Ctx) -> String {
        let mut t = Toks::new(op);
        let stream = t.str();
        let d = if stream == "poly.translated" { t.point() } else { Point::zero() };
        if stream != "poly.points" && stream != "poly.translated" {
            panic!("unknown op {}", op);
        }
        let n = t.usize();
        let vs: Vec<Point> = (0..n).map(|_| t.point()).collect();
        classify(ctx, &vs);
        let distinct: BTreeSet<(i32, i32)> = vs.iter().map(|p| (p.x, p.y)).collect();
        if vs.len() >= 3 && distinct.len() >= 2 {
            ctx.nontrivial(op);
        }
        let base = Polyline::new(&vs);
        let pl = if stream == "poly.translated" { base.translate(d) } else { base };
        let pts: Vec<Point> = pl.points().collect();
        if pts.len() <= 300 {
            iter_protocol_check(ctx, "iterator-protocol:polyline-points", pl.points(), 300);
        }
        // the union of the segment lines, joints once
        let moved: Vec<Point> = vs.iter().map(|p| *p + d).collect();
        let spec = union_spec(&moved);
        ctx.expect(pts == spec, "C19:poly-union", || {
            format!("vertices {:?} translate {:?}: {} points, union of segments has {}", vs, d, pts.len(), spec.len())
        });
        if stream == "poly.translated" {
            ctx.count("poly:translated");
            let shifted: Vec<Point> = base.points().map(|p| p + d).collect();
            ctx.expect(pts == shifted, "C07:poly-translate", || format!("vertices {:?} translate {:?}", vs, d));
        }
        // a one-pixel styled polyline draws exactly these points
        let mut r1: R1<BinaryColor> = R1::unbounded();
        let res = pl.into_styled(PrimitiveStyle::with_stroke(BinaryColor::On, 1)).draw(&mut r1);
        let drawn: BTreeSet<(i32, i32)> = r1.rec.map.keys().map(|(y, x)| (*x, *y)).collect();
        let want: BTreeSet<(i32, i32)> = spec.iter().map(|p| (p.x, p.y)).collect();
        ctx.expect(res.is_ok() && drawn == want, "C19:poly-draw", || {
            format!("vertices {:?} translate {:?}: drawn {} px, union has {}", vs, d, drawn.len(), want.len())
        });
        // ... also on bounded targets that cut it on either side: what is inside the target is drawn (a polyline moved
        // into view by its `translate` field is visible although its raw vertices are outside: seeded changes C19-r3-3 /
        // C07-r3-1 skipped it by testing the UNtranslated box against the target)
        if !spec.is_empty() {
            let (x0, x1) = (spec.iter().map(|p| p.x).min().unwrap(), spec.iter().map(|p| p.x).max().unwrap());
            let (y0, y1) = (spec.iter().map(|p| p.y).min().unwrap(), spec.iter().map(|p| p.y).max().unwrap());
            let (w, h) = ((x1 - x0 + 1) as u32, (y1 - y0 + 1) as u32);
            let (w3, h3) = ((w / 3) as i32 + 1, (h / 3) as i32 + 1);
            for tl in [Point::new(x0 + w3, y0 + h3), Point::new(x0 - w3, y0 - h3), Point::new(x0, y0)] {
                let b = embedded_graphics::primitives::Rectangle::new(tl, Size::new(w, h));
                let mut r2: R2<BinaryColor> = R2::new(b);
                let res = pl.into_styled(PrimitiveStyle::with_stroke(BinaryColor::On, 1)).draw(&mut r2);
                let drawn: BTreeSet<(i32, i32)> = r2.rec.map.keys().map(|(y, x)| (*x, *y)).collect();
                let wantb: BTreeSet<(i32, i32)> = want.iter().filter(|(x, y)| b.contains(Point::new(*x, *y))).copied().collect();
                if wantb.len() != want.len() {
                    ctx.count("poly:cut-by-a-bounded-target");
                }
                ctx.expect(res.is_ok() && drawn == wantb, "C19:poly-draw-on-bounded-target", || {
                    format!("vertices {:?} translate {:?} box {}: drawn {} px, expected {}", vs, d, fmt_rect(&b), drawn.len(), wantb.len())
                });
                // the same box on a draw_iter-only target
                let mut r1b: R1<BinaryColor> = R1::new(b);
                let res = pl.into_styled(PrimitiveStyle::with_stroke(BinaryColor::On, 1)).draw(&mut r1b);
                let drawn: BTreeSet<(i32, i32)> = r1b.rec.map.keys().map(|(y, x)| (*x, *y)).collect();
                ctx.expect(res.is_ok() && drawn == wantb, "C19:poly-draw-on-bounded-target", || {
                    format!("vertices {:?} translate {:?} draw_iter-only box {}: drawn {} px, expected {}", vs, d, fmt_rect(&b), drawn.len(), wantb.len())
                });
            }
            // degenerate boxes (empty, flat, disjoint) on both kinds of target: nothing is drawn
            let own = embedded_graphics::primitives::Rectangle::new(Point::new(x0, y0), Size::new(w, h));
            for (name, b) in degenerate_boxes(&own) {
                let (mut d1, mut d2): (R1<BinaryColor>, R2<BinaryColor>) = (R1::new(b), R2::new(b));
                let s1 = pl.into_styled(PrimitiveStyle::with_stroke(BinaryColor::On, 1));
                let ok = s1.draw(&mut d1).is_ok() && s1.draw(&mut d2).is_ok();
                let wantb = restrict_map(&r1.rec.map, &b);
                ctx.count("poly:degenerate-bounded-target");
                ctx.expect(ok && d1.rec.map == wantb && d2.rec.map == wantb, "C19:poly-draw-on-bounded-target", || {
                    format!("vertices {:?} translate {:?} {} box {}: drawn {} / {} px, expected {}", vs, d, name, fmt_rect(&b), d1.rec.map.len(), d2.rec.map.len(), wantb.len())
                });
            }
        }
        pts_digest(&pts)
    }
}
