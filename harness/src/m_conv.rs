//! module `conv` (serves C13) — colour conversions scale to the nearest value and preserve the extremes.
//!
//! Streams (compared with the Lean model `EG.Model.Conv` over the generated `EG.Generated.convTable`):
//!   conv.pairs                  -> From>To:kind;... sorted — the harness's own list of `impl From<A> for B`
//!                                  (each entry below only compiles if the impl exists) against the translator's
//!                                  table: a conversion added to or removed from the source shows as a disagreement
//!                                  (kind 0 rgbRgb 1 grayGray 2 grayRgb 3 rgbGray 4 fromBinary 5 grayBinary 6 rgbBinary)
//!   conv.c <From> <To> x y z    -> raw value of To::from(src), src = From::new(x,y,z) | From::new(x) | (x != 0)
//!
//! Oracle (property text on the real results; Lean statements mirrored: `C13.channelwise`,
//! `nearest`, `monotone`, `black_white`, `widen_roundtrip`, `same_depth_keeps_channels`,
//! `gray_rgb_equal_scaling`, `gray_rgb_gray_roundtrip`, `gray_binary_threshold`, `rgb_binary_threshold`):
//!   extremes   black -> black, white -> white (BinaryColor: Off / On)
//!   nearest    RGB->RGB, gray->gray, gray->RGB: every target channel t of source channel v satisfies
//!              |2*F*t - 2*v*T| <= F (F, T the channel maxima): the representable value nearest to v*T/F
//!   monotone   raising one source channel by one never lowers any target channel (RGB->gray/binary included)
//!   widening   if every target channel has at least as many bits, converting back gives the source
//!              (RGB<->RGB, gray<->gray, gray->RGB->gray)
//!   same depth equal maxima in all channels (RGB<->BGR): channels unchanged
//!   binary     gray -> binary: On iff 2*luma >= MAX+1; RGB -> binary: On iff Gray8::from(c).luma() >= 128
//!              (this one takes the luma from the library, so it checks the threshold, not the luma)
//!   rgb->gray  (text: "the representable value nearest to the exactly scaled one") the result is the library's own
//!              8-bit luma of the source (`Into<Gray8>`) scaled to the target's range to the nearest value
//!              (class C13:rgb-gray-not-nearest-to-scaled-luma); with extremes and monotone this is all the text says
//!              of RGB -> gray: it names no weights.
//!   luma       NOT the text, a TIE (classes `C13:tie-hypothesis:rgb-gray-luma-is-bt601`,
//!              `C13:tie-hypothesis:rgb-binary-luma-is-bt601`: a failure is reported as a broken tie without failing
//!              input): RGB -> gray / binary against an INDEPENDENT exact ITU-R BT.601 luma, computed here in
//!              integers and never through the library: r8 g8 b8 = each source channel scaled to 0..=255
//!              to the nearest integer (never a tie), S = 299 r8 + 587 g8 + 114 b8 = 1000 x the exact luma Y.
//!              RGB -> Gray8: |out - Y| <= 1;  RGB -> Gray4/Gray2 (T = 15/3): |out - Y*T/255| <= 1/2 + T/255
//!              (the result is the nearest target value of an 8-bit luma that is within 1 of Y);
//!              RGB -> BinaryColor: On required for Y >= 129, Off required for Y < 127 (one step around the
//!              middle 128 of 0..=255 is left open, and counted).
//!              Why 1: the code's 8-bit luma is (77 r8 + 150 g8 + 29 b8 + 128) / 256, i.e. the BT.601
//!              coefficients rounded to 1/256 (error of the weighted sum <= 255 * 456/256000 = 0.4542) and one
//!              rounding to an integer (<= 1/2): 0.9542 < 1, proved for the model as `C13.luma_close_bt601`,
//!              `rgb_gray_close`, `rgb_gray_within`, `rgb_binary_close`. Exchanged or changed weights (e.g.
//!              77 <-> 150: pure red gives 149 instead of 76.2) break this tie (and the correspondence).
use crate::common::*;
use crate::m_color::{CT, GRAY_TYPES, RGB_TYPES};
use embedded_graphics::pixelcolor::*;

pub struct M;

fn chan_max<C: CT>() -> Vec<u8> {
    match C::KIND {
        0 => vec![1],
        1 => vec![((1u32 << C::BPP) - 1) as u8],
        _ => C::MAXES.to_vec(),
    }
}

fn mk<C: CT>(ch: &[u8]) -> C {
    match C::KIND {
        0 => C::from_u32((ch[0] != 0) as u32).1,
        1 => C::new1(ch[0]).unwrap(),
        _ => C::new3(ch[0], ch[1], ch[2]).unwrap(),
    }
}

fn kind_code<A: CT, B: CT>() -> u32 {
    let rgb = |k: u32| k == 2 || k == 3;
    match (A::KIND, B::KIND) {
        (a, b) if rgb(a) && rgb(b) => 0,
        (1, 1) => 1,
        (1, b) if rgb(b) => 2,
        (a, 1) if rgb(a) => 3,
        (0, _) => 4,
        (1, 0) => 5,
        (a, 0) if rgb(a) => 6,
        _ => 99,
    }
}

fn nearest(v: u8, f: u8, t: u8, out: u8) -> bool {
    let (v, f, t, out) = (v as i64, f as i64, t as i64, out as i64);
    (2 * f * out - 2 * v * t).abs() <= f
}

/// channel value `v` of maximum `m` scaled to 0..=255: the integer nearest to v*255/m
/// (2*v*255 is even and m is odd, so v*255/m is never half way between two integers)
fn scale8(v: u8, m: u8) -> i64 {
    (2 * v as i64 * 255 + m as i64) / (2 * m as i64)
}

/// 1000 x the exact BT.601 luma 0.299 R + 0.587 G + 0.114 B of the channels scaled to 8 bits
fn bt601_milli(ch: &[u8], max: &[u8]) -> i64 {
    299 * scale8(ch[0], max[0]) + 587 * scale8(ch[1], max[1]) + 114 * scale8(ch[2], max[2])
}

fn op_conv<A, B>(x: u8, y: u8, z: u8, ctx: &mut Ctx) -> String
where
    A: CT + From<B> + Into<Gray8>,
    B: CT + From<A>,
{
    let fmax = chan_max::<A>();
    let tmax = chan_max::<B>();
    let src: A = mk::<A>(&[x, y, z]);
    let sch = src.channels();
    let dst: B = B::from(src);
    let dch = dst.channels();
    let kind = kind_code::<A, B>();
    ctx.count(&format!("kind:{}", kind));
    let is_black = sch.iter().all(|c| *c == 0);
    let is_white = sch.iter().zip(fmax.iter()).all(|(c, m)| c == m);
    // extremes
    if is_black {
        ctx.count("src:black");
        ctx.expect(dch.iter().all(|c| *c == 0), "C13:black-not-black", || format!("{}->{} {:?} -> {:?}", A::NAME, B::NAME, src, dst));
    }
    if is_white {
        ctx.count("src:white");
        ctx.expect(dch.iter().zip(tmax.iter()).all(|(c, m)| c == m), "C13:white-not-white", || {
            format!("{}->{} {:?} -> {:?}", A::NAME, B::NAME, src, dst)
        });
    }
    ctx.expect(dch.iter().zip(tmax.iter()).all(|(c, m)| c <= m), "C13:target-channel-range", || format!("{:?}", dst));
    // nearest, per channel
    match kind {
        0 | 1 => {
            for i in 0..sch.len() {
                ctx.expect(nearest(sch[i], fmax[i], tmax[i], dch[i]), "C13:channel-not-nearest", || {
                    format!("{}->{} lane {}: {} of {} -> {} of {}", A::NAME, B::NAME, i, sch[i], fmax[i], dch[i], tmax[i])
                });
            }
        }
        2 => {
            // gray -> RGB: every channel is the luma scaled to that channel's width
            for i in 0..3 {
                ctx.expect(nearest(sch[0], fmax[0], tmax[i], dch[i]), "C13:gray-to-rgb-not-equally-scaled", || {
                    format!("{}->{} luma {} of {} -> lane {} = {} of {}", A::NAME, B::NAME, sch[0], fmax[0], i, dch[i], tmax[i])
                });
            }
        }
        3 => {
            // RGB -> gray. The text names no luma weights: what it says of this conversion is black / white / monotone
            // (checked above and below for every pair) and "the representable value nearest to the exactly scaled one",
            // i.e. the result is the library's own 8-bit luma of the source (`Into<Gray8>`) scaled to the target's range:
            let g8: Gray8 = src.into();
            let (t, out) = (tmax[0] as i64, dch[0] as i64);
            ctx.expect(nearest(g8.luma(), 255, tmax[0], dch[0]), "C13:rgb-gray-not-nearest-to-scaled-luma", || {
                format!("{}->{} {:?}: luma {} of {}, but the 8-bit luma of the source is {}", A::NAME, B::NAME, src, out, t, g8.luma())
            });
            // NOT the text: that this luma is the BT.601 one (what `luma_weights_bt601` / `rgb_gray_close` prove of the
            // model's weights 77/150/29 : 256) is validated on the real code as a tie (a failure is a broken tie, not a
            // failing input): close to the exact BT.601 luma of the source, scaled to the target's range
            let s1000 = bt601_milli(&sch, &fmax);
            let ok = if t == 255 {
                (1000 * out - s1000).abs() <= 1000
            } else {
                (510_000 * out - 2 * t * s1000).abs() <= 255_000 + 2000 * t
            };
            ctx.expect(ok, "C13:tie-hypothesis:rgb-gray-luma-is-bt601", || {
                format!("{}->{} {:?}: luma {} of {}, exact BT.601 luma of the 8-bit channels {}/1000", A::NAME, B::NAME, src, out, t, s1000)
            });
            // how many results are the value nearest to the exact scaled luma (the others are one off)
            if (510_000 * out - 2 * t * s1000).abs() <= 255_000 {
                ctx.count("rgb-gray:nearest-to-exact-luma");
            } else {
                ctx.count("rgb-gray:next-to-nearest");
            }
        }
        _ => {}
    }
    // same depth (RGB <-> BGR, equal maxima): channels kept
    if kind == 0 && fmax == tmax {
        ctx.count("same-depth");
        ctx.expect(sch == dch, "C13:same-depth-changes-channels", || format!("{}->{} {:?} -> {:?}", A::NAME, B::NAME, sch, dch));
    }
    // widening and back
    let wide = match kind {
        0 | 1 => fmax.iter().zip(tmax.iter()).all(|(f, t)| t >= f),
        2 => tmax.iter().all(|t| *t >= fmax[0]),
        _ => false,
    };
    if wide {
        ctx.count("widening");
        let back: A = A::from(dst);
        ctx.expect(back == src, "C13:widening-roundtrip", || format!("{}->{}->{}: {:?} -> {:?} -> {:?}", A::NAME, B::NAME, A::NAME, src, dst, back));
    }
    // monotone in each source channel
    if A::KIND != 0 {
        for lane in 0..sch.len() {
            if sch[lane] < fmax[lane] {
                let mut up = sch.clone();
                up[lane] += 1;
                while up.len() < 3 {
                    up.push(0);
                }
                let d2: B = B::from(mk::<A>(&up));
                let d2ch = d2.channels();
                ctx.expect(d2ch.iter().zip(dch.iter()).all(|(n, o)| n >= o), "C13:not-monotone", || {
                    format!("{}->{} lane {}: {:?} -> {:?} but +1 -> {:?}", A::NAME, B::NAME, lane, sch, dch, d2ch)
                });
            }
        }
    }
    // binary thresholds
    if kind == 5 {
        let on = 2 * sch[0] as u32 >= fmax[0] as u32 + 1;
        ctx.expect((dch[0] == 1) == on, "C13:gray-binary-threshold", || format!("{} luma {} -> {:?}", A::NAME, sch[0], dst));
    }
    if kind == 6 {
        let g: Gray8 = src.into();
        let on = g.luma() >= 128;
        ctx.expect((dch[0] == 1) == on, "C13:rgb-binary-threshold", || format!("{} {:?} luma {} -> {:?}", A::NAME, src, g.luma(), dst));
        // NOT the text (it names no weights; the clause "On exactly for the upper half of the luma range" is the class
        // above, on the library's own luma): that the luma is the exact BT.601 one to within one 8-bit step, validated as
        // a tie (`rgb_binary_close` proves it of the model)
        let s1000 = bt601_milli(&sch, &fmax);
        if s1000 >= 129_000 {
            ctx.count("rgb-binary:exact-luma-upper-half");
            ctx.expect(dch[0] == 1, "C13:tie-hypothesis:rgb-binary-luma-is-bt601", || format!("{} {:?} exact luma {}/1000 -> {:?}", A::NAME, src, s1000, dst));
        } else if s1000 < 127_000 {
            ctx.count("rgb-binary:exact-luma-lower-half");
            ctx.expect(dch[0] == 0, "C13:tie-hypothesis:rgb-binary-luma-is-bt601", || format!("{} {:?} exact luma {}/1000 -> {:?}", A::NAME, src, s1000, dst));
        } else {
            ctx.count("rgb-binary:exact-luma-within-one-step-of-128");
        }
    }
    format!("{}", dst.raw())
}

/// One entry per `impl From<A> for B` the harness knows; an entry only compiles if the impl exists
/// (and its reverse, which the widening check uses).
macro_rules! conv_table {
    ($( $from:ident => [$($to:ident),*] ;)*) => {
        pub const PAIRS: &[(&str, &str)] = &[ $( $( (stringify!($from), stringify!($to)), )* )* ];
        fn dispatch(from: &str, to: &str, x: u8, y: u8, z: u8, ctx: &mut Ctx) -> Option<String> {
            $( $(
                if from == stringify!($from) && to == stringify!($to) {
                    return Some(op_conv::<$from, $to>(x, y, z, ctx));
                }
            )* )*
            None
        }
        fn pair_lines() -> Vec<String> {
            let mut v = Vec::new();
            $( $( v.push(format!("{}>{}:{}", stringify!($from), stringify!($to), kind_code::<$from, $to>())); )* )*
            v
        }
    };
}

// `impl From<Gray8> for Gray8` is the reflexive impl; the `Into<Gray8>` bound of op_conv needs nothing else.
conv_table! {
    Rgb332 => [Rgb444, Rgb555, Bgr555, Rgb565, Bgr565, Rgb666, Bgr666, Rgb888, Bgr888, Gray2, Gray4, Gray8, BinaryColor];
    Rgb444 => [Rgb332, Rgb555, Bgr555, Rgb565, Bgr565, Rgb666, Bgr666, Rgb888, Bgr888, Gray2, Gray4, Gray8, BinaryColor];
    Rgb555 => [Rgb332, Rgb444, Bgr555, Rgb565, Bgr565, Rgb666, Bgr666, Rgb888, Bgr888, Gray2, Gray4, Gray8, BinaryColor];
    Bgr555 => [Rgb332, Rgb444, Rgb555, Rgb565, Bgr565, Rgb666, Bgr666, Rgb888, Bgr888, Gray2, Gray4, Gray8, BinaryColor];
    Rgb565 => [Rgb332, Rgb444, Rgb555, Bgr555, Bgr565, Rgb666, Bgr666, Rgb888, Bgr888, Gray2, Gray4, Gray8, BinaryColor];
    Bgr565 => [Rgb332, Rgb444, Rgb555, Bgr555, Rgb565, Rgb666, Bgr666, Rgb888, Bgr888, Gray2, Gray4, Gray8, BinaryColor];
    Rgb666 => [Rgb332, Rgb444, Rgb555, Bgr555, Rgb565, Bgr565, Bgr666, Rgb888, Bgr888, Gray2, Gray4, Gray8, BinaryColor];
    Bgr666 => [Rgb332, Rgb444, Rgb555, Bgr555, Rgb565, Bgr565, Rgb666, Rgb888, Bgr888, Gray2, Gray4, Gray8, BinaryColor];
    Rgb888 => [Rgb332, Rgb444, Rgb555, Bgr555, Rgb565, Bgr565, Rgb666, Bgr666, Bgr888, Gray2, Gray4, Gray8, BinaryColor];
    Bgr888 => [Rgb332, Rgb444, Rgb555, Bgr555, Rgb565, Bgr565, Rgb666, Bgr666, Rgb888, Gray2, Gray4, Gray8, BinaryColor];
    Gray2 => [Gray4, Gray8, Rgb332, Rgb444, Rgb555, Bgr555, Rgb565, Bgr565, Rgb666, Bgr666, Rgb888, Bgr888, BinaryColor];
    Gray4 => [Gray2, Gray8, Rgb332, Rgb444, Rgb555, Bgr555, Rgb565, Bgr565, Rgb666, Bgr666, Rgb888, Bgr888, BinaryColor];
    Gray8 => [Gray2, Gray4, Rgb332, Rgb444, Rgb555, Bgr555, Rgb565, Bgr565, Rgb666, Bgr666, Rgb888, Bgr888, BinaryColor];
    BinaryColor => [Rgb332, Rgb444, Rgb555, Bgr555, Rgb565, Bgr565, Rgb666, Bgr666, Rgb888, Bgr888, Gray2, Gray4, Gray8];
}

fn maxes_by_name(name: &str) -> Vec<u8> {
    use crate::with_color_type;
    with_color_type!(name, chan_max())
}

impl Module for M {
    fn name(&self) -> &'static str {
        "conv"
    }
    fn rule(&self) -> &'static str {
        "ops: for every ordered pair of types with a conversion: every source colour when the source has at most 16 bits; \
         otherwise every value of each source channel with the other channels at {0, max, random}; \
         black, white and the six primaries; seeded random source colours (quick 3000, thorough 60000 per pair). \
         Non-trivial = source is neither black nor white; distinct = distinct op text."
    }

    fn generate(&self, _pid: &str, tier: Tier, rng: &mut Rng, emit: &mut dyn FnMut(String)) {
        emit("conv.pairs".to_string());
        let _ = (RGB_TYPES, GRAY_TYPES);
        for (from, to) in PAIRS {
            let m = maxes_by_name(from);
            let n_ch = m.len();
            let mx = |i: usize| -> u32 {
                if i < n_ch {
                    m[i] as u32
                } else {
                    0
                }
            };
            let total_bits: u32 = m.iter().map(|v| (*v as u32).count_ones()).sum();
            let full = total_bits <= 16;
            if full {
                for x in 0..=mx(0) {
                    for y in 0..=mx(1) {
                        for z in 0..=mx(2) {
                            emit(format!("conv.c {} {} {} {} {}", from, to, x, y, z));
                        }
                    }
                }
                continue;
            }
            // corners (black, white, primaries)
            for k in 0..8u32 {
                emit(format!("conv.c {} {} {} {} {}", from, to, (k & 1) * mx(0), ((k >> 1) & 1) * mx(1), ((k >> 2) & 1) * mx(2)));
            }
            // each channel exhaustively, others at {0, max, random}
            for lane in 0..n_ch {
                for k in 0..3 {
                    let mut o = [0u32; 3];
                    for i in 0..3 {
                        o[i] = match k {
                            0 => 0,
                            1 => mx(i),
                            _ => rng.below(mx(i) as u64 + 1) as u32,
                        };
                    }
                    for v in 0..=mx(lane) {
                        let mut a = o;
                        a[lane] = v;
                        emit(format!("conv.c {} {} {} {} {}", from, to, a[0], a[1], a[2]));
                    }
                }
            }
            let n = if tier == Tier::Quick { 3000 } else { 60_000 };
            for _ in 0..n {
                emit(format!(
                    "conv.c {} {} {} {} {}",
                    from,
                    to,
                    rng.below(mx(0) as u64 + 1),
                    rng.below(mx(1) as u64 + 1),
                    rng.below(mx(2) as u64 + 1)
                ));
            }
        }
    }

    fn execute(&self, op: &str, ctx: &mut Ctx) -> String {
        let mut t = Toks::new(op);
        match t.str() {
            "conv.pairs" => {
                let mut v = pair_lines();
                v.sort();
                ctx.count_n("pairs", v.len() as u64);
                v.join(";")
            }
            "conv.c" => {
                let from = t.str();
                let to = t.str();
                let (x, y, z) = (t.u32(), t.u32(), t.u32());
                ctx.count(&format!("from:{}", from));
                let r = dispatch(from, to, x as u8, y as u8, z as u8, ctx);
                match r {
                    Some(s) => {
                        let m = maxes_by_name(from);
                        let a = [x, y, z];
                        let black = (0..m.len()).all(|i| a[i] == 0);
                        let white = (0..m.len()).all(|i| a[i] == m[i] as u32);
                        if !black && !white {
                            ctx.nontrivial(op);
                        }
                        s
                    }
                    None => {
                        ctx.count("noconv");
                        "noconv".to_string()
                    }
                }
            }
            other => panic!("unknown op {}", other),
        }
    }
}
