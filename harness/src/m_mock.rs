//! module `mock` (serves C20) — MockDisplay is a faithful test oracle.
//!
//! Streams (op lines; every result line is compared with the Lean model `EG.Model.MockDisplay`):
//!   mock.hist <ty> <ao> <ab> <k> <op>*k <ao2> <ab2> <k2> <op>*k2
//!       two histories on two fresh displays (flags allow_overdraw / allow_out_of_bounds_drawing);
//!       each history stops at its first panic (every real call runs under `catch_unwind`; the
//!       display is then inspected in the state the panic left it in).
//!       op tokens:  p:x,y,c  draw_pixel        i:x,y,c;x,y,c  draw_iter batch (`i:-` empty)
//!                   f:x,y,w,h,c  fill_solid    g:x,y,w,h:c,c,..  fill_contiguous (`-` no colours)
//!                   s:x,y,c | s:x,y,n  set_pixel Some(c) / None      c:c  clear
//!                   o:0|1  set_allow_overdraw  b:0|1  set_allow_out_of_bounds_drawing
//!       -> n=<ops completed> st=<ok|panic> c=<get_pixel dump of the 64x64 cells, row-major>
//!          aa=<affected_area> n2= st2= c2h=<fnv of the second dump> eq=<0|1> diff=<dump of diff()>
//!          dh=<fnv of the {:?} text> rt=<1|0|pw|ph|pr|pc: from_pattern(Debug rows) == display>
//!   mock.pattern <ty> <k> <|row>*k     (`_` stands for a space)
//!       -> ok c= aa= e=<empty rows> dbg=<Debug rows> rt= sw=<fnv swap_xy dump> mp=<fnv map dump>
//!        | err=<width|height|row|char>
//!   mock.get <x> <y>      get_pixel on a fixed display (cell i = None if i%3==0 else Some(i+1)), any i32
//!       -> some:<c> | none | panic
//!   mock.c2ch <ty> <c,..>       color_to_char, as char codes
//!   mock.ch2c <ty> <code,..>    char_to_color, `p` = panic
//!
//! Oracle: the property text as predicates against an independent reference (a plain HashMap
//! history kept by `RefD`, rectangles enumerated with i64 loops, palettes from a bit-layout table).
//!   Lean statements mirrored: `history_refines_map` (class get-pixel-last-drawn), `panics_iff`
//!   (panic-iff), `eq_iff_cells` / `diff_empty_iff` (eq-iff-cells, diff-empty-iff, diff-colours),
//!   `affected_area_tight` (affected-area-tight), `pattern_debug_roundtrip` /
//!   `debug_pattern_roundtrip` (pattern-debug-roundtrip, debug-rows, from-pattern-cells,
//!   from-pattern-panic), `char_color_roundtrip` (color-mapping-roundtrip).
use crate::common::*;
use embedded_graphics::{
    mock_display::{ColorMapping, MockDisplay},
    pixelcolor::*,
    prelude::*,
    primitives::Rectangle,
    Pixel,
};
use std::collections::HashMap;
use std::panic::{catch_unwind, AssertUnwindSafe};

pub struct M;

const TYPES: [&str; 12] = [
    "binary", "gray2", "gray4", "gray8", "rgb332", "rgb444", "rgb555", "bgr555", "rgb565", "bgr565", "rgb888", "bgr888",
];

/// raw bit width of a colour type
fn bits(ty: &str) -> u32 {
    match ty {
        "binary" => 1,
        "gray2" => 2,
        "gray4" => 4,
        "gray8" | "rgb332" => 8,
        "rgb444" => 12,
        "rgb555" | "bgr555" => 15,
        "rgb565" | "bgr565" => 16,
        _ => 24,
    }
}

/// (r bits, g bits, b bits, bgr order) — independent of the library's constants
fn layout(ty: &str) -> Option<(u32, u32, u32, bool)> {
    match ty {
        "rgb332" => Some((3, 3, 2, false)),
        "rgb444" => Some((4, 4, 4, false)),
        "rgb555" => Some((5, 5, 5, false)),
        "bgr555" => Some((5, 5, 5, true)),
        "rgb565" => Some((5, 6, 5, false)),
        "bgr565" => Some((5, 6, 5, true)),
        "rgb888" => Some((8, 8, 8, false)),
        "bgr888" => Some((8, 8, 8, true)),
        _ => None,
    }
}

/// The documented character set of a colour type with the colour each character stands for.
fn palette(ty: &str) -> Vec<(char, u32)> {
    match ty {
        "binary" => vec![('.', 0), ('#', 1)],
        "gray2" => "0123".chars().enumerate().map(|(i, c)| (c, i as u32)).collect(),
        "gray4" => "0123456789ABCDEF".chars().enumerate().map(|(i, c)| (c, i as u32)).collect(),
        "gray8" => "0123456789ABCDEF".chars().enumerate().map(|(i, c)| (c, i as u32 * 17)).collect(),
        _ => {
            let (rb, gb, bb, bgr) = layout(ty).unwrap();
            let (rp, gp, bp) = if bgr { (0, rb, rb + gb) } else { (gb + bb, bb, 0) };
            let r = ((1u32 << rb) - 1) << rp;
            let g = ((1u32 << gb) - 1) << gp;
            let b = ((1u32 << bb) - 1) << bp;
            vec![('K', 0), ('R', r), ('G', g), ('B', b), ('Y', r | g), ('M', r | b), ('C', g | b), ('W', r | g | b)]
        }
    }
}

/// characters `from_pattern` accepts (besides the space), with their colour
fn accepted(ty: &str, ch: char) -> Option<u32> {
    match ty {
        "gray4" | "gray8" => {
            let d = match ch {
                '0'..='9' => ch as u32 - '0' as u32,
                'a'..='f' => ch as u32 - 'a' as u32 + 10,
                'A'..='F' => ch as u32 - 'A' as u32 + 10,
                _ => return None,
            };
            Some(if ty == "gray8" { d * 17 } else { d })
        }
        _ => palette(ty).iter().find(|(c, _)| *c == ch).map(|(_, v)| *v),
    }
}

#[derive(Clone, Debug)]
enum Op {
    P(Point, u32),
    I(Vec<(Point, u32)>),
    F(Rectangle, u32),
    G(Rectangle, Vec<u32>),
    S(Point, Option<u32>),
    C(u32),
    O(bool),
    B(bool),
}

fn parse_i(s: &str) -> i32 {
    s.parse().expect("bad int")
}
fn parse_u(s: &str) -> u32 {
    s.parse().expect("bad nat")
}

fn nums(s: &str) -> Vec<&str> {
    s.split(',').collect()
}

fn parse_op(tok: &str) -> Op {
    let parts: Vec<&str> = tok.split(':').collect();
    match parts[0] {
        "p" => {
            let a = nums(parts[1]);
            Op::P(Point::new(parse_i(a[0]), parse_i(a[1])), parse_u(a[2]))
        }
        "i" => {
            if parts[1] == "-" {
                Op::I(vec![])
            } else {
                Op::I(
                    parts[1]
                        .split(';')
                        .map(|e| {
                            let a = nums(e);
                            (Point::new(parse_i(a[0]), parse_i(a[1])), parse_u(a[2]))
                        })
                        .collect(),
                )
            }
        }
        "f" => {
            let a = nums(parts[1]);
            Op::F(
                Rectangle::new(Point::new(parse_i(a[0]), parse_i(a[1])), Size::new(parse_u(a[2]), parse_u(a[3]))),
                parse_u(a[4]),
            )
        }
        "g" => {
            let a = nums(parts[1]);
            let cs = if parts[2] == "-" { vec![] } else { parts[2].split(',').map(parse_u).collect() };
            Op::G(Rectangle::new(Point::new(parse_i(a[0]), parse_i(a[1])), Size::new(parse_u(a[2]), parse_u(a[3]))), cs)
        }
        "s" => {
            let a = nums(parts[1]);
            Op::S(Point::new(parse_i(a[0]), parse_i(a[1])), if a[2] == "n" { None } else { Some(parse_u(a[2])) })
        }
        "c" => Op::C(parse_u(parts[1])),
        "o" => Op::O(parts[1] == "1"),
        "b" => Op::B(parts[1] == "1"),
        other => panic!("unknown mock op {}", other),
    }
}

/// Independent reference: the history as a plain map plus the two flags.
#[derive(Clone, Default)]
struct RefD {
    map: HashMap<(i32, i32), u32>,
    ao: bool,
    ab: bool,
    /// why the reference expects a panic (for the distribution)
    why: Option<&'static str>,
    skipped_outside: u64,
    overwrites: u64,
}
impl RefD {
    fn inside(p: (i64, i64)) -> bool {
        p.0 >= 0 && p.0 < 64 && p.1 >= 0 && p.1 < 64
    }
    /// property text: "Drawing panics exactly when a pixel lies outside the display or is drawn a
    /// second time while the respective check is enabled, and never otherwise."
    fn draw(&mut self, p: (i64, i64), c: u32) -> bool {
        if !Self::inside(p) {
            if !self.ab {
                self.why = Some("outside");
                return false;
            }
            self.skipped_outside += 1;
            return true;
        }
        let k = (p.0 as i32, p.1 as i32);
        if self.map.contains_key(&k) {
            if !self.ao {
                self.why = Some("twice");
                return false;
            }
            self.overwrites += 1;
        }
        self.map.insert(k, c);
        true
    }
    fn area_points(r: &Rectangle) -> Vec<(i64, i64)> {
        let mut v = Vec::new();
        for y in 0..r.size.height as i64 {
            for x in 0..r.size.width as i64 {
                v.push((r.top_left.x as i64 + x, r.top_left.y as i64 + y));
            }
        }
        v
    }
    /// true = completes, false = panics (the pixels before the offending one stay drawn)
    fn apply(&mut self, op: &Op) -> bool {
        match op {
            Op::P(p, c) => self.draw((p.x as i64, p.y as i64), *c),
            Op::I(px) => px.iter().all(|(p, c)| self.draw((p.x as i64, p.y as i64), *c)),
            Op::F(r, c) => Self::area_points(r).into_iter().all(|p| self.draw(p, *c)),
            Op::G(r, cs) => Self::area_points(r).into_iter().zip(cs.iter()).all(|(p, c)| self.draw(p, *c)),
            Op::C(c) => {
                let all = Rectangle::new(Point::zero(), Size::new(64, 64));
                Self::area_points(&all).into_iter().all(|p| self.draw(p, *c))
            }
            Op::S(p, c) => {
                if !Self::inside((p.x as i64, p.y as i64)) {
                    self.why = Some("set-outside");
                    return false;
                }
                match c {
                    Some(c) => {
                        self.map.insert((p.x, p.y), *c);
                    }
                    None => {
                        self.map.remove(&(p.x, p.y));
                    }
                }
                true
            }
            Op::O(v) => {
                self.ao = *v;
                true
            }
            Op::B(v) => {
                self.ab = *v;
                true
            }
        }
    }
    fn pmap(&self) -> PMap {
        self.map.iter().map(|((x, y), c)| ((*y, *x), *c)).collect()
    }
    /// tight bounding box of the touched cells, zero-sized rectangle at the origin if none
    fn bbox(&self) -> Rectangle {
        if self.map.is_empty() {
            return Rectangle::zero();
        }
        let x0 = self.map.keys().map(|k| k.0).min().unwrap();
        let x1 = self.map.keys().map(|k| k.0).max().unwrap();
        let y0 = self.map.keys().map(|k| k.1).min().unwrap();
        let y1 = self.map.keys().map(|k| k.1).max().unwrap();
        Rectangle::new(Point::new(x0, y0), Size::new((x1 - x0 + 1) as u32, (y1 - y0 + 1) as u32))
    }
}

fn apply_real<C: ColNum>(d: &mut MockDisplay<C>, op: &Op) {
    match op {
        Op::P(p, c) => d.draw_pixel(*p, C::from_num(*c)),
        Op::I(px) => d.draw_iter(px.iter().map(|(p, c)| Pixel(*p, C::from_num(*c)))).unwrap(),
        Op::F(r, c) => d.fill_solid(r, C::from_num(*c)).unwrap(),
        Op::G(r, cs) => d.fill_contiguous(r, cs.iter().map(|c| C::from_num(*c))).unwrap(),
        Op::S(p, c) => d.set_pixel(*p, c.map(C::from_num)),
        Op::C(c) => d.clear(C::from_num(*c)).unwrap(),
        Op::O(v) => d.set_allow_overdraw(*v),
        Op::B(v) => d.set_allow_out_of_bounds_drawing(*v),
    }
}

/// get_pixel over the 64 x 64 cells; None if a call panicked
fn dump<C: ColNum>(d: &MockDisplay<C>) -> Option<PMap> {
    catch_unwind(AssertUnwindSafe(|| {
        let mut m = PMap::new();
        for y in 0..64 {
            for x in 0..64 {
                if let Some(c) = d.get_pixel(Point::new(x, y)) {
                    m.insert((y, x), c.num());
                }
            }
        }
        m
    }))
    .ok()
}
fn fmt_dump(m: &Option<PMap>) -> String {
    match m {
        Some(m) => fmt_map(m),
        None => "panic".into(),
    }
}

struct Hist<C: ColNum> {
    d: MockDisplay<C>,
    n: usize,
    ok: bool,
    r: RefD,
    rn: usize,
    rok: bool,
    nops: usize,
}

fn run_history<C: ColNum>(t: &mut Toks) -> Hist<C> {
    let ao = t.u32() == 1;
    let ab = t.u32() == 1;
    let k = t.usize();
    let ops: Vec<Op> = (0..k).map(|_| parse_op(t.str())).collect();
    let mut d = MockDisplay::<C>::new();
    d.set_allow_overdraw(ao);
    d.set_allow_out_of_bounds_drawing(ab);
    let mut n = 0;
    let mut ok = true;
    for op in &ops {
        let dd = &mut d;
        if catch_unwind(AssertUnwindSafe(|| apply_real(dd, op))).is_err() {
            ok = false;
            break;
        }
        n += 1;
    }
    let mut r = RefD { ao, ab, ..Default::default() };
    let mut rn = 0;
    let mut rok = true;
    for op in &ops {
        if !r.apply(op) {
            rok = false;
            break;
        }
        rn += 1;
    }
    Hist { d, n, ok, r, rn, rok, nops: k }
}

/// (rows, empty rows reported) parsed from the `{:?}` text; None if the frame is not as documented
fn parse_debug(text: &str) -> Option<(Vec<String>, usize)> {
    let mut lines: Vec<&str> = text.split('\n').collect();
    if lines.pop() != Some("") || lines.pop() != Some("]") {
        return None;
    }
    if lines.is_empty() || lines.remove(0) != "MockDisplay[" {
        return None;
    }
    let mut skipped = 0;
    if let Some(last) = lines.last() {
        if last.starts_with('(') && last.ends_with(" empty rows skipped)") {
            skipped = last[1..last.len() - " empty rows skipped)".len()].parse().ok()?;
            lines.pop();
        }
    }
    Some((lines.iter().map(|s| s.to_string()).collect(), skipped))
}

fn classify_pattern_panic(msg: &str) -> &'static str {
    if msg.contains("must not be wider") {
        "width"
    } else if msg.contains("must not be taller") {
        "height"
    } else if msg.contains("Row #") {
        "row"
    } else if msg.contains("nvalid char in pattern") {
        "char"
    } else {
        "other"
    }
}

fn from_pattern_caught<C: ColNum + ColorMapping>(rows: &[&str]) -> Result<MockDisplay<C>, &'static str> {
    match catch_unwind(AssertUnwindSafe(|| MockDisplay::<C>::from_pattern(rows))) {
        Ok(d) => Ok(d),
        Err(e) => {
            let msg = if let Some(s) = e.downcast_ref::<&str>() {
                s.to_string()
            } else if let Some(s) = e.downcast_ref::<String>() {
                s.clone()
            } else {
                String::new()
            };
            Err(classify_pattern_panic(&msg))
        }
    }
}

/// `from_pattern` of the Debug rows: "1" same display, "0" different, "pw/ph/pr/pc" panic kind
fn round_trip<C: ColNum + ColorMapping>(d: &MockDisplay<C>) -> (String, Option<(Vec<String>, usize)>) {
    let text = format!("{:?}", d);
    let parsed = parse_debug(&text);
    let rt = match &parsed {
        None => "bad-frame".to_string(),
        Some((rows, _)) => {
            let refs: Vec<&str> = rows.iter().map(|s| s.as_str()).collect();
            match from_pattern_caught::<C>(&refs) {
                Ok(d2) => {
                    if d2 == *d && *d == d2 {
                        "1".into()
                    } else {
                        "0".into()
                    }
                }
                Err("width") => "pw".into(),
                Err("height") => "ph".into(),
                Err("row") => "pr".into(),
                Err("char") => "pc".into(),
                Err(_) => "p?".into(),
            }
        }
    };
    (rt, parsed)
}

/// Debug rows expected from a cell map: 64 columns, trailing empty rows dropped
fn expected_rows(ty: &str, m: &HashMap<(i32, i32), u32>) -> Option<(Vec<String>, usize)> {
    let pal = palette(ty);
    let last = m.keys().map(|k| k.1).max().map(|y| y + 1).unwrap_or(0);
    let mut rows = Vec::new();
    for y in 0..last {
        let mut s = String::new();
        for x in 0..64 {
            match m.get(&(x, y)) {
                None => s.push(' '),
                Some(c) => s.push(pal.iter().find(|(_, v)| v == c)?.0),
            }
        }
        rows.push(s);
    }
    Some((rows, 64 - last as usize))
}

fn hist<C: ColNum + ColorMapping>(ty: &str, op: &str, t: &mut Toks, ctx: &mut Ctx) -> String {
    let a = run_history::<C>(t);
    let b = run_history::<C>(t);
    ctx.count("hist");
    ctx.count(&format!("hist:flags:ao{}ab{}", a.r.ao as u8, a.r.ab as u8));
    ctx.count(&format!(
        "hist:len:{}",
        match a.nops {
            0 => "0",
            1..=3 => "1-3",
            4..=12 => "4-12",
            _ => "13+",
        }
    ));
    // --- panics_iff: panics exactly when the reference history says so, at the same operation
    for (h, which) in [(&a, "first"), (&b, "second")] {
        ctx.expect(h.ok == h.rok && h.n == h.rn, "panic-iff", || {
            format!("{} history: real n={} ok={} expected n={} ok={} ({:?})", which, h.n, h.ok, h.rn, h.rok, h.r.why)
        });
    }
    match a.r.why {
        Some(w) if !a.rok => ctx.count(&format!("hist:panic:{}", w)),
        _ => ctx.count("hist:complete"),
    }
    if a.r.skipped_outside > 0 {
        ctx.count("hist:outside-pixels-skipped");
    }
    if a.r.overwrites > 0 {
        ctx.count("hist:overdrawn");
    }
    if !a.r.map.is_empty() {
        ctx.nontrivial(op);
    }
    // --- history_refines_map: get_pixel = last colour drawn / None, for all 64 x 64 cells
    let da = dump(&a.d);
    let db = dump(&b.d);
    for (h, dm, which) in [(&a, &da, "first"), (&b, &db, "second")] {
        let want = h.r.pmap();
        ctx.expect(dm.as_ref() == Some(&want), "get-pixel-last-drawn", || {
            format!("{} history: get_pixel dump {} expected {}", which, fmt_dump(dm), fmt_map(&want))
        });
    }
    // --- affected_area_tight
    let aa = a.d.affected_area();
    let want_aa = a.r.bbox();
    ctx.expect(aa == want_aa, "affected-area-tight", || format!("affected_area {} expected {}", fmt_rect(&aa), fmt_rect(&want_aa)));
    let aab = b.d.affected_area();
    let want_aab = b.r.bbox();
    ctx.expect(aab == want_aab, "affected-area-tight", || format!("affected_area {} expected {}", fmt_rect(&aab), fmt_rect(&want_aab)));
    // --- eq_iff_cells, diff_empty_iff
    let eq = a.d == b.d;
    let same = a.r.map == b.r.map;
    ctx.count(if same { "hist:pair-equal" } else { "hist:pair-different" });
    ctx.expect(eq == same && (b.d == a.d) == same, "eq-iff-cells", || format!("eq={} but cells agree={}", eq, same));
    let df = a.d.diff(&b.d);
    let ddf = dump(&df);
    ctx.expect(ddf.as_ref().map(|m| m.is_empty()) == Some(same) && (df == MockDisplay::<Rgb888>::new()) == same, "diff-empty-iff", || {
        format!("diff={} but cells agree={}", fmt_dump(&ddf), same)
    });
    {
        // documented colour code of diff: green only in self, red only in other, blue both and different
        let mut want = PMap::new();
        for y in 0..64 {
            for x in 0..64 {
                let v = match (a.r.map.get(&(x, y)), b.r.map.get(&(x, y))) {
                    (Some(_), None) => Some(0x00FF00),
                    (None, Some(_)) => Some(0xFF0000),
                    (Some(s), Some(o)) if s != o => Some(0x0000FF),
                    _ => None,
                };
                if let Some(v) = v {
                    want.insert((y, x), v);
                }
            }
        }
        ctx.expect(ddf.as_ref() == Some(&want), "diff-colours", || format!("diff={} expected {}", fmt_dump(&ddf), fmt_map(&want)));
    }
    // --- Debug text and pattern round trip
    let text = format!("{:?}", a.d);
    let (rt, parsed) = round_trip(&a.d);
    match expected_rows(ty, &a.r.map) {
        Some(want) => {
            ctx.count("hist:debug-representable");
            ctx.expect(parsed.as_ref() == Some(&want), "debug-rows", || format!("Debug rows {:?} expected {:?}", parsed, want));
            ctx.expect(rt == "1", "pattern-debug-roundtrip", || format!("from_pattern(Debug rows) gives {}", rt));
        }
        None => {
            // a colour outside the type's character set: Debug prints '?', which no pattern accepts
            ctx.count("hist:debug-unrepresentable");
            ctx.expect(rt == "pc", "debug-unrepresentable-not-rejected", || format!("from_pattern(Debug rows) gives {}", rt));
        }
    }
    format!(
        "n={} st={} c={} aa={} n2={} st2={} c2h={} eq={} diff={} dh={} rt={}",
        a.n,
        if a.ok { "ok" } else { "panic" },
        fmt_dump(&da),
        fmt_rect(&aa),
        b.n,
        if b.ok { "ok" } else { "panic" },
        fnv(fmt_dump(&db).as_bytes()),
        eq as u8,
        fmt_dump(&ddf),
        fnv(text.as_bytes()),
        rt
    )
}

fn pattern<C: ColNum + ColorMapping>(ty: &str, op: &str, t: &mut Toks, ctx: &mut Ctx) -> String {
    let k = t.usize();
    let rows: Vec<String> = (0..k).map(|_| t.str()[1..].replace('_', " ")).collect();
    let refs: Vec<&str> = rows.iter().map(|s| s.as_str()).collect();
    ctx.count("pattern");
    let res = from_pattern_caught::<C>(&refs);
    // expectation from the documented contract (rows of equal width <= 64, <= 64 rows, characters
    // of the type's set or space)
    let width = rows.first().map_or(0, |r| r.len());
    let want_err = if width > 64 {
        Some("width")
    } else if rows.len() > 64 {
        Some("height")
    } else if rows.iter().any(|r| r.len() != width) {
        Some("row")
    } else if rows.iter().any(|r| r.chars().any(|c| c != ' ' && accepted(ty, c).is_none())) {
        Some("char")
    } else {
        None
    };
    match res {
        Err(kind) => {
            ctx.count(&format!("pattern:err:{}", kind));
            ctx.expect(want_err == Some(kind), "from-pattern-panic", || format!("panicked ({}) expected {:?}", kind, want_err));
            format!("err={}", kind)
        }
        Ok(d) => {
            ctx.count("pattern:ok");
            ctx.expect(want_err.is_none(), "from-pattern-panic", || format!("accepted, expected panic {:?}", want_err));
            let mut want: HashMap<(i32, i32), u32> = HashMap::new();
            for (y, r) in rows.iter().enumerate() {
                for (x, ch) in r.chars().enumerate() {
                    if let Some(c) = accepted(ty, ch) {
                        want.insert((x as i32, y as i32), c);
                    }
                }
            }
            if !want.is_empty() {
                ctx.nontrivial(op);
            }
            let dm = dump(&d);
            let wantm: PMap = want.iter().map(|((x, y), c)| ((*y, *x), *c)).collect();
            ctx.expect(dm.as_ref() == Some(&wantm), "from-pattern-cells", || format!("{} expected {}", fmt_dump(&dm), fmt_map(&wantm)));
            let (rt, parsed) = round_trip(&d);
            // Debug output = the pattern, normalised (upper-case digits, 64 columns, trailing empty rows dropped)
            let exp = expected_rows(ty, &want);
            ctx.expect(exp.is_some() && parsed == exp, "debug-rows", || format!("Debug rows {:?} expected {:?}", parsed, exp));
            ctx.expect(rt == "1", "pattern-debug-roundtrip", || format!("from_pattern(Debug rows) gives {}", rt));
            let aa = d.affected_area();
            let rd = RefD { map: want.clone(), ..Default::default() };
            ctx.expect(aa == rd.bbox(), "affected-area-tight", || format!("affected_area {} expected {}", fmt_rect(&aa), fmt_rect(&rd.bbox())));
            let (prow, e) = parsed.unwrap_or((vec![], 0));
            let dbg = if prow.is_empty() { "-".to_string() } else { prow.iter().map(|r| r.replace(' ', "_")).collect::<Vec<_>>().join("/") };
            let sw = d.swap_xy();
            let dsw = dump(&sw);
            let want_sw: PMap = want.iter().map(|((x, y), c)| ((*x, *y), *c)).collect();
            ctx.expect(dsw.as_ref() == Some(&want_sw), "swap-xy", || format!("{}", fmt_dump(&dsw)));
            let m = (1u64 << bits(ty)) as u32;
            let mp = d.map(|c| C::from_num(((c.num() as u64 + 1) % m as u64) as u32));
            let dmp = dump(&mp);
            let want_mp: PMap = wantm.iter().map(|(k, c)| (*k, ((*c as u64 + 1) % m as u64) as u32)).collect();
            ctx.expect(dmp.as_ref() == Some(&want_mp), "map", || format!("{}", fmt_dump(&dmp)));
            format!(
                "ok c={} aa={} e={} dbg={} rt={} sw={} mp={}",
                fmt_dump(&dm),
                fmt_rect(&aa),
                e,
                dbg,
                rt,
                fnv(fmt_dump(&dsw).as_bytes()),
                fnv(fmt_dump(&dmp).as_bytes())
            )
        }
    }
}

fn c2ch<C: ColNum + ColorMapping>(ty: &str, t: &mut Toks, ctx: &mut Ctx) -> String {
    let cs = t.u32_list();
    let pal = palette(ty);
    let mut out = Vec::new();
    for c in cs {
        let ch = C::color_to_char(C::from_num(c));
        out.push(ch as u32);
        // char_to_color (color_to_char c) = c on the type's colour set; '?' (never ' ') elsewhere
        match pal.iter().find(|(_, v)| *v == c) {
            Some((pc, _)) => {
                ctx.count("c2ch:in-palette");
                let back = catch_unwind(AssertUnwindSafe(|| C::char_to_color(ch).num())).ok();
                ctx.expect(ch == *pc && back == Some(c), "color-mapping-roundtrip", || format!("colour {} -> {:?} -> {:?}", c, ch, back))
            }
            None => {
                ctx.count("c2ch:outside-palette");
                ctx.expect(ch == '?', "color-mapping-roundtrip", || format!("colour {} outside the set prints {:?}", c, ch))
            }
        }
    }
    fmt_list(out)
}

fn ch2c<C: ColNum + ColorMapping>(ty: &str, t: &mut Toks, ctx: &mut Ctx) -> String {
    let cs = t.u32_list();
    let mut out = Vec::new();
    for code in cs {
        let ch = char::from_u32(code).expect("char code");
        let r = catch_unwind(AssertUnwindSafe(|| C::char_to_color(ch).num())).ok();
        ctx.count(if r.is_some() { "ch2c:accepted" } else { "ch2c:rejected" });
        ctx.expect(r == accepted(ty, ch), "char-to-color-table", || format!("{:?} -> {:?} expected {:?}", ch, r, accepted(ty, ch)));
        out.push(match r {
            Some(v) => v.to_string(),
            None => "p".to_string(),
        });
    }
    if out.is_empty() {
        "-".into()
    } else {
        out.join(",")
    }
}

macro_rules! by_type {
    ($ty:expr, $f:ident ( $($a:expr),* )) => {
        match $ty {
            "binary" => $f::<BinaryColor>($($a),*),
            "gray2" => $f::<Gray2>($($a),*),
            "gray4" => $f::<Gray4>($($a),*),
            "gray8" => $f::<Gray8>($($a),*),
            "rgb332" => $f::<Rgb332>($($a),*),
            "rgb444" => $f::<Rgb444>($($a),*),
            "rgb555" => $f::<Rgb555>($($a),*),
            "bgr555" => $f::<Bgr555>($($a),*),
            "rgb565" => $f::<Rgb565>($($a),*),
            "bgr565" => $f::<Bgr565>($($a),*),
            "rgb888" => $f::<Rgb888>($($a),*),
            "bgr888" => $f::<Bgr888>($($a),*),
            other => panic!("unknown colour type {}", other),
        }
    };
}

// ---------------------------------------------------------------------------------------------
// generators
// ---------------------------------------------------------------------------------------------
fn gen_color(rng: &mut Rng, ty: &str) -> u32 {
    let pal = palette(ty);
    if rng.chance(4, 5) {
        rng.pick(&pal).1
    } else {
        rng.below(1u64 << bits(ty)) as u32
    }
}

struct PtGen {
    /// side of the in-range region the points cluster in (small = many repeats)
    region: i64,
    ox: i64,
    oy: i64,
    /// chance (in 1/100) of an out-of-range point
    out_pct: u64,
    /// points already handed out (to avoid repeats when asked to)
    used: Vec<(i64, i64)>,
    avoid_repeats: bool,
}
impl PtGen {
    fn point(&mut self, rng: &mut Rng) -> (i64, i64) {
        if rng.below(100) < self.out_pct {
            // out of range: just outside an edge, a corner, or far away
            return match rng.below(6) {
                0 => (-1, rng.range(0, 63)),
                1 => (64, rng.range(0, 63)),
                2 => (rng.range(0, 63), -1),
                3 => (rng.range(0, 63), 64),
                4 => (*rng.pick(&[-1i64, 64]), *rng.pick(&[-1i64, 64])),
                _ => (rng.range(-200, 300), rng.range(-200, 300)),
            };
        }
        for _ in 0..20 {
            let p = match rng.below(8) {
                0 => (*rng.pick(&[0i64, 63]), *rng.pick(&[0i64, 63])),
                1 => (rng.range(0, 63), rng.range(0, 63)),
                _ => ((self.ox + rng.range(0, self.region - 1)).min(63), (self.oy + rng.range(0, self.region - 1)).min(63)),
            };
            if !self.avoid_repeats || !self.used.contains(&p) {
                self.used.push(p);
                return p;
            }
        }
        (rng.range(0, 63), rng.range(0, 63))
    }
}

fn gen_op(rng: &mut Rng, ty: &str, pg: &mut PtGen, allow_big: bool) -> String {
    match rng.below(100) {
        0..=44 => {
            let p = pg.point(rng);
            format!("p:{},{},{}", p.0, p.1, gen_color(rng, ty))
        }
        45..=64 => {
            let n = rng.below(6);
            if n == 0 {
                "i:-".to_string()
            } else {
                let v: Vec<String> = (0..n)
                    .map(|_| {
                        let p = pg.point(rng);
                        format!("{},{},{}", p.0, p.1, gen_color(rng, ty))
                    })
                    .collect();
                format!("i:{}", v.join(";"))
            }
        }
        65..=76 => {
            let p = pg.point(rng);
            let w = rng.below(5);
            let h = rng.below(5);
            format!("f:{},{},{},{},{}", p.0, p.1, w, h, gen_color(rng, ty))
        }
        77..=84 => {
            let p = pg.point(rng);
            let w = rng.below(4);
            let h = rng.below(4);
            let n = (w * h) as i64 + rng.range(-2, 2);
            let cs: Vec<String> = (0..n.max(0)).map(|_| gen_color(rng, ty).to_string()).collect();
            format!("g:{},{},{},{}:{}", p.0, p.1, w, h, if cs.is_empty() { "-".to_string() } else { cs.join(",") })
        }
        85..=92 => {
            let p = pg.point(rng);
            if rng.chance(1, 2) {
                format!("s:{},{},n", p.0, p.1)
            } else {
                format!("s:{},{},{}", p.0, p.1, gen_color(rng, ty))
            }
        }
        93..=94 => {
            if allow_big {
                format!("c:{}", gen_color(rng, ty))
            } else {
                let p = pg.point(rng);
                format!("p:{},{},{}", p.0, p.1, gen_color(rng, ty))
            }
        }
        95..=97 => format!("o:{}", rng.below(2)),
        _ => format!("b:{}", rng.below(2)),
    }
}

fn gen_history(rng: &mut Rng, ty: &str, maxlen: u64, ao: bool, ab: bool) -> Vec<String> {
    let len = rng.range(0, maxlen as i64) as usize;
    let region = *rng.pick(&[2i64, 3, 6, 64]);
    let mut pg = PtGen {
        region,
        ox: rng.range(0, 64 - region),
        oy: rng.range(0, 64 - region),
        out_pct: if ab { *rng.pick(&[0u64, 15, 40]) } else { *rng.pick(&[0u64, 0, 5, 15]) },
        used: Vec::new(),
        avoid_repeats: !ao && rng.chance(2, 3),
    };
    let allow_big = rng.chance(1, 8);
    (0..len).map(|_| gen_op(rng, ty, &mut pg, allow_big)).collect()
}

fn fmt_history(ao: bool, ab: bool, ops: &[String]) -> String {
    let mut s = format!("{} {} {}", ao as u8, ab as u8, ops.len());
    for o in ops {
        s.push(' ');
        s.push_str(o);
    }
    s
}

/// second history: a permutation / small mutation / copy of the first, or an unrelated one
fn gen_second(rng: &mut Rng, ty: &str, maxlen: u64, ao: bool, ab: bool, first: &[String]) -> (bool, bool, Vec<String>) {
    let mut ops: Vec<String> = first.to_vec();
    match rng.below(10) {
        0..=3 => {
            // permutation (Fisher-Yates)
            for i in (1..ops.len()).rev() {
                let j = rng.below(i as u64 + 1) as usize;
                ops.swap(i, j);
            }
        }
        4 => {}
        5..=6 => {
            if !ops.is_empty() {
                let i = rng.below(ops.len() as u64) as usize;
                ops.remove(i);
            }
        }
        7 => {
            let mut pg = PtGen { region: 64, ox: 0, oy: 0, out_pct: 5, used: vec![], avoid_repeats: false };
            let i = rng.below(ops.len() as u64 + 1) as usize;
            ops.insert(i, gen_op(rng, ty, &mut pg, false));
        }
        8 => {
            // change one colour only
            if !ops.is_empty() {
                let i = rng.below(ops.len() as u64) as usize;
                if ops[i].starts_with("p:") {
                    let head: Vec<&str> = ops[i].rsplitn(2, ',').collect();
                    ops[i] = format!("{},{}", head[1], gen_color(rng, ty));
                }
            }
        }
        _ => {
            let ao2 = rng.chance(1, 2);
            let ab2 = rng.chance(1, 2);
            return (ao2, ab2, gen_history(rng, ty, maxlen, ao2, ab2));
        }
    }
    let (ao2, ab2) = if rng.chance(1, 4) { (rng.chance(1, 2), rng.chance(1, 2)) } else { (ao, ab) };
    (ao2, ab2, ops)
}

fn gen_pattern(rng: &mut Rng, ty: &str) -> String {
    let pal = palette(ty);
    let (w, h) = match rng.below(10) {
        0 => (64, rng.range(0, 3)),
        1 => (rng.range(0, 5), 64),
        2 => (65, 1),
        3 => (2, 65),
        4 => (64, 64),
        _ => (rng.range(0, 12), rng.range(0, 8)),
    };
    let ragged = rng.chance(1, 12);
    let bad = rng.chance(1, 10);
    let lower = rng.chance(1, 8);
    let density = *rng.pick(&[10u64, 50, 90]);
    let mut rows = Vec::new();
    for y in 0..h {
        let mut r = String::from("|");
        let mut ww = w;
        if ragged && y > 0 && rng.chance(1, 3) {
            ww = (w + rng.range(-1, 1)).max(0);
        }
        for _ in 0..ww {
            if rng.below(100) >= density {
                r.push('_');
            } else if bad && rng.chance(1, 6) {
                r.push(*rng.pick(&['?', 'x', '4', 'G', 'g', 'k', '-', '\u{e9}', '\u{ff11}', '\u{663}']));
            } else {
                let c = rng.pick(&pal).0;
                r.push(if lower { c.to_ascii_lowercase() } else { c });
            }
        }
        rows.push(r);
    }
    let mut s = format!("mock.pattern {} {}", ty, rows.len());
    for r in rows {
        s.push(' ');
        s.push_str(&r);
    }
    s
}

impl Module for M {
    fn name(&self) -> &'static str {
        "mock"
    }
    fn rule(&self) -> &'static str {
        "histories: every sequence up to length 3 (quick) / 4 (thorough) over an alphabet of draw_pixel / fill_solid / set_pixel ops on \
         corner, repeated and out-of-range points under all four flag combinations, then seeded random histories (<= 12 / <= 40 ops: \
         draw_pixel, draw_iter batches, fill_solid, fill_contiguous, set_pixel, clear, flag changes; clustered, edge and out-of-range \
         points; all 12 colour types) each paired with a permuted / mutated / unrelated second history; patterns: random and boundary \
         sizes (0, 64, 65 rows / columns, ragged rows, characters outside the set, lower case, non-ASCII); get_pixel probes inside, aliasing \
         and outside; complete colour tables of the small types. A history is non-trivial when at least one cell is touched at its end, \
         a pattern when it is accepted and has a non-space character; distinct = distinct op text."
    }

    fn generate(&self, _pid: &str, tier: Tier, rng: &mut Rng, emit: &mut dyn FnMut(String)) {
        let quick = tier == Tier::Quick;
        // --- colour tables: every raw value of the small types, the palette and neighbours of the large ones
        for ty in TYPES {
            let b = bits(ty);
            let mut cs: Vec<u32> = if b <= 8 { (0..(1u32 << b)).collect() } else { vec![] };
            for (_, v) in palette(ty) {
                for d in [0i64, 1, -1] {
                    let c = v as i64 + d;
                    if c >= 0 && c < (1i64 << b) {
                        cs.push(c as u32);
                    }
                }
            }
            for _ in 0..(if quick { 40 } else { 400 }) {
                cs.push(rng.below(1u64 << b) as u32);
            }
            for chunk in cs.chunks(64) {
                emit(format!("mock.c2ch {} {}", ty, fmt_list(chunk.iter())));
            }
            let mut codes: Vec<u32> = (32..127).collect();
            codes.extend([0u32, 9, 10, 127, 128, 0xb2, 0xe9, 0x663, 0x2161, 0xff11, 0xff21, 0x1d7d8]);
            emit(format!("mock.ch2c {} {}", ty, fmt_list(codes.iter())));
        }
        // --- get_pixel probes: inside, aliasing (x >= 64), outside, negative
        for y in [-65i32, -64, -2, -1, 0, 1, 31, 62, 63, 64, 65, 1000] {
            for x in [-4097i32, -4096, -65, -64, -1, 0, 1, 63, 64, 65, 127, 128, 4031, 4032, 4095, 4096, 100000] {
                emit(format!("mock.get {} {}", x, y));
            }
        }
        emit(format!("mock.get {} {}", i32::MAX, 0));
        emit(format!("mock.get {} {}", 0, i32::MAX));
        emit(format!("mock.get {} {}", i32::MIN, i32::MIN));
        emit(format!("mock.get {} {}", i32::MIN, i32::MAX));
        // --- exhaustive short histories over a small alphabet, all four flag combinations
        let alphabet: Vec<&str> = if quick {
            vec!["p:0,0,1", "p:0,0,0", "p:63,63,1", "p:64,0,1", "p:-1,5,1", "s:0,0,n", "f:62,62,3,3,1"]
        } else {
            vec!["p:0,0,1", "p:0,0,0", "p:63,63,1", "p:64,0,1", "p:-1,5,1", "s:0,0,n", "f:62,62,3,3,1", "i:5,5,1;5,5,0", "s:0,64,1"]
        };
        let maxk = if quick { 3 } else { 4 };
        for ao in [false, true] {
            for ab in [false, true] {
                let mut seqs: Vec<Vec<&str>> = vec![vec![]];
                let mut frontier: Vec<Vec<&str>> = vec![vec![]];
                for _ in 0..maxk {
                    let mut next = Vec::new();
                    for s in &frontier {
                        for a in &alphabet {
                            let mut s2 = s.clone();
                            s2.push(*a);
                            next.push(s2);
                        }
                    }
                    seqs.extend(next.iter().cloned());
                    frontier = next;
                }
                for s in seqs {
                    let ops: Vec<String> = s.iter().map(|x| x.to_string()).collect();
                    // second history: the reverse of the first under the same flags
                    let mut rev = ops.clone();
                    rev.reverse();
                    emit(format!("mock.hist binary {} {}", fmt_history(ao, ab, &ops), fmt_history(ao, ab, &rev)));
                }
            }
        }
        // --- patterns
        let npat = if quick { 600 } else { 12_000 };
        for i in 0..npat {
            emit(gen_pattern(rng, TYPES[i % TYPES.len()]));
        }
        // --- random histories
        let (nh, maxlen) = if quick { (3000usize, 12u64) } else { (50_000usize, 40u64) };
        for i in 0..nh {
            let ty = TYPES[(i / 4) % TYPES.len()];
            let ao = i & 1 == 1;
            let ab = i & 2 == 2;
            let first = gen_history(rng, ty, maxlen, ao, ab);
            let (ao2, ab2, second) = gen_second(rng, ty, maxlen, ao, ab, &first);
            emit(format!("mock.hist {} {} {}", ty, fmt_history(ao, ab, &first), fmt_history(ao2, ab2, &second)));
        }
    }

    fn execute(&self, op: &str, ctx: &mut Ctx) -> String {
        let mut t = Toks::new(op);
        match t.str() {
            "mock.hist" => {
                let ty = t.str();
                by_type!(ty, hist(ty, op, &mut t, ctx))
            }
            "mock.pattern" => {
                let ty = t.str();
                by_type!(ty, pattern(ty, op, &mut t, ctx))
            }
            "mock.get" => {
                let p = t.point();
                ctx.count("get");
                let mut d = MockDisplay::<Rgb888>::new();
                for i in 0..4096i32 {
                    if i % 3 != 0 {
                        d.set_pixel(Point::new(i % 64, i / 64), Some(Rgb888::from_num(i as u32 + 1)));
                    }
                }
                let r = catch_unwind(AssertUnwindSafe(|| d.get_pixel(p)));
                let inside = p.x >= 0 && p.x < 64 && p.y >= 0 && p.y < 64;
                if inside {
                    ctx.count("get:inside");
                    ctx.nontrivial(op);
                    let i = p.x + p.y * 64;
                    let want = if i % 3 != 0 { Some(Rgb888::from_num(i as u32 + 1)) } else { None };
                    ctx.expect(matches!(&r, Ok(v) if *v == want), "get-pixel-last-drawn", || format!("get_pixel({:?})", p));
                } else {
                    // outside the display `get_pixel` is not claimed by the property (observation only)
                    ctx.count(if r.is_ok() { "get:outside-aliases-a-cell" } else { "get:outside-panics" });
                }
                match r {
                    Err(_) => "panic".into(),
                    Ok(None) => "none".into(),
                    Ok(Some(c)) => format!("some:{}", c.num()),
                }
            }
            "mock.c2ch" => {
                let ty = t.str();
                by_type!(ty, c2ch(ty, &mut t, ctx))
            }
            "mock.ch2c" => {
                let ty = t.str();
                by_type!(ty, ch2c(ty, &mut t, ctx))
            }
            other => panic!("unknown op {}", other),
        }
    }
}
