//! module `fb` (serves C10) — the framebuffer reads back what was written, in the layout of ImageRaw.
//!
//! Stream (every result line is compared with the Lean model `EG.Model.Framebuffer`):
//!   fb.hist <bits> <order 0|1> <W> <H> <extra> <op> <op> ...
//!      op = comma list of integers, first item the kind:
//!        0,x,y,c              set_pixel((x,y), c)
//!        1,x,y,c,x,y,c,...    draw_iter of those pixels
//!        2,x,y,w,h,c          fill_solid(Rectangle((x,y),(w,h)), c)
//!        3,c                  clear(c)
//!        4,x,y,w,h,c,c,...    fill_contiguous(Rectangle((x,y),(w,h)), [c, c, ...])
//!      The real `Framebuffer<C, C::Raw, O, W, H, N>` is instantiated by macro for 7 depths
//!      (BinaryColor, Gray2, Gray4, Gray8, Rgb565, Rgb888, a RawU32-backed test colour) x 2 data
//!      orders x sizes {1x1, 5x3, 8x2, 9x2, 13x3} x N = BUFFER_SIZE + extra, extra in {0, 3}.
//!      The extra bytes are pre-set through `data_mut()` to 0xA5, 0x5A, 0xC3 so that a write into
//!      them is visible.
//!      -> `d=<data() bytes> p=<pixel() over y = -1..=H, x = -1..=W row-major; n = None>
//!          img=<pixel map left by drawing as_image() at the origin on a draw_iter-only target>`
//!      Sizes also include a zero-width (0x3) and a zero-height (4x0) framebuffer: `Framebuffer<.., 0, H, 0>`
//!      is a legal instantiation (BUFFER_SIZE 0, `[u8; 0]`); every point is outside, nothing may be written.
//!   fb.draw <bits> <order 0|1> <W> <H> <extra> <spec> <writes>
//!      a REAL drawable drawn into a fresh framebuffer (`Drawable::draw(&mut fb)`):
//!        spec = l:x0,y0,x1,y1,sw,c              Line, stroke width sw
//!               r:x,y,w,h,sw,sc,fc              Rectangle   (sc / fc = -1: no stroke / fill colour)
//!               c:x,y,d,sw,sc,fc                Circle
//!               t:x0,y0,x1,y1,x2,y2,sw,sc,fc    Triangle
//!               x:x,y,tc,bg,cp,cp,..            Text in FONT_4X6, Baseline::Top (tc / bg = -1: none)
//!        writes = `x,y,c,x,y,c,..` | `-`: the pixel sequence the same drawable offers to a draw_iter-only
//!               recording target with the framebuffer's bounding box (computed by the generator from the real
//!               code; re-computed on execution: a differing list gives `stale-writes`). The model receives the
//!               drawable through this list (`Fb.drawIter`), the real framebuffer through `draw()`.
//!      -> the same `d= p= img=` line as fb.hist
//!      (instantiated for sizes {5x3 exact, 13x3 +3, 0x3 +3} only, to bound compile time)
//!
//! Oracle (property text as predicates; reference = a HashMap last-write model fed with the
//! documented meaning of each operation), evaluated after EVERY op of the history:
//!   Lean statements mirrored: `get_set`, `history_refines_map`, `outside_noop`, `tail_untouched`,
//!   `buffer_size_spec`, `as_image_spec` (+ the layout of the bytes, by `m_raw::ref_load`).
//!   fb.draw: after drawing, `pixel(p)` over the box = the pixel map the drawable leaves on an UNBOUNDED
//!   recording target, restricted to the box, 0 where it draws nothing (class drawable-picture-ne-recording-
//!   target), and = the map on the recording target with the framebuffer's box; bytes / tail / as_image as above.
use crate::common::*;
use crate::m_raw::{mask, ref_load};
use embedded_graphics::{
    framebuffer::{buffer_size, Framebuffer},
    image::{GetPixel, Image, ImageRaw},
    mono_font::{ascii::FONT_4X6, MonoTextStyle, MonoTextStyleBuilder},
    pixelcolor::{raw::*, *},
    prelude::*,
    primitives::{Circle, Line, PrimitiveStyle, PrimitiveStyleBuilder, Rectangle, Triangle},
    text::{Baseline, Text},
    Pixel,
};
use std::collections::HashMap;

pub struct M;

/// A colour type backed by `RawU32` (no built-in colour is).
#[derive(Debug, Copy, Clone, PartialEq, Eq)]
pub struct U32Color(u32);
impl PixelColor for U32Color {
    type Raw = RawU32;
}
impl From<RawU32> for U32Color {
    fn from(raw: RawU32) -> Self {
        Self(raw.into_inner())
    }
}
impl From<U32Color> for RawU32 {
    fn from(color: U32Color) -> Self {
        Self::new(color.0)
    }
}
impl ColNum for U32Color {
    fn num(&self) -> u32 {
        self.0
    }
    fn from_num(n: u32) -> Self {
        U32Color(n)
    }
}

const TAIL: [u8; 8] = [0xA5, 0x5A, 0xC3, 0x3C, 0x99, 0x66, 0xF0, 0x0F];
const SIZES: [(usize, usize); 7] = [(1, 1), (5, 3), (8, 2), (9, 2), (13, 3), (0, 3), (4, 0)];
/// (W, H, extra) instantiated for `fb.draw`
const DRAW_SIZES: [(usize, usize, usize); 3] = [(5, 3, 0), (13, 3, 3), (0, 3, 3)];
const DEPTHS: [u32; 7] = [1, 2, 4, 8, 16, 24, 32];

/// What the harness needs from a concrete framebuffer instantiation.
trait FbDyn {
    fn set(&mut self, p: Point, c: u32);
    fn iter(&mut self, px: &[(Point, u32)]);
    fn solid(&mut self, area: Rectangle, c: u32);
    fn clear_(&mut self, c: u32);
    fn contiguous(&mut self, area: Rectangle, cs: &[u32]);
    fn bytes(&self) -> Vec<u8>;
    fn preset_tail(&mut self, from: usize);
    fn get(&self, p: Point) -> Option<u32>;
    /// pixel map left by drawing `as_image()` at the origin on `R1`
    fn image_map(&self) -> PMap;
    /// pixel map left by drawing the part of `as_image()` from (1,1) to the bottom right corner, in place
    /// (`Image::new(&as_image().sub_image(&area), (1,1))`), on `R1`
    fn sub_image_map(&self) -> PMap;
    /// pixel map left by drawing `as_image()` at (-2,-1) on a BOUNDED native-fill target with box (0,0) W x H: the
    /// image sticks out over the left and top edge of the target
    fn image_map_cut(&self) -> PMap;
    /// pixel maps left by drawing `as_image()` at the origin through the LIBRARY's `clipped(&area)` adapter on an unbounded
    /// native-fill target, for clip areas that cut 0..3 rows at the top and 0..2 columns at the left (the adapter skips the
    /// cut colours of the image's stream with `nth`: round-5 seed C10-r5-1)
    fn image_maps_clipped(&self) -> Vec<(Rectangle, PMap)>;
    /// `as_image()` equals the `ImageRaw` of the same colour type and order over `data()[0..BUFFER_SIZE]`
    fn image_is_raw_over_prefix(&self, buffer_size: usize) -> bool;
    fn dims(&self) -> (u32, u32);
}

macro_rules! fb_body {
    ($o:ty) => {
        fn set(&mut self, p: Point, c: u32) {
            self.set_pixel(p, C::from_num(c));
        }
        fn iter(&mut self, px: &[(Point, u32)]) {
            self.draw_iter(px.iter().map(|(p, c)| Pixel(*p, C::from_num(*c)))).unwrap();
        }
        fn solid(&mut self, area: Rectangle, c: u32) {
            self.fill_solid(&area, C::from_num(c)).unwrap();
        }
        fn clear_(&mut self, c: u32) {
            self.clear(C::from_num(c)).unwrap();
        }
        fn contiguous(&mut self, area: Rectangle, cs: &[u32]) {
            self.fill_contiguous(&area, cs.iter().map(|c| C::from_num(*c))).unwrap();
        }
        fn bytes(&self) -> Vec<u8> {
            self.data().to_vec()
        }
        fn preset_tail(&mut self, from: usize) {
            for (j, b) in self.data_mut().iter_mut().enumerate().skip(from) {
                *b = TAIL[(j - from) % TAIL.len()];
            }
        }
        fn get(&self, p: Point) -> Option<u32> {
            self.pixel(p).map(|c| c.num())
        }
        fn image_map(&self) -> PMap {
            let mut r = R1::<C>::unbounded();
            let raw = self.as_image();
            Image::new(&raw, Point::zero()).draw(&mut r).unwrap();
            r.rec.map
        }
        fn sub_image_map(&self) -> PMap {
            let mut r = R1::<C>::unbounded();
            let raw = self.as_image();
            let size = self.size();
            let area = Rectangle::new(Point::new(1, 1), Size::new(size.width.saturating_sub(1), size.height.saturating_sub(1)));
            Image::new(&raw.sub_image(&area), Point::new(1, 1)).draw(&mut r).unwrap();
            r.rec.map
        }
        fn image_map_cut(&self) -> PMap {
            let mut r = R2::<C>::new(Rectangle::new(Point::zero(), self.size()));
            let raw = self.as_image();
            Image::new(&raw, Point::new(-2, -1)).draw(&mut r).unwrap();
            r.rec.map
        }
        fn image_maps_clipped(&self) -> Vec<(Rectangle, PMap)> {
            let raw = self.as_image();
            let size = self.size();
            let mut out = Vec::new();
            for (cx, cy, dw, dh) in [(0i32, 2i32, 0u32, 0u32), (1, 2, 0, 0), (2, 2, 1, 0), (3, 1, 0, 1), (0, 1, 2, 0), (1, 0, 1, 1), (1, 1, 0, 0)] {
                let area = Rectangle::new(Point::new(cx, cy), Size::new(size.width.saturating_sub(cx as u32 + dw), size.height.saturating_sub(cy as u32 + dh)));
                let mut r = R2::<C>::unbounded();
                Image::new(&raw, Point::zero()).draw(&mut r.clipped(&area)).unwrap();
                out.push((area, r.rec.map));
            }
            out
        }
        fn image_is_raw_over_prefix(&self, buffer_size: usize) -> bool {
            let size = self.size();
            match ImageRaw::<C, $o>::new(&self.data()[0..buffer_size], size) {
                Ok(raw) => raw == self.as_image(),
                Err(_) => false,
            }
        }
        fn dims(&self) -> (u32, u32) {
            let s = self.size();
            (s.width, s.height)
        }
    };
}
/// the library's own impl families: sub-byte and RawU8 are generic in the data order ...
macro_rules! fam_any_order {
    ($raw:ty) => {
        impl<C: PixelColor<Raw = $raw> + ColNum, O: DataOrder + PartialEq, const W: usize, const H: usize, const N: usize> FbDyn
            for Framebuffer<C, $raw, O, W, H, N>
        {
            fb_body!(O);
        }
    };
}
/// ... the multi-byte family has one impl per order
macro_rules! fam_fixed_order {
    ($raw:ty, $o:ty) => {
        impl<C: PixelColor<Raw = $raw> + ColNum, const W: usize, const H: usize, const N: usize> FbDyn
            for Framebuffer<C, $raw, $o, W, H, N>
        {
            fb_body!($o);
        }
    };
}
fam_any_order!(RawU1);
fam_any_order!(RawU2);
fam_any_order!(RawU4);
fam_any_order!(RawU8);
fam_fixed_order!(RawU16, LittleEndianMsb0);
fam_fixed_order!(RawU16, BigEndianLsb0);
fam_fixed_order!(RawU24, LittleEndianMsb0);
fam_fixed_order!(RawU24, BigEndianLsb0);
fam_fixed_order!(RawU32, LittleEndianMsb0);
fam_fixed_order!(RawU32, BigEndianLsb0);

macro_rules! mk_one {
    ($c:ty, $o:ty, $w:expr, $h:expr, $extra:expr) => {
        if $extra == 0 {
            Box::new(Framebuffer::<$c, <$c as PixelColor>::Raw, $o, $w, $h, { buffer_size::<$c>($w, $h) }>::new()) as Box<dyn FbDyn>
        } else {
            Box::new(Framebuffer::<$c, <$c as PixelColor>::Raw, $o, $w, $h, { buffer_size::<$c>($w, $h) + 3 }>::new()) as Box<dyn FbDyn>
        }
    };
}
macro_rules! mk_size {
    ($c:ty, $o:ty, $w:expr, $h:expr, $extra:expr) => {
        match ($w, $h) {
            (1, 1) => mk_one!($c, $o, 1, 1, $extra),
            (5, 3) => mk_one!($c, $o, 5, 3, $extra),
            (8, 2) => mk_one!($c, $o, 8, 2, $extra),
            (9, 2) => mk_one!($c, $o, 9, 2, $extra),
            (13, 3) => mk_one!($c, $o, 13, 3, $extra),
            (0, 3) => mk_one!($c, $o, 0, 3, $extra),
            (4, 0) => mk_one!($c, $o, 4, 0, $extra),
            _ => panic!("size not instantiated"),
        }
    };
}
macro_rules! mk_order {
    ($c:ty, $ord:expr, $w:expr, $h:expr, $extra:expr) => {
        if $ord == 0 {
            mk_size!($c, LittleEndianMsb0, $w, $h, $extra)
        } else {
            mk_size!($c, BigEndianLsb0, $w, $h, $extra)
        }
    };
}
fn make(bits: u32, ord: u32, w: usize, h: usize, extra: usize) -> Box<dyn FbDyn> {
    assert!(extra == 0 || extra == 3, "extra not instantiated");
    match bits {
        1 => mk_order!(BinaryColor, ord, w, h, extra),
        2 => mk_order!(Gray2, ord, w, h, extra),
        4 => mk_order!(Gray4, ord, w, h, extra),
        8 => mk_order!(Gray8, ord, w, h, extra),
        16 => mk_order!(Rgb565, ord, w, h, extra),
        24 => mk_order!(Rgb888, ord, w, h, extra),
        32 => mk_order!(U32Color, ord, w, h, extra),
        _ => panic!("bad depth"),
    }
}

// ---------------------------------------------------------------------------------------------
// real drawables (fb.draw)
// ---------------------------------------------------------------------------------------------
#[derive(Debug, Clone)]
enum Spec {
    Line(Point, Point, u32, u32),
    Rect(Rectangle, u32, Option<u32>, Option<u32>),
    Circle(Point, u32, u32, Option<u32>, Option<u32>),
    Tri(Point, Point, Point, u32, Option<u32>, Option<u32>),
    Text(Point, Option<u32>, Option<u32>, String),
}
fn opt_c(v: i64) -> Option<u32> {
    if v < 0 {
        None
    } else {
        Some(v as u32)
    }
}
fn parse_spec(tok: &str) -> Spec {
    let (k, rest) = tok.split_once(':').expect("spec kind");
    let v: Vec<i64> = rest.split(',').map(|x| x.parse().expect("bad spec item")).collect();
    let pt = |i: usize| Point::new(v[i] as i32, v[i + 1] as i32);
    match k {
        "l" => Spec::Line(pt(0), pt(2), v[4] as u32, v[5] as u32),
        "r" => Spec::Rect(Rectangle::new(pt(0), Size::new(v[2] as u32, v[3] as u32)), v[4] as u32, opt_c(v[5]), opt_c(v[6])),
        "c" => Spec::Circle(pt(0), v[2] as u32, v[3] as u32, opt_c(v[4]), opt_c(v[5])),
        "t" => Spec::Tri(pt(0), pt(2), pt(4), v[6] as u32, opt_c(v[7]), opt_c(v[8])),
        "x" => Spec::Text(pt(0), opt_c(v[2]), opt_c(v[3]), v[4..].iter().map(|c| char::from_u32(*c as u32).expect("scalar")).collect()),
        _ => panic!("bad spec kind"),
    }
}
fn pstyle<C: ColNum>(sw: u32, sc: Option<u32>, fc: Option<u32>) -> PrimitiveStyle<C> {
    let mut b = PrimitiveStyleBuilder::new().stroke_width(sw);
    if let Some(c) = sc {
        b = b.stroke_color(C::from_num(c));
    }
    if let Some(c) = fc {
        b = b.fill_color(C::from_num(c));
    }
    b.build()
}
/// `Drawable::draw` of the real drawable a spec describes, on any target
fn draw_spec<C: ColNum, D: DrawTarget<Color = C>>(s: &Spec, t: &mut D) -> Result<(), D::Error> {
    match s {
        Spec::Line(a, b, sw, c) => Line::new(*a, *b).into_styled(pstyle::<C>(*sw, Some(*c), None)).draw(t),
        Spec::Rect(r, sw, sc, fc) => r.into_styled(pstyle::<C>(*sw, *sc, *fc)).draw(t),
        Spec::Circle(p, d, sw, sc, fc) => Circle::new(*p, *d).into_styled(pstyle::<C>(*sw, *sc, *fc)).draw(t),
        Spec::Tri(a, b, c, sw, sc, fc) => Triangle::new(*a, *b, *c).into_styled(pstyle::<C>(*sw, *sc, *fc)).draw(t),
        Spec::Text(p, tc, bg, text) => {
            let mut st: MonoTextStyle<C> = MonoTextStyleBuilder::new().font(&FONT_4X6).build();
            st.text_color = tc.map(C::from_num);
            st.background_color = bg.map(C::from_num);
            Text::with_baseline(text, *p, st, Baseline::Top).draw(t).map(|_| ())
        }
    }
}
/// the drawable on a draw_iter-only recording target: (final pixel map, every pixel offered, in order)
fn record<C: ColNum>(s: &Spec, bbox: Option<Rectangle>) -> (PMap, Vec<((i32, i32), u32)>) {
    let mut r = match bbox {
        Some(b) => R1::<C>::new(b),
        None => R1::<C>::unbounded(),
    };
    draw_spec::<C, _>(s, &mut r).expect("recording target does not fail");
    let mut seq = Vec::new();
    for c in &r.rec.log {
        match c {
            Call::DrawIter(px) => seq.extend(px.iter().cloned()),
            other => panic!("draw_iter-only target logged {:?}", other),
        }
    }
    (r.rec.map, seq)
}
fn record_by_bits(bits: u32, s: &Spec, bbox: Option<Rectangle>) -> (PMap, Vec<((i32, i32), u32)>) {
    match bits {
        1 => record::<BinaryColor>(s, bbox),
        2 => record::<Gray2>(s, bbox),
        4 => record::<Gray4>(s, bbox),
        8 => record::<Gray8>(s, bbox),
        16 => record::<Rgb565>(s, bbox),
        24 => record::<Rgb888>(s, bbox),
        32 => record::<U32Color>(s, bbox),
        _ => panic!("bad depth"),
    }
}
fn fmt_seq(seq: &[((i32, i32), u32)]) -> String {
    if seq.is_empty() {
        return "-".into();
    }
    let mut v = Vec::with_capacity(seq.len() * 3);
    for ((x, y), c) in seq {
        v.push(x.to_string());
        v.push(y.to_string());
        v.push(c.to_string());
    }
    v.join(",")
}

/// a framebuffer a real drawable can be drawn into (only the instantiations of `DRAW_SIZES`)
trait FbDraw: FbDyn {
    fn draw(&mut self, s: &Spec);
    fn as_dyn(&self) -> &dyn FbDyn;
}
macro_rules! fam_draw {
    ($raw:ty, $o:ty) => {
        impl<C: PixelColor<Raw = $raw> + ColNum + Into<$raw>, const W: usize, const H: usize, const N: usize> FbDraw
            for Framebuffer<C, $raw, $o, W, H, N>
        {
            fn draw(&mut self, s: &Spec) {
                draw_spec::<C, _>(s, self).unwrap();
            }
            fn as_dyn(&self) -> &dyn FbDyn {
                self
            }
        }
    };
}
fam_draw!(RawU1, LittleEndianMsb0);
fam_draw!(RawU1, BigEndianLsb0);
fam_draw!(RawU2, LittleEndianMsb0);
fam_draw!(RawU2, BigEndianLsb0);
fam_draw!(RawU4, LittleEndianMsb0);
fam_draw!(RawU4, BigEndianLsb0);
fam_draw!(RawU8, LittleEndianMsb0);
fam_draw!(RawU8, BigEndianLsb0);
fam_draw!(RawU16, LittleEndianMsb0);
fam_draw!(RawU16, BigEndianLsb0);
fam_draw!(RawU24, LittleEndianMsb0);
fam_draw!(RawU24, BigEndianLsb0);
fam_draw!(RawU32, LittleEndianMsb0);
fam_draw!(RawU32, BigEndianLsb0);

macro_rules! mkd_one {
    ($c:ty, $o:ty, $w:expr, $h:expr, $extra:expr) => {
        Box::new(Framebuffer::<$c, <$c as PixelColor>::Raw, $o, $w, $h, { buffer_size::<$c>($w, $h) + $extra }>::new()) as Box<dyn FbDraw>
    };
}
macro_rules! mkd_size {
    ($c:ty, $o:ty, $w:expr, $h:expr, $extra:expr) => {
        match ($w, $h, $extra) {
            (5, 3, 0) => mkd_one!($c, $o, 5, 3, 0),
            (13, 3, 3) => mkd_one!($c, $o, 13, 3, 3),
            (0, 3, 3) => mkd_one!($c, $o, 0, 3, 3),
            _ => panic!("size not instantiated for fb.draw"),
        }
    };
}
macro_rules! mkd_order {
    ($c:ty, $ord:expr, $w:expr, $h:expr, $extra:expr) => {
        if $ord == 0 {
            mkd_size!($c, LittleEndianMsb0, $w, $h, $extra)
        } else {
            mkd_size!($c, BigEndianLsb0, $w, $h, $extra)
        }
    };
}
fn make_draw(bits: u32, ord: u32, w: usize, h: usize, extra: usize) -> Box<dyn FbDraw> {
    match bits {
        1 => mkd_order!(BinaryColor, ord, w, h, extra),
        2 => mkd_order!(Gray2, ord, w, h, extra),
        4 => mkd_order!(Gray4, ord, w, h, extra),
        8 => mkd_order!(Gray8, ord, w, h, extra),
        16 => mkd_order!(Rgb565, ord, w, h, extra),
        24 => mkd_order!(Rgb888, ord, w, h, extra),
        32 => mkd_order!(U32Color, ord, w, h, extra),
        _ => panic!("bad depth"),
    }
}

fn rand_spec(rng: &mut Rng, bits: u32, w: i64, h: i64) -> String {
    let px = |rng: &mut Rng| rng.range(-3, w + 2);
    let py = |rng: &mut Rng| rng.range(-3, h + 2);
    let oc = |rng: &mut Rng| -> i64 {
        if rng.chance(1, 4) {
            -1
        } else {
            rand_color(rng, bits).max(1) as i64
        }
    };
    match rng.below(5) {
        0 => format!("l:{},{},{},{},{},{}", px(rng), py(rng), px(rng), py(rng), rng.range(0, 3), rand_color(rng, bits).max(1)),
        1 => format!("r:{},{},{},{},{},{},{}", px(rng), py(rng), rng.range(0, w + 3), rng.range(0, h + 3), rng.range(0, 2), oc(rng), oc(rng)),
        2 => format!("c:{},{},{},{},{},{}", px(rng) - 2, py(rng) - 2, rng.range(0, 9), rng.range(0, 2), oc(rng), oc(rng)),
        3 => format!("t:{},{},{},{},{},{},{},{},{}", px(rng), py(rng), px(rng), py(rng), px(rng), py(rng), rng.range(0, 2), oc(rng), oc(rng)),
        _ => {
            let n = rng.range(0, 3);
            let mut s = format!("x:{},{},{},{}", px(rng), rng.range(-5, h), oc(rng), oc(rng));
            for _ in 0..n {
                s.push_str(&format!(",{}", *rng.pick(&[65i64, 105, 32, 87, 10, 233, 126])));
            }
            s
        }
    }
}

#[derive(Debug)]
enum Op {
    Set(Point, u32),
    Iter(Vec<(Point, u32)>),
    Solid(Rectangle, u32),
    Clear(u32),
    Contiguous(Rectangle, Vec<u32>),
}

fn parse_op(tok: &str) -> Op {
    let v: Vec<i64> = tok.split(',').map(|x| x.parse().expect("bad op item")).collect();
    let pt = |i: usize| Point::new(v[i] as i32, v[i + 1] as i32);
    match v[0] {
        0 => Op::Set(pt(1), v[3] as u32),
        1 => Op::Iter(v[1..].chunks(3).map(|t| (Point::new(t[0] as i32, t[1] as i32), t[2] as u32)).collect()),
        2 => Op::Solid(Rectangle::new(pt(1), Size::new(v[3] as u32, v[4] as u32)), v[5] as u32),
        3 => Op::Clear(v[1] as u32),
        4 => Op::Contiguous(Rectangle::new(pt(1), Size::new(v[3] as u32, v[4] as u32)), v[5..].iter().map(|c| *c as u32).collect()),
        _ => panic!("bad op kind"),
    }
}

/// the documented meaning of an operation as a list of pixel writes (points anywhere)
fn writes_of(op: &Op, w: i64, h: i64) -> Vec<((i64, i64), u32)> {
    let area_pts = |a: &Rectangle| -> Vec<(i64, i64)> {
        let mut v = Vec::new();
        for dy in 0..a.size.height as i64 {
            for dx in 0..a.size.width as i64 {
                v.push((a.top_left.x as i64 + dx, a.top_left.y as i64 + dy));
            }
        }
        v
    };
    match op {
        Op::Set(p, c) => vec![((p.x as i64, p.y as i64), *c)],
        Op::Iter(px) => px.iter().map(|(p, c)| ((p.x as i64, p.y as i64), *c)).collect(),
        Op::Solid(a, c) => area_pts(a).into_iter().map(|p| (p, *c)).collect(),
        Op::Clear(c) => {
            let mut v = Vec::new();
            for y in 0..h {
                for x in 0..w {
                    v.push(((x, y), *c));
                }
            }
            v
        }
        Op::Contiguous(a, cs) => area_pts(a).into_iter().zip(cs.iter().copied()).collect(),
    }
}

fn fmt_op(op: &Op) -> String {
    match op {
        Op::Set(p, c) => format!("0,{},{},{}", p.x, p.y, c),
        Op::Iter(px) => {
            let mut s = String::from("1");
            for (p, c) in px {
                s.push_str(&format!(",{},{},{}", p.x, p.y, c));
            }
            s
        }
        Op::Solid(a, c) => format!("2,{},{},{},{},{}", a.top_left.x, a.top_left.y, a.size.width, a.size.height, c),
        Op::Clear(c) => format!("3,{}", c),
        Op::Contiguous(a, cs) => {
            let mut s = format!("4,{},{},{},{}", a.top_left.x, a.top_left.y, a.size.width, a.size.height);
            for c in cs {
                s.push_str(&format!(",{}", c));
            }
            s
        }
    }
}

fn rand_point(rng: &mut Rng, w: i64, h: i64) -> Point {
    // zero-width / zero-height framebuffers: column / row 0 stands in for "the last one" (it is outside)
    let (w, h) = (w.max(1), h.max(1));
    match rng.below(20) {
        0..=13 => Point::new(rng.range(0, w - 1) as i32, rng.range(0, h - 1) as i32),
        14..=17 => Point::new(rng.range(-2, w + 1) as i32, rng.range(-2, h + 1) as i32),
        18 => Point::new(
            *rng.pick(&[i32::MIN, -1, w as i32, i32::MAX, 1 << 20, 65536, 256]),
            rng.range(0, h - 1) as i32,
        ),
        _ => Point::new(
            rng.range(0, w - 1) as i32,
            *rng.pick(&[i32::MIN, -1, h as i32, i32::MAX, 1 << 20, 65536, 256]),
        ),
    }
}
fn rand_color(rng: &mut Rng, bits: u32) -> u32 {
    let m = mask(bits);
    match rng.below(8) {
        0 => m,
        1 => 0,
        2 => 1,
        _ => (rng.next() as u32) & m,
    }
}
fn rand_area(rng: &mut Rng, w: i64, h: i64) -> Rectangle {
    Rectangle::new(
        Point::new(rng.range(-2, w) as i32, rng.range(-2, h) as i32),
        Size::new(rng.range(0, (w + 2).min(6)) as u32, rng.range(0, (h + 2).min(4)) as u32),
    )
}
fn rand_op(rng: &mut Rng, bits: u32, w: i64, h: i64) -> Op {
    match rng.below(20) {
        0..=10 => Op::Set(rand_point(rng, w, h), rand_color(rng, bits)),
        11..=13 => {
            let n = rng.range(0, 5);
            Op::Iter((0..n).map(|_| (rand_point(rng, w, h), rand_color(rng, bits))).collect())
        }
        14..=16 => Op::Solid(rand_area(rng, w, h), rand_color(rng, bits)),
        17 => Op::Clear(rand_color(rng, bits)),
        _ => {
            let a = rand_area(rng, w, h);
            let n = (a.size.width * a.size.height) as i64;
            let k = (n + rng.range(-3, 2)).max(0);
            Op::Contiguous(a, (0..k).map(|_| rand_color(rng, bits)).collect())
        }
    }
}

/// fb.draw: a real drawable drawn into a fresh framebuffer, judged against the recording targets
#[allow(clippy::too_many_arguments)]
fn exec_draw(op: &str, ctx: &mut Ctx, bits: u32, order: u32, w: usize, h: usize, extra: usize, spec: &Spec, wtok: &str) -> String {
    let (wi, hi) = (w as i64, h as i64);
    let bbox = Rectangle::new(Point::zero(), Size::new(w as u32, h as u32));
    let (bmap, bseq) = record_by_bits(bits, spec, Some(bbox));
    if fmt_seq(&bseq) != wtok {
        return "stale-writes".into();
    }
    let (umap, _) = record_by_bits(bits, spec, None);
    ctx.count("draw");
    ctx.count(&format!("draw:bits={}:order={}", bits, order));
    ctx.count(&format!("draw:size={}x{}:extra={}", w, h, extra));
    ctx.count(match spec {
        Spec::Line(..) => "draw:line",
        Spec::Rect(..) => "draw:rectangle",
        Spec::Circle(..) => "draw:circle",
        Spec::Tri(..) => "draw:triangle",
        Spec::Text(..) => "draw:text",
    });
    let mut fb = make_draw(bits, order, w, h, extra);
    let row_bytes = (w * bits as usize + 7) / 8;
    let bs = row_bytes * h;
    ctx.expect(fb.bytes().len() == bs + extra, "buffer-size", || format!("{} N={} expected {}", op, fb.bytes().len(), bs + extra));
    fb.preset_tail(bs);
    let tail0: Vec<u8> = fb.bytes()[bs..].to_vec();
    fb.draw(spec);
    let data = fb.bytes();
    let row_pixels = if bits < 8 { row_bytes * (8 / bits as usize) } else { w };
    let inside = |x: i64, y: i64| x >= 0 && y >= 0 && x < wi && y < hi;
    let mut any = false;
    for y in -1..=hi {
        for x in -1..=wi {
            let got = fb.get(Point::new(x as i32, y as i32));
            if inside(x, y) {
                // the picture the drawable leaves on an unbounded recording target, cut to the box; 0 elsewhere
                let want = Some(*umap.get(&(y as i32, x as i32)).unwrap_or(&0));
                let want_b = Some(*bmap.get(&(y as i32, x as i32)).unwrap_or(&0));
                if want != Some(0) {
                    any = true;
                }
                ctx.expect(got == want, "drawable-picture-ne-recording-target", || format!("{}: pixel({},{}) = {:?}, recording target {:?}", op, x, y, got, want));
                ctx.expect(got == want_b, "drawable-picture-ne-bounded-recording-target", || format!("{}: pixel({},{}) = {:?}, recording target {:?}", op, x, y, got, want_b));
                let l = ref_load(bits, order, &data[..bs], y as usize * row_pixels + x as usize);
                ctx.expect(l == want, "layout-bytes", || format!("{}: bytes say {:?} at ({},{}), want {:?}", op, l, x, y, want));
            } else {
                ctx.expect(got.is_none(), "pixel-outside-none", || format!("{}: pixel({},{}) = {:?}", op, x, y, got));
            }
        }
    }
    if any {
        ctx.nontrivial(op);
    }
    if umap.keys().any(|(y, x)| !inside(*x as i64, *y as i64)) {
        ctx.count("draw:drawable-extends-outside-the-box");
    }
    ctx.expect(data[bs..] == tail0[..], "tail-modified", || format!("{}: tail {:?}", op, &data[bs..]));
    ctx.expect(fb.as_dyn().image_is_raw_over_prefix(bs), "as-image-not-raw-over-prefix", || op.to_string());
    let img = fb.image_map();
    let mut want_img = PMap::new();
    for y in 0..hi {
        for x in 0..wi {
            want_img.insert((y as i32, x as i32), *umap.get(&(y as i32, x as i32)).unwrap_or(&0));
        }
    }
    ctx.expect(img == want_img, "as-image-draw", || format!("{} drawn {} want {}", op, fmt_map(&img), fmt_map(&want_img)));
    let mut grid = Vec::new();
    for y in -1..=hi {
        for x in -1..=wi {
            grid.push(match fb.get(Point::new(x as i32, y as i32)) {
                Some(v) => v.to_string(),
                None => "n".into(),
            });
        }
    }
    format!("d={} p={} img={}", fmt_list(fb.bytes().iter()), grid.join(","), fmt_map(&img))
}

impl Module for M {
    fn name(&self) -> &'static str {
        "fb"
    }
    fn rule(&self) -> &'static str {
        "ops: for each of 7 depths x 2 data orders x sizes {1x1,5x3,8x2,9x2,13x3, 0x3 (zero width), 4x0 (zero height)} x N in \
         {BUFFER_SIZE, BUFFER_SIZE+3}: \
         the empty history, one set_pixel of the all-ones colour and of colour 1 at every point of the box + 1px margin \
         (exhaustive), then seeded random histories (200 of length <= 12 quick; 5000 of length <= 40 thorough) of set_pixel / \
         draw_iter / fill_solid / clear / fill_contiguous with points inside, in the margin and far outside (i32::MIN/MAX). \
         fb.draw: per depth x order x {5x3, 13x3+3, 0x3+3} 25 (quick) / 400 (thorough) seeded real drawables (styled Line, \
         Rectangle, Circle, Triangle with stroke widths 0..=3 and optional stroke / fill colours, Text in FONT_4X6 incl. a \
         newline and an unmapped character) placed in and around the box, drawn with `draw(&mut framebuffer)`. \
         A history is non-trivial when at least one of its writes lands inside the box with a colour different from the \
         pixel's previous one; distinct = distinct op text."
    }

    fn generate(&self, _pid: &str, tier: Tier, rng: &mut Rng, emit: &mut dyn FnMut(String)) {
        let (n_hist, max_len) = if tier == Tier::Quick { (200, 12) } else { (5000, 40) };
        for &bits in &DEPTHS {
            for order in 0..2u32 {
                for &(w, h) in &SIZES {
                    for extra in [0usize, 3] {
                        let head = format!("fb.hist {} {} {} {} {}", bits, order, w, h, extra);
                        emit(head.clone());
                        let (wi, hi) = (w as i64, h as i64);
                        if extra == 3 || tier == Tier::Thorough {
                            for y in -1..=hi {
                                for x in -1..=wi {
                                    emit(format!("{} 0,{},{},{}", head, x, y, mask(bits)));
                                    emit(format!("{} 0,{},{},1", head, x, y));
                                }
                            }
                        }
                        for _ in 0..n_hist {
                            let len = rng.range(1, max_len);
                            let ops: Vec<String> = (0..len).map(|_| fmt_op(&rand_op(rng, bits, wi, hi))).collect();
                            emit(format!("{} {}", head, ops.join(" ")));
                        }
                    }
                }
                // real drawables drawn into the framebuffer
                for &(w, h, extra) in &DRAW_SIZES {
                    let bbox = Rectangle::new(Point::zero(), Size::new(w as u32, h as u32));
                    for _ in 0..(if tier == Tier::Quick { 25 } else { 400 }) {
                        let spec = rand_spec(rng, bits, w as i64, h as i64);
                        let (_, seq) = record_by_bits(bits, &parse_spec(&spec), Some(bbox));
                        emit(format!("fb.draw {} {} {} {} {} {} {}", bits, order, w, h, extra, spec, fmt_seq(&seq)));
                    }
                }
            }
        }
    }

    fn execute(&self, op: &str, ctx: &mut Ctx) -> String {
        let mut t = Toks::new(op);
        let stream = t.str();
        assert!(stream == "fb.hist" || stream == "fb.draw", "unknown op {}", op);
        let bits = t.u32();
        let order = t.u32();
        let w = t.usize();
        let h = t.usize();
        let extra = t.usize();
        if stream == "fb.draw" {
            let spec = parse_spec(t.str());
            let wtok = t.str();
            return exec_draw(op, ctx, bits, order, w, h, extra, &spec, wtok);
        }
        let mut ops = Vec::new();
        while let Some(tok) = t.opt() {
            ops.push(parse_op(tok));
        }
        ctx.count(&format!("fb:bits={}:order={}", bits, order));
        ctx.count(&format!("fb:size={}x{}:extra={}", w, h, extra));
        ctx.count(&format!("fb:history-length={}", match ops.len() { 0 => "0", 1 => "1", 2..=5 => "2-5", 6..=12 => "6-12", _ => "13+" }));

        let mut fb = make(bits, order, w, h, extra);
        let (wi, hi) = (w as i64, h as i64);
        // buffer_size formula: rows are padded to whole bytes
        let row_bytes = (w * bits as usize + 7) / 8;
        let bs = row_bytes * h;
        ctx.expect(fb.bytes().len() == bs + extra, "buffer-size", || format!("{} N={} expected {}", op, fb.bytes().len(), bs + extra));
        ctx.expect(fb.dims() == (w as u32, h as u32), "size", || format!("{} size {:?}", op, fb.dims()));
        fb.preset_tail(bs);
        let tail0: Vec<u8> = fb.bytes()[bs..].to_vec();

        // reference: last-write map; never written = the all-zero colour
        let mut model: HashMap<(i64, i64), u32> = HashMap::new();
        let mut nontrivial = false;
        let inside = |x: i64, y: i64| x >= 0 && y >= 0 && x < wi && y < hi;
        // pixel index of (x, y) in the ImageRaw layout: rows padded to whole bytes
        let row_pixels = if bits < 8 { row_bytes * (8 / bits as usize) } else { w };

        let check = |fb: &dyn FbDyn, model: &HashMap<(i64, i64), u32>, ctx: &mut Ctx, step: usize| {
            let data = fb.bytes();
            for y in -1..=hi {
                for x in -1..=wi {
                    let got = fb.get(Point::new(x as i32, y as i32));
                    let want = if inside(x, y) { Some(*model.get(&(x, y)).unwrap_or(&0)) } else { None };
                    // pixel(p): the colour most recently written (zero if never), None outside
                    ctx.expect(got == want, if inside(x, y) { "pixel-last-write" } else { "pixel-outside-none" }, || {
                        format!("{} after op {}: pixel({},{}) = {:?}, want {:?}", op, step, x, y, got, want)
                    });
                    if inside(x, y) {
                        // the layout of ImageRaw: the bytes, read by the documented bit arithmetic
                        let l = ref_load(bits, order, &data[..bs], y as usize * row_pixels + x as usize);
                        ctx.expect(l == want, "layout-bytes", || format!("{} after op {}: bytes say {:?} at ({},{}), want {:?}", op, step, l, x, y, want));
                    }
                }
            }
            // bytes beyond the used prefix are never modified
            ctx.expect(data[bs..] == tail0[..], "tail-modified", || format!("{} after op {}: tail {:?}", op, step, &data[bs..]));
        };

        check(fb.as_ref(), &model, ctx, 0);
        for (k, o) in ops.iter().enumerate() {
            let before = fb.bytes();
            match o {
                Op::Set(p, c) => {
                    ctx.count("op:set_pixel");
                    fb.set(*p, *c)
                }
                Op::Iter(px) => {
                    ctx.count("op:draw_iter");
                    fb.iter(px)
                }
                Op::Solid(a, c) => {
                    ctx.count("op:fill_solid");
                    fb.solid(*a, *c)
                }
                Op::Clear(c) => {
                    ctx.count("op:clear");
                    fb.clear_(*c)
                }
                Op::Contiguous(a, cs) => {
                    ctx.count("op:fill_contiguous");
                    fb.contiguous(*a, cs)
                }
            }
            let ws = writes_of(o, wi, hi);
            let mut any_inside = false;
            for ((x, y), c) in ws {
                if inside(x, y) {
                    any_inside = true;
                    if *model.get(&(x, y)).unwrap_or(&0) != c {
                        nontrivial = true;
                    }
                    model.insert((x, y), c);
                    ctx.count("write:inside");
                } else {
                    ctx.count("write:outside");
                }
            }
            if !any_inside {
                // writes outside the area change no byte
                let after = fb.bytes();
                ctx.expect(after == before, "outside-write-changed-bytes", || format!("{} op {}: {:?} -> {:?}", op, k + 1, before, after));
            }
            check(fb.as_ref(), &model, ctx, k + 1);
        }
        if nontrivial {
            ctx.nontrivial(op);
        }

        // as_image(): same colour type, same order, same bytes; drawing it reproduces the content
        ctx.expect(fb.image_is_raw_over_prefix(bs), "as-image-not-raw-over-prefix", || op.to_string());
        let img = fb.image_map();
        let mut want_img = PMap::new();
        for y in 0..hi {
            for x in 0..wi {
                want_img.insert((y as i32, x as i32), *model.get(&(x, y)).unwrap_or(&0));
            }
        }
        ctx.expect(img == want_img, "as-image-draw", || format!("{} drawn {} want {}", op, fmt_map(&img), fmt_map(&want_img)));
        // ... and so does drawing a part of it in place (rows and columns from 1 on: the row padding of
        // sub-byte depths is skipped between the rows of the part; seeded change C10-r2-3)
        let sub = fb.sub_image_map();
        let want_sub: PMap = want_img.iter().filter(|((y, x), _)| *y >= 1 && *x >= 1).map(|(k, v)| (*k, *v)).collect();
        if !want_sub.is_empty() {
            ctx.count("as-image:part-drawn");
        }
        ctx.expect(sub == want_sub, "as-image-part-draw", || format!("{} drawn {} want {}", op, fmt_map(&sub), fmt_map(&want_sub)));
        // ... and drawing it so that it sticks out over the left and top edge of a bounded target shows the part that is
        // inside, at the right place (seeded change C10-r3-2 drew "the visible part" at the target's origin)
        let cut = fb.image_map_cut();
        let want_cut: PMap = want_img
            .iter()
            .filter(|((y, x), _)| *y >= 1 && *x >= 2)
            .map(|((y, x), v)| ((*y - 1, *x - 2), *v))
            .collect();
        if !want_cut.is_empty() {
            ctx.count("as-image:drawn-cut-by-the-target");
        }
        ctx.expect(cut == want_cut, "as-image-draw-cut-by-target", || format!("{} drawn {} want {}", op, fmt_map(&cut), fmt_map(&want_cut)));
        // ... and through the library's clipping adapter: the content inside the clip area, nothing else
        for (area, got) in fb.image_maps_clipped() {
            let want_c: PMap = want_img.iter().filter(|((y, x), _)| area.contains(Point::new(*x, *y))).map(|(k, v)| (*k, *v)).collect();
            if !want_c.is_empty() {
                ctx.count("as-image:drawn-through-clipped-adapter");
            }
            ctx.expect(got == want_c, "as-image-draw-through-clipped-adapter", || format!("{} clip {} drawn {} want {}", op, fmt_rect(&area), fmt_map(&got), fmt_map(&want_c)));
        }

        let mut grid = Vec::new();
        for y in -1..=hi {
            for x in -1..=wi {
                grid.push(match fb.get(Point::new(x as i32, y as i32)) {
                    Some(v) => v.to_string(),
                    None => "n".into(),
                });
            }
        }
        format!("d={} p={} img={} sub={}", fmt_list(fb.bytes().iter()), grid.join(","), fmt_map(&img), fmt_map(&sub))
    }
}
