//! module `fb` (serves C10) — the framebuffer reads back what was written, in the layout of ImageRaw.
//!
//! Stream (every result line is compared with the Lean model `EG.Model.Framebuffer`):
//!   fb.hist <bits> <order 0|1> <W> <H> <extra> <op> <op> ...
//!      op = comma list of integers, first item the kind:
//!        0,x,y,c              set_pixel((x,y), c)
//!        1,x,y,c,x,y,c,...    draw_iter of those pixels
//!        2,x,y,w,h,c          fill_solid(Rectangle((x,y),(w,h)), c)
//!        3,c                  clear(c)
//!        4,x,y,w,h,c,c,...    fill_contiguous(Rectangle((x,y),(w,h)), [c, c, ...])
//!      The real `Framebuffer<C, C::Raw, O, W, H, N>` is instantiated by macro for 7 depths
//!      (BinaryColor, Gray2, Gray4, Gray8, Rgb565, Rgb888, a RawU32-backed test colour) x 2 data
//!      orders x sizes {1x1, 5x3, 8x2, 9x2, 13x3} x N = BUFFER_SIZE + extra, extra in {0, 3}.
//!      The extra bytes are pre-set through `data_mut()` to 0xA5, 0x5A, 0xC3 so that a write into
//!      them is visible.
//!      -> `d=<data() bytes> p=<pixel() over y = -1..=H, x = -1..=W row-major; n = None>
//!          img=<pixel map left by drawing as_image() at the origin on a draw_iter-only target>`
//!
//! Oracle (property text as predicates; reference = a HashMap last-write model fed with the
//! documented meaning of each operation), evaluated after EVERY op of the history:
//!   Lean statements mirrored: `get_set`, `history_refines_map`, `outside_noop`, `tail_untouched`,
//!   `buffer_size_spec`, `as_image_spec` (+ the layout of the bytes, by `m_raw::ref_load`).
use crate::common::*;
use crate::m_raw::{mask, ref_load};
use embedded_graphics::{
    framebuffer::{buffer_size, Framebuffer},
    image::{GetPixel, Image, ImageRaw},
    pixelcolor::{raw::*, *},
    prelude::*,
    primitives::Rectangle,
    Pixel,
};
use std::collections::HashMap;

pub struct M;

/// A colour type backed by `RawU32` (no built-in colour is).
#[derive(Debug, Copy, Clone, PartialEq, Eq)]
pub struct U32Color(u32);
impl PixelColor for U32Color {
    type Raw = RawU32;
}
impl From<RawU32> for U32Color {
    fn from(raw: RawU32) -> Self {
        Self(raw.into_inner())
    }
}
impl From<U32Color> for RawU32 {
    fn from(color: U32Color) -> Self {
        Self::new(color.0)
    }
}
impl ColNum for U32Color {
    fn num(&self) -> u32 {
        self.0
    }
    fn from_num(n: u32) -> Self {
        U32Color(n)
    }
}

const TAIL: [u8; 8] = [0xA5, 0x5A, 0xC3, 0x3C, 0x99, 0x66, 0xF0, 0x0F];
const SIZES: [(usize, usize); 5] = [(1, 1), (5, 3), (8, 2), (9, 2), (13, 3)];
const DEPTHS: [u32; 7] = [1, 2, 4, 8, 16, 24, 32];

/// What the harness needs from a concrete framebuffer instantiation.
trait FbDyn {
    fn set(&mut self, p: Point, c: u32);
    fn iter(&mut self, px: &[(Point, u32)]);
    fn solid(&mut self, area: Rectangle, c: u32);
    fn clear_(&mut self, c: u32);
    fn contiguous(&mut self, area: Rectangle, cs: &[u32]);
    fn bytes(&self) -> Vec<u8>;
    fn preset_tail(&mut self, from: usize);
    fn get(&self, p: Point) -> Option<u32>;
    /// pixel map left by drawing `as_image()` at the origin on `R1`
    fn image_map(&self) -> PMap;
    /// `as_image()` equals the `ImageRaw` of the same colour type and order over `data()[0..BUFFER_SIZE]`
    fn image_is_raw_over_prefix(&self, buffer_size: usize) -> bool;
    fn dims(&self) -> (u32, u32);
}

macro_rules! fb_body {
    ($o:ty) => {
        fn set(&mut self, p: Point, c: u32) {
            self.set_pixel(p, C::from_num(c));
        }
        fn iter(&mut self, px: &[(Point, u32)]) {
            self.draw_iter(px.iter().map(|(p, c)| Pixel(*p, C::from_num(*c)))).unwrap();
        }
        fn solid(&mut self, area: Rectangle, c: u32) {
            self.fill_solid(&area, C::from_num(c)).unwrap();
        }
        fn clear_(&mut self, c: u32) {
            self.clear(C::from_num(c)).unwrap();
        }
        fn contiguous(&mut self, area: Rectangle, cs: &[u32]) {
            self.fill_contiguous(&area, cs.iter().map(|c| C::from_num(*c))).unwrap();
        }
        fn bytes(&self) -> Vec<u8> {
            self.data().to_vec()
        }
        fn preset_tail(&mut self, from: usize) {
            for (j, b) in self.data_mut().iter_mut().enumerate().skip(from) {
                *b = TAIL[(j - from) % TAIL.len()];
            }
        }
        fn get(&self, p: Point) -> Option<u32> {
            self.pixel(p).map(|c| c.num())
        }
        fn image_map(&self) -> PMap {
            let mut r = R1::<C>::unbounded();
            let raw = self.as_image();
            Image::new(&raw, Point::zero()).draw(&mut r).unwrap();
            r.rec.map
        }
        fn image_is_raw_over_prefix(&self, buffer_size: usize) -> bool {
            let size = self.size();
            match ImageRaw::<C, $o>::new(&self.data()[0..buffer_size], size) {
                Ok(raw) => raw == self.as_image(),
                Err(_) => false,
            }
        }
        fn dims(&self) -> (u32, u32) {
            let s = self.size();
            (s.width, s.height)
        }
    };
}
/// the library's own impl families: sub-byte and RawU8 are generic in the data order ...
macro_rules! fam_any_order {
    ($raw:ty) => {
        impl<C: PixelColor<Raw = $raw> + ColNum, O: DataOrder + PartialEq, const W: usize, const H: usize, const N: usize> FbDyn
            for Framebuffer<C, $raw, O, W, H, N>
        {
            fb_body!(O);
        }
    };
}
/// ... the multi-byte family has one impl per order
macro_rules! fam_fixed_order {
    ($raw:ty, $o:ty) => {
        impl<C: PixelColor<Raw = $raw> + ColNum, const W: usize, const H: usize, const N: usize> FbDyn
            for Framebuffer<C, $raw, $o, W, H, N>
        {
            fb_body!($o);
        }
    };
}
fam_any_order!(RawU1);
fam_any_order!(RawU2);
fam_any_order!(RawU4);
fam_any_order!(RawU8);
fam_fixed_order!(RawU16, LittleEndianMsb0);
fam_fixed_order!(RawU16, BigEndianLsb0);
fam_fixed_order!(RawU24, LittleEndianMsb0);
fam_fixed_order!(RawU24, BigEndianLsb0);
fam_fixed_order!(RawU32, LittleEndianMsb0);
fam_fixed_order!(RawU32, BigEndianLsb0);

macro_rules! mk_one {
    ($c:ty, $o:ty, $w:expr, $h:expr, $extra:expr) => {
        if $extra == 0 {
            Box::new(Framebuffer::<$c, <$c as PixelColor>::Raw, $o, $w, $h, { buffer_size::<$c>($w, $h) }>::new()) as Box<dyn FbDyn>
        } else {
            Box::new(Framebuffer::<$c, <$c as PixelColor>::Raw, $o, $w, $h, { buffer_size::<$c>($w, $h) + 3 }>::new()) as Box<dyn FbDyn>
        }
    };
}
macro_rules! mk_size {
    ($c:ty, $o:ty, $w:expr, $h:expr, $extra:expr) => {
        match ($w, $h) {
            (1, 1) => mk_one!($c, $o, 1, 1, $extra),
            (5, 3) => mk_one!($c, $o, 5, 3, $extra),
            (8, 2) => mk_one!($c, $o, 8, 2, $extra),
            (9, 2) => mk_one!($c, $o, 9, 2, $extra),
            (13, 3) => mk_one!($c, $o, 13, 3, $extra),
            _ => panic!("size not instantiated"),
        }
    };
}
macro_rules! mk_order {
    ($c:ty, $ord:expr, $w:expr, $h:expr, $extra:expr) => {
        if $ord == 0 {
            mk_size!($c, LittleEndianMsb0, $w, $h, $extra)
        } else {
            mk_size!($c, BigEndianLsb0, $w, $h, $extra)
        }
    };
}
fn make(bits: u32, ord: u32, w: usize, h: usize, extra: usize) -> Box<dyn FbDyn> {
    assert!(extra == 0 || extra == 3, "extra not instantiated");
    match bits {
        1 => mk_order!(BinaryColor, ord, w, h, extra),
        2 => mk_order!(Gray2, ord, w, h, extra),
        4 => mk_order!(Gray4, ord, w, h, extra),
        8 => mk_order!(Gray8, ord, w, h, extra),
        16 => mk_order!(Rgb565, ord, w, h, extra),
        24 => mk_order!(Rgb888, ord, w, h, extra),
        32 => mk_order!(U32Color, ord, w, h, extra),
        _ => panic!("bad depth"),
    }
}

#[derive(Debug)]
enum Op {
    Set(Point, u32),
    Iter(Vec<(Point, u32)>),
    Solid(Rectangle, u32),
    Clear(u32),
    Contiguous(Rectangle, Vec<u32>),
}

fn parse_op(tok: &str) -> Op {
    let v: Vec<i64> = tok.split(',').map(|x| x.parse().expect("bad op item")).collect();
    let pt = |i: usize| Point::new(v[i] as i32, v[i + 1] as i32);
    match v[0] {
        0 => Op::Set(pt(1), v[3] as u32),
        1 => Op::Iter(v[1..].chunks(3).map(|t| (Point::new(t[0] as i32, t[1] as i32), t[2] as u32)).collect()),
        2 => Op::Solid(Rectangle::new(pt(1), Size::new(v[3] as u32, v[4] as u32)), v[5] as u32),
        3 => Op::Clear(v[1] as u32),
        4 => Op::Contiguous(Rectangle::new(pt(1), Size::new(v[3] as u32, v[4] as u32)), v[5..].iter().map(|c| *c as u32).collect()),
        _ => panic!("bad op kind"),
    }
}

/// the documented meaning of an operation as a list of pixel writes (points anywhere)
fn writes_of(op: &Op, w: i64, h: i64) -> Vec<((i64, i64), u32)> {
    let area_pts = |a: &Rectangle| -> Vec<(i64, i64)> {
        let mut v = Vec::new();
        for dy in 0..a.size.height as i64 {
            for dx in 0..a.size.width as i64 {
                v.push((a.top_left.x as i64 + dx, a.top_left.y as i64 + dy));
            }
        }
        v
    };
    match op {
        Op::Set(p, c) => vec![((p.x as i64, p.y as i64), *c)],
        Op::Iter(px) => px.iter().map(|(p, c)| ((p.x as i64, p.y as i64), *c)).collect(),
        Op::Solid(a, c) => area_pts(a).into_iter().map(|p| (p, *c)).collect(),
        Op::Clear(c) => {
            let mut v = Vec::new();
            for y in 0..h {
                for x in 0..w {
                    v.push(((x, y), *c));
                }
            }
            v
        }
        Op::Contiguous(a, cs) => area_pts(a).into_iter().zip(cs.iter().copied()).collect(),
    }
}

fn fmt_op(op: &Op) -> String {
    match op {
        Op::Set(p, c) => format!("0,{},{},{}", p.x, p.y, c),
        Op::Iter(px) => {
            let mut s = String::from("1");
            for (p, c) in px {
                s.push_str(&format!(",{},{},{}", p.x, p.y, c));
            }
            s
        }
        Op::Solid(a, c) => format!("2,{},{},{},{},{}", a.top_left.x, a.top_left.y, a.size.width, a.size.height, c),
        Op::Clear(c) => format!("3,{}", c),
        Op::Contiguous(a, cs) => {
            let mut s = format!("4,{},{},{},{}", a.top_left.x, a.top_left.y, a.size.width, a.size.height);
            for c in cs {
                s.push_str(&format!(",{}", c));
            }
            s
        }
    }
}

fn rand_point(rng: &mut Rng, w: i64, h: i64) -> Point {
    match rng.below(20) {
        0..=13 => Point::new(rng.range(0, w - 1) as i32, rng.range(0, h - 1) as i32),
        14..=17 => Point::new(rng.range(-2, w + 1) as i32, rng.range(-2, h + 1) as i32),
        18 => Point::new(
            *rng.pick(&[i32::MIN, -1, w as i32, i32::MAX, 1 << 20, 65536, 256]),
            rng.range(0, h - 1) as i32,
        ),
        _ => Point::new(
            rng.range(0, w - 1) as i32,
            *rng.pick(&[i32::MIN, -1, h as i32, i32::MAX, 1 << 20, 65536, 256]),
        ),
    }
}
fn rand_color(rng: &mut Rng, bits: u32) -> u32 {
    let m = mask(bits);
    match rng.below(8) {
        0 => m,
        1 => 0,
        2 => 1,
        _ => (rng.next() as u32) & m,
    }
}
fn rand_area(rng: &mut Rng, w: i64, h: i64) -> Rectangle {
    Rectangle::new(
        Point::new(rng.range(-2, w) as i32, rng.range(-2, h) as i32),
        Size::new(rng.range(0, (w + 2).min(6)) as u32, rng.range(0, (h + 2).min(4)) as u32),
    )
}
fn rand_op(rng: &mut Rng, bits: u32, w: i64, h: i64) -> Op {
    match rng.below(20) {
        0..=10 => Op::Set(rand_point(rng, w, h), rand_color(rng, bits)),
        11..=13 => {
            let n = rng.range(0, 5);
            Op::Iter((0..n).map(|_| (rand_point(rng, w, h), rand_color(rng, bits))).collect())
        }
        14..=16 => Op::Solid(rand_area(rng, w, h), rand_color(rng, bits)),
        17 => Op::Clear(rand_color(rng, bits)),
        _ => {
            let a = rand_area(rng, w, h);
            let n = (a.size.width * a.size.height) as i64;
            let k = (n + rng.range(-3, 2)).max(0);
            Op::Contiguous(a, (0..k).map(|_| rand_color(rng, bits)).collect())
        }
    }
}

impl Module for M {
    fn name(&self) -> &'static str {
        "fb"
    }
    fn rule(&self) -> &'static str {
        "ops: for each of 7 depths x 2 data orders x sizes {1x1,5x3,8x2,9x2,13x3} x N in {BUFFER_SIZE, BUFFER_SIZE+3}: \
         the empty history, one set_pixel of the all-ones colour and of colour 1 at every point of the box + 1px margin \
         (exhaustive), then seeded random histories (200 of length <= 12 quick; 5000 of length <= 40 thorough) of set_pixel / \
         draw_iter / fill_solid / clear / fill_contiguous with points inside, in the margin and far outside (i32::MIN/MAX). \
         A history is non-trivial when at least one of its writes lands inside the box with a colour different from the \
         pixel's previous one; distinct = distinct op text."
    }

    fn generate(&self, _pid: &str, tier: Tier, rng: &mut Rng, emit: &mut dyn FnMut(String)) {
        let (n_hist, max_len) = if tier == Tier::Quick { (200, 12) } else { (5000, 40) };
        for &bits in &DEPTHS {
            for order in 0..2u32 {
                for &(w, h) in &SIZES {
                    for extra in [0usize, 3] {
                        let head = format!("fb.hist {} {} {} {} {}", bits, order, w, h, extra);
                        emit(head.clone());
                        let (wi, hi) = (w as i64, h as i64);
                        if extra == 3 || tier == Tier::Thorough {
                            for y in -1..=hi {
                                for x in -1..=wi {
                                    emit(format!("{} 0,{},{},{}", head, x, y, mask(bits)));
                                    emit(format!("{} 0,{},{},1", head, x, y));
                                }
                            }
                        }
                        for _ in 0..n_hist {
                            let len = rng.range(1, max_len);
                            let ops: Vec<String> = (0..len).map(|_| fmt_op(&rand_op(rng, bits, wi, hi))).collect();
                            emit(format!("{} {}", head, ops.join(" ")));
                        }
                    }
                }
            }
        }
    }

    fn execute(&self, op: &str, ctx: &mut Ctx) -> String {
        let mut t = Toks::new(op);
        let stream = t.str();
        assert!(stream == "fb.hist", "unknown op {}", op);
        let bits = t.u32();
        let order = t.u32();
        let w = t.usize();
        let h = t.usize();
        let extra = t.usize();
        let mut ops = Vec::new();
        while let Some(tok) = t.opt() {
            ops.push(parse_op(tok));
        }
        ctx.count(&format!("fb:bits={}:order={}", bits, order));
        ctx.count(&format!("fb:size={}x{}:extra={}", w, h, extra));
        ctx.count(&format!("fb:history-length={}", match ops.len() { 0 => "0", 1 => "1", 2..=5 => "2-5", 6..=12 => "6-12", _ => "13+" }));

        let mut fb = make(bits, order, w, h, extra);
        let (wi, hi) = (w as i64, h as i64);
        // buffer_size formula: rows are padded to whole bytes
        let row_bytes = (w * bits as usize + 7) / 8;
        let bs = row_bytes * h;
        ctx.expect(fb.bytes().len() == bs + extra, "buffer-size", || format!("{} N={} expected {}", op, fb.bytes().len(), bs + extra));
        ctx.expect(fb.dims() == (w as u32, h as u32), "size", || format!("{} size {:?}", op, fb.dims()));
        fb.preset_tail(bs);
        let tail0: Vec<u8> = fb.bytes()[bs..].to_vec();

        // reference: last-write map; never written = the all-zero colour
        let mut model: HashMap<(i64, i64), u32> = HashMap::new();
        let mut nontrivial = false;
        let inside = |x: i64, y: i64| x >= 0 && y >= 0 && x < wi && y < hi;
        // pixel index of (x, y) in the ImageRaw layout: rows padded to whole bytes
        let row_pixels = if bits < 8 { row_bytes * (8 / bits as usize) } else { w };

        let check = |fb: &dyn FbDyn, model: &HashMap<(i64, i64), u32>, ctx: &mut Ctx, step: usize| {
            let data = fb.bytes();
            for y in -1..=hi {
                for x in -1..=wi {
                    let got = fb.get(Point::new(x as i32, y as i32));
                    let want = if inside(x, y) { Some(*model.get(&(x, y)).unwrap_or(&0)) } else { None };
                    // pixel(p): the colour most recently written (zero if never), None outside
                    ctx.expect(got == want, if inside(x, y) { "pixel-last-write" } else { "pixel-outside-none" }, || {
                        format!("{} after op {}: pixel({},{}) = {:?}, want {:?}", op, step, x, y, got, want)
                    });
                    if inside(x, y) {
                        // the layout of ImageRaw: the bytes, read by the documented bit arithmetic
                        let l = ref_load(bits, order, &data[..bs], y as usize * row_pixels + x as usize);
                        ctx.expect(l == want, "layout-bytes", || format!("{} after op {}: bytes say {:?} at ({},{}), want {:?}", op, step, l, x, y, want));
                    }
                }
            }
            // bytes beyond the used prefix are never modified
            ctx.expect(data[bs..] == tail0[..], "tail-modified", || format!("{} after op {}: tail {:?}", op, step, &data[bs..]));
        };

        check(fb.as_ref(), &model, ctx, 0);
        for (k, o) in ops.iter().enumerate() {
            let before = fb.bytes();
            match o {
                Op::Set(p, c) => {
                    ctx.count("op:set_pixel");
                    fb.set(*p, *c)
                }
                Op::Iter(px) => {
                    ctx.count("op:draw_iter");
                    fb.iter(px)
                }
                Op::Solid(a, c) => {
                    ctx.count("op:fill_solid");
                    fb.solid(*a, *c)
                }
                Op::Clear(c) => {
                    ctx.count("op:clear");
                    fb.clear_(*c)
                }
                Op::Contiguous(a, cs) => {
                    ctx.count("op:fill_contiguous");
                    fb.contiguous(*a, cs)
                }
            }
            let ws = writes_of(o, wi, hi);
            let mut any_inside = false;
            for ((x, y), c) in ws {
                if inside(x, y) {
                    any_inside = true;
                    if *model.get(&(x, y)).unwrap_or(&0) != c {
                        nontrivial = true;
                    }
                    model.insert((x, y), c);
                    ctx.count("write:inside");
                } else {
                    ctx.count("write:outside");
                }
            }
            if !any_inside {
                // writes outside the area change no byte
                let after = fb.bytes();
                ctx.expect(after == before, "outside-write-changed-bytes", || format!("{} op {}: {:?} -> {:?}", op, k + 1, before, after));
            }
            check(fb.as_ref(), &model, ctx, k + 1);
        }
        if nontrivial {
            ctx.nontrivial(op);
        }

        // as_image(): same colour type, same order, same bytes; drawing it reproduces the content
        ctx.expect(fb.image_is_raw_over_prefix(bs), "as-image-not-raw-over-prefix", || op.to_string());
        let img = fb.image_map();
        let mut want_img = PMap::new();
        for y in 0..hi {
            for x in 0..wi {
                want_img.insert((y as i32, x as i32), *model.get(&(x, y)).unwrap_or(&0));
            }
        }
        ctx.expect(img == want_img, "as-image-draw", || format!("{} drawn {} want {}", op, fmt_map(&img), fmt_map(&want_img)));

        let mut grid = Vec::new();
        for y in -1..=hi {
            for x in -1..=wi {
                grid.push(match fb.get(Point::new(x as i32, y as i32)) {
                    Some(v) => v.to_string(),
                    None => "n".into(),
                });
            }
        }
        format!("d={} p={} img={}", fmt_list(fb.bytes().iter()), grid.join(","), fmt_map(&img))
    }
}
