//! module `circle` (serves C05, C06, C18) — the Circle primitive.
//!
//! Streams (op lines; every result line is compared with the Lean model `EG.Model.Circle`):
//!   circle.points x y d
//!       -> bb=<bounding box> c=<center> pts=<points() list> in=<contains() bitmap, row-major, over
//!          the bounding box grown by a 3 px margin>
//!   circle.areas  x y d width align
//!       -> s=<x,y,d of offset(+outside)> f=<x,y,d of offset(-inside)> sbb=<styled_bounding_box>
//!          (`stroke_area`/`fill_area` are crate-private: they are `offset(outside_stroke_width)` and
//!          `offset(-inside_stroke_width)`; the split used here is the documented one, the model
//!          side uses the model of `PrimitiveStyle`)
//!   circle.styled x y d fill stroke width align tx ty tw th      (colours `-` or a number; align
//!          0 = Inside, 1 = Center, 2 = Outside; `tx ty tw th` = bounding box of the target)
//!       -> log=<call log of draw() on R2> m1=<map of draw() on R1> m2=<map of draw() on R2>
//!          px=<pixels() sequence, in iteration order>
//!
//! Oracle (the property texts as predicates on the real results). Lean statements mirrored:
//!   C05 `circle_points_eq_filter_contains`, `circle_contains_inside_bbox`;
//!   C18 `circle_band_outer/inner` (half-pixel band = the failing predicate `C18:circle-outside-half-pixel-band`;
//!       exact ideal membership for d > 4, `circle_contains_iff_ideal`, is only COUNTED: `circle:d>4:exactly-ideal`), `circle_mirror_x/y`,
//!       `circle_rows_contiguous`, `circle_columns_contiguous`, `circle_touches_sides`;
//!   C06 `stroke_width_split`, `circle_offset_concentric`, `styled_circle_exact`,
//!       `inside_stroke_inside`, `outside_stroke_outside`;
//!   C01 `styled_circle_pixels_eq_draw` (R1 map == R2 map == pixels() map).
use crate::common::*;
use embedded_graphics::{
    pixelcolor::Rgb565,
    prelude::*,
    primitives::{Circle, ContainsPoint, OffsetOutline, PrimitiveStyleBuilder, StrokeAlignment},
};

pub struct M;

fn align_of(i: u32) -> StrokeAlignment {
    match i {
        0 => StrokeAlignment::Inside,
        1 => StrokeAlignment::Center,
        _ => StrokeAlignment::Outside,
    }
}

/// the documented split of the stroke width: (inside part, outside part)
fn split(width: u32, align: u32) -> (u32, u32) {
    match align {
        0 => (width, 0),
        1 => (width - width / 2, width / 2), // the larger half inside
        _ => (0, width),
    }
}

fn col_tok(t: &str) -> Option<u32> {
    if t == "-" {
        None
    } else {
        Some(t.parse().expect("bad colour"))
    }
}

fn fmt_circle(c: &Circle) -> String {
    format!("{},{},{}", c.top_left.x, c.top_left.y, c.diameter)
}

/// ideal membership in doubled coordinates: |2p + 1 - (2 tl + d)|^2 compared with `bound`
fn dist2(c: &Circle, p: Point) -> i64 {
    let cx = 2 * c.top_left.x as i64 + c.diameter as i64 - 1;
    let cy = 2 * c.top_left.y as i64 + c.diameter as i64 - 1;
    let dx = 2 * p.x as i64 - cx;
    let dy = 2 * p.y as i64 - cy;
    dx * dx + dy * dy
}

const UNB: (i32, i32, u32, u32) = (-(1 << 20), -(1 << 20), 1 << 21, 1 << 21);

impl Module for M {
    fn name(&self) -> &'static str {
        "circle"
    }
    fn rule(&self) -> &'static str {
        "circle.points: every diameter 0..=24 (thorough 0..=130) at 3 positions (origin, negative, axis-crossing) plus seeded random \
         positions/diameters; circle.styled: diameters 0..=14 x widths 0..=5 and d+2 x 3 alignments x 4 colour options x 3 target \
         boxes (unbounded, clipping box not at the origin, empty), thorough adds diameters to 130 / widths to 10 at random positions; \
         circle.areas: same diameters x widths x alignments. Non-trivial: diameter >= 1 (points), diameter >= 1 and a colour set (styled); \
         distinct = distinct op text."
    }

    fn generate(&self, pid: &str, tier: Tier, rng: &mut Rng, emit: &mut dyn FnMut(String)) {
        let quick = tier == Tier::Quick;
        let pos: [(i32, i32); 3] = [(0, 0), (-40, -17), (-5, -3)];
        if pid == "C05" || pid == "C18" {
            let dmax: u32 = if quick { 24 } else { 130 };
            for d in 0..=dmax {
                for (k, (x, y)) in pos.iter().enumerate() {
                    if d > 40 && k != (d as usize % 3) {
                        continue;
                    }
                    emit(format!("circle.points {} {} {}", x, y, d));
                }
            }
            let n = if quick { 60 } else { 600 };
            for _ in 0..n {
                let scale = *rng.pick(&[8i64, 64, 1024, 1 << 20]);
                let x = rng.range(-scale, scale);
                let y = rng.range(-scale, scale);
                let d = if quick { rng.range(0, 40) } else { rng.range(0, 130) };
                emit(format!("circle.points {} {} {}", x, y, d));
            }
        }
        if pid == "C06" || pid == "C01" {
            let cols: [(&str, &str); 4] = [("7", "-"), ("-", "9"), ("7", "9"), ("-", "-")];
            let boxes: [(i32, i32, u32, u32); 3] = [UNB, (2, 1, 7, 6), (0, 0, 0, 0)];
            let dmax: u32 = 14;
            for d in 0..=dmax {
                let mut widths: Vec<u32> = (0..=5).collect();
                if d + 2 > 5 {
                    widths.push(d + 2);
                }
                for w in widths {
                    for a in 0..3u32 {
                        let (x, y) = pos[((d + w + a) % 3) as usize];
                        emit(format!("circle.areas {} {} {} {} {}", x, y, d, w, a));
                        for (f, s) in cols.iter() {
                            for (bi, b) in boxes.iter().enumerate() {
                                // the clipping box is placed relative to the circle so that it really clips
                                let (bx, by) = if bi == 1 { (x + b.0, y + b.1) } else { (b.0, b.1) };
                                emit(format!(
                                    "circle.styled {} {} {} {} {} {} {} {} {} {} {}",
                                    x, y, d, f, s, w, a, bx, by, b.2, b.3
                                ));
                            }
                        }
                    }
                }
            }
            // larger / random cases
            let n = if quick { 150 } else { 3000 };
            for _ in 0..n {
                let scale = *rng.pick(&[8i64, 64, 1024]);
                let x = rng.range(-scale, scale);
                let y = rng.range(-scale, scale);
                let d = if quick { rng.range(0, 40) } else { rng.range(0, 130) };
                let w = if rng.chance(1, 8) { d + rng.range(0, 3) } else { rng.range(0, if quick { 7 } else { 10 }) };
                let a = rng.below(3);
                let (f, s) = *rng.pick(&cols);
                emit(format!("circle.areas {} {} {} {} {}", x, y, d, w, a));
                let b = if rng.chance(1, 3) {
                    (x + rng.range(-3, d / 2), y + rng.range(-3, d / 2), rng.range(0, d + 4), rng.range(0, d + 4))
                } else {
                    (UNB.0 as i64, UNB.1 as i64, UNB.2 as i64, UNB.3 as i64)
                };
                emit(format!("circle.styled {} {} {} {} {} {} {} {} {} {} {}", x, y, d, f, s, w, a, b.0, b.1, b.2, b.3));
            }
        }
    }

    fn execute(&self, op: &str, ctx: &mut Ctx) -> String {
        let mut t = Toks::new(op);
        match t.str() {
            "circle.points" => {
                let tl = t.point();
                let d = t.u32();
                let c = Circle::new(tl, d);
                ctx.count("points");
                ctx.count(if d <= 4 { "points:d<=4" } else { "points:d>4" });
                if d >= 1 {
                    ctx.nontrivial(op);
                }
                let bb = c.bounding_box();
                let pts: Vec<Point> = c.points().collect();
                if pts.len() <= 400 {
                    iter_protocol_check(ctx, "iterator-protocol:circle-points", c.points(), 400);
                }
                let m = 3i32;
                let (x0, y0) = (tl.x - m, tl.y - m);
                let (x1, y1) = (tl.x + d as i32 + m, tl.y + d as i32 + m);
                let mut bits = String::new();
                let mut accepted: Vec<Point> = Vec::new();
                let mut outside_bb = None;
                let mut not_ideal = None;
                let mut off_band = None;
                let mut asym = None;
                let dd = d as i64;
                for y in y0..y1 {
                    for x in x0..x1 {
                        let p = Point::new(x, y);
                        let inside = c.contains(p);
                        bits.push(if inside { '1' } else { '0' });
                        if inside {
                            accepted.push(p);
                            if !bb.contains(p) {
                                outside_bb = Some(p);
                            }
                        }
                        // C18: pixel centre strictly inside the ideal circle (doubled coordinates)
                        let d2 = dist2(&c, p);
                        if d > 4 && inside != (d2 < dd * dd) {
                            not_ideal = Some(p);
                        }
                        // band of half a pixel: contains -> dist < r + 1/2 ; dist <= r - 1/2 -> contains
                        if (inside && !(d2 < (dd + 1) * (dd + 1))) || (d >= 1 && d2 <= (dd - 1) * (dd - 1) && !inside) {
                            off_band = Some(p);
                        }
                        // mirror symmetry about both centre lines
                        let mx = Point::new(2 * tl.x + d as i32 - 1 - x, y);
                        let my = Point::new(x, 2 * tl.y + d as i32 - 1 - y);
                        if d >= 1 && (c.contains(mx) != inside || c.contains(my) != inside) {
                            asym = Some(p);
                        }
                    }
                }
                // C05
                ctx.expect(pts == accepted, "C05:circle-points-ne-contains", || {
                    format!("points {} vs contains {}", fmt_pts(pts.iter().copied()), fmt_pts(accepted.iter().copied()))
                });
                ctx.expect(outside_bb.is_none(), "C05:circle-contains-outside-bbox", || format!("{:?}", outside_bb));
                ctx.expect(pts.iter().all(|p| bb.contains(*p)), "C05:circle-points-outside-bbox", || "points() outside bounding box".into());
                ctx.expect(
                    pts.windows(2).all(|w| (w[0].y, w[0].x) < (w[1].y, w[1].x)),
                    "C05:circle-points-not-row-major-once",
                    || fmt_pts(pts.iter().copied()),
                );
                // far-away probes: contains() is false outside the box
                let far = [
                    Point::new(tl.x - 1000, tl.y),
                    Point::new(tl.x + d as i32 + 1000, tl.y + d as i32 / 2),
                    Point::new(tl.x + d as i32 / 2, tl.y - 1000),
                    Point::new(tl.x + d as i32 / 2, tl.y + d as i32 + 1000),
                ];
                ctx.expect(far.iter().all(|p| !c.contains(*p)), "C05:circle-contains-outside-bbox", || "far probe accepted".into());
                // C18
                // The property text allows a band of half a pixel around the ideal circle; that is the failing
                // predicate (next line). Exact agreement with the ideal circle for d > 4 (Lean:
                // `circle_contains_iff_ideal`, tied by the correspondence) is stricter than the text, so a
                // deviation inside the band is only counted for the evidence, it is not a failure.
                if d > 4 {
                    ctx.count(if not_ideal.is_none() { "circle:d>4:exactly-ideal" } else { "circle:d>4:in-band-but-not-exactly-ideal" });
                }
                ctx.expect(off_band.is_none(), "C18:circle-outside-half-pixel-band", || format!("{:?}", off_band));
                ctx.expect(asym.is_none(), "C18:circle-not-mirror-symmetric", || format!("{:?}", asym));
                {
                    // rows and columns contiguous
                    let mut ok_rows = true;
                    let mut ok_cols = true;
                    for y in y0..y1 {
                        let xs: Vec<i32> = accepted.iter().filter(|p| p.y == y).map(|p| p.x).collect();
                        if !xs.is_empty() && (xs[xs.len() - 1] - xs[0] + 1) as usize != xs.len() {
                            ok_rows = false;
                        }
                    }
                    for x in x0..x1 {
                        let mut ys: Vec<i32> = accepted.iter().filter(|p| p.x == x).map(|p| p.y).collect();
                        ys.sort();
                        if !ys.is_empty() && (ys[ys.len() - 1] - ys[0] + 1) as usize != ys.len() {
                            ok_cols = false;
                        }
                    }
                    ctx.expect(ok_rows, "C18:circle-row-not-contiguous", || fmt_pts(accepted.iter().copied()));
                    ctx.expect(ok_cols, "C18:circle-column-not-contiguous", || fmt_pts(accepted.iter().copied()));
                }
                if d >= 1 {
                    let minx = accepted.iter().map(|p| p.x).min();
                    let maxx = accepted.iter().map(|p| p.x).max();
                    let miny = accepted.iter().map(|p| p.y).min();
                    let maxy = accepted.iter().map(|p| p.y).max();
                    ctx.expect(
                        minx == Some(tl.x) && maxx == Some(tl.x + d as i32 - 1) && miny == Some(tl.y) && maxy == Some(tl.y + d as i32 - 1),
                        "C18:circle-not-touching-bbox-sides",
                        || format!("x {:?}..{:?} y {:?}..{:?}", minx, maxx, miny, maxy),
                    );
                } else {
                    ctx.expect(accepted.is_empty(), "C18:circle-not-touching-bbox-sides", || "d=0 has points".into());
                }
                format!("bb={} c={} pts={} in={}", fmt_rect(&bb), fmt_pt(c.center()), fmt_pts(pts), bits)
            }
            "circle.areas" => {
                let tl = t.point();
                let d = t.u32();
                let w = t.u32();
                let a = t.u32();
                let c = Circle::new(tl, d);
                let (ins, out) = split(w, a);
                ctx.count("areas");
                ctx.expect(ins + out == w, "C06:stroke-width-split", || format!("{} + {} != {}", ins, out, w));
                let sa = c.offset(out as i32);
                let fa = c.offset(-(ins as i32));
                let style = PrimitiveStyleBuilder::<Rgb565>::new()
                    .stroke_color(Rgb565::from_num(9))
                    .stroke_width(w)
                    .stroke_alignment(align_of(a))
                    .build();
                let sbb = c.into_styled(style).bounding_box();
                if d >= 1 {
                    ctx.nontrivial(op);
                    // grown on every side by the outside part
                    ctx.expect(
                        sa.top_left == tl - Point::new(out as i32, out as i32) && sa.diameter == d + 2 * out,
                        "C06:circle-stroke-area-not-grown-by-outside-width",
                        || fmt_circle(&sa),
                    );
                    ctx.expect(sbb == sa.bounding_box(), "C06:circle-styled-bbox-ne-stroke-area-bbox", || fmt_rect(&sbb));
                    if d > 2 * ins {
                        ctx.count("areas:fill-nondegenerate");
                        ctx.expect(
                            fa.top_left == tl + Point::new(ins as i32, ins as i32) && fa.diameter == d - 2 * ins,
                            "C06:circle-fill-area-not-shrunk-by-inside-width",
                            || fmt_circle(&fa),
                        );
                    } else {
                        ctx.count("areas:fill-collapsed");
                        ctx.expect(fa.diameter == 0, "C06:circle-fill-area-not-shrunk-by-inside-width", || fmt_circle(&fa));
                    }
                }
                format!("s={} f={} sbb={}", fmt_circle(&sa), fmt_circle(&fa), fmt_rect(&sbb))
            }
            "circle.styled" => {
                let tl = t.point();
                let d = t.u32();
                let fill = col_tok(t.str());
                let stroke = col_tok(t.str());
                let w = t.u32();
                let a = t.u32();
                let tbox = t.rect();
                let c = Circle::new(tl, d);
                let mut sb = PrimitiveStyleBuilder::<Rgb565>::new().stroke_width(w).stroke_alignment(align_of(a));
                if let Some(f) = fill {
                    sb = sb.fill_color(Rgb565::from_num(f));
                }
                if let Some(s) = stroke {
                    sb = sb.stroke_color(Rgb565::from_num(s));
                }
                let style = sb.build();
                let styled = c.into_styled(style);
                ctx.count("styled");
                ctx.count(match (fill.is_some(), stroke.is_some()) {
                    (true, false) => "styled:fill-only",
                    (false, true) => "styled:stroke-only",
                    (true, true) => "styled:both",
                    (false, false) => "styled:none",
                });
                ctx.count(match a {
                    0 => "styled:inside",
                    1 => "styled:center",
                    _ => "styled:outside",
                });
                let (ins, out) = split(w, a);
                if 2 * ins >= d {
                    ctx.count("styled:fill-collapsed");
                }
                if tbox.is_zero_sized() {
                    ctx.count("styled:target-empty");
                }
                if d >= 1 && (fill.is_some() || stroke.is_some()) {
                    ctx.nontrivial(op);
                }
                let mut r1 = R1::<Rgb565>::new(tbox);
                let mut r2 = R2::<Rgb565>::new(tbox);
                let mut r3 = R1::<Rgb565>::new(tbox);
                let e1 = styled.draw(&mut r1);
                let e2 = styled.draw(&mut r2);
                let px: Vec<((i32, i32), u32)> = styled.pixels().map(|Pixel(p, c)| ((p.x, p.y), c.num())).collect();
                let e3 = r3.draw_iter(styled.pixels());
                ctx.expect(e1.is_ok() && e2.is_ok() && e3.is_ok(), "circle-draw-error", || "draw returned Err".into());
                // C01: one image whichever path
                ctx.expect(r1.rec.map == r2.rec.map, "circle-paths-differ:r1-r2", || {
                    format!("R1 {} R2 {}", r1.rec.fmt_map(), r2.rec.fmt_map())
                });
                ctx.expect(r1.rec.map == r3.rec.map, "circle-paths-differ:draw-pixels", || {
                    format!("draw {} pixels {}", r1.rec.fmt_map(), r3.rec.fmt_map())
                });
                // C06: the map follows fill_area / stroke_area
                let sa = c.offset(out as i32);
                let fa = c.offset(-(ins as i32));
                let g = (out + 3) as i32;
                let mut bad = None;
                let mut inside_viol = None;
                let mut outside_viol = None;
                let mut painted = 0usize;
                for y in (tl.y - g)..(tl.y + d as i32 + g) {
                    for x in (tl.x - g)..(tl.x + d as i32 + g) {
                        let p = Point::new(x, y);
                        let want: Option<u32> = if !tbox.contains(p) {
                            None
                        } else if fa.contains(p) {
                            fill
                        } else if sa.contains(p) && w > 0 {
                            stroke
                        } else {
                            None
                        };
                        let got = r1.rec.map.get(&(y, x)).copied();
                        if got.is_some() {
                            painted += 1;
                        }
                        if got != want {
                            bad = Some((p, got, want));
                        }
                        // an inside stroke never paints outside the shape, an outside stroke never inside it
                        if a == 0 && got.is_some() && !c.contains(p) {
                            inside_viol = Some(p);
                        }
                        if a == 2 && got.is_some() && got == stroke && fill != stroke && c.contains(p) {
                            outside_viol = Some(p);
                        }
                    }
                }
                ctx.expect(bad.is_none(), "C06:circle-styled-map-ne-areas", || format!("{:?}", bad));
                ctx.expect(painted == r1.rec.map.len(), "C06:circle-styled-paints-outside-stroke-area-box", || {
                    format!("{} painted in the probe box, {} in the map", painted, r1.rec.map.len())
                });
                ctx.expect(inside_viol.is_none(), "C06:circle-inside-stroke-paints-outside-shape", || format!("{:?}", inside_viol));
                ctx.expect(outside_viol.is_none(), "C06:circle-outside-stroke-paints-inside-shape", || format!("{:?}", outside_viol));
                let mut pxs = String::new();
                for (i, ((x, y), c)) in px.iter().enumerate() {
                    if i > 0 {
                        pxs.push(';');
                    }
                    pxs.push_str(&format!("{},{},{}", x, y, c));
                }
                if pxs.is_empty() {
                    pxs.push('-');
                }
                format!("log={} m1={} m2={} px={}", r2.rec.fmt_log(), r1.rec.fmt_map(), r2.rec.fmt_map(), pxs)
            }
            other => panic!("unknown op {}", other),
        }
    }
}
