//! module `faults` — C04: target errors stop drawing immediately and are returned unchanged.
//!
//!   faults.shape <shape> <style> <adapter> <native 0|1>
//!   faults.text <font 0..3 (3 = custom font with character spacing)> <colour mask> <align> <codepoints> <adapter> <native>
//!   faults.dotted <rect x y w h> <style> <adapter> <native>      rectangle with StrokeStyle::Dotted
//!   faults.image <bits 1|8|16> <w> <h> <sub 0|1|2> <adapter> <native>
//!
//! adapter: 0 none, 1 clipped, 2 translated, 3 cropped, 4 clipped(translated), 5 translated(cropped(clipped)),
//!          6 color_converted on the bare target (text only: BinaryColor text on an Rgb565 target)
//! Images with 1 or 8 bits per pixel (BinaryColor / Gray8) are always drawn through `color_converted()`
//! stacked ON TOP of the adapter stack 0..5 given in the op; 16-bpp images (Rgb565) through the stack alone.
//!
//! For each op: the fault-free run on the recording target gives n calls and a call log; then for
//! EVERY k < n (no sampling, in both tiers) the run in which the k-th call of the underlying target
//! fails must (a) return exactly that error value `TErr(k)`, (b) make no further call, (c) have made
//! exactly the first k calls of the fault-free log.
use crate::common::*;
use crate::shapes::*;
use crate::with_shape;
use embedded_graphics::{
    image::{Image, ImageDrawableExt, ImageRaw},
    mono_font::{ascii, MonoTextStyleBuilder},
    pixelcolor::{BinaryColor, Gray8, Rgb565},
    prelude::*,
    primitives::{Rectangle, Styled},
    text::{Alignment, Text},
};

pub struct M;

struct Outcome {
    n: usize,
    tested: usize,
}

/// `$mk` builds a fresh recording target, `$draw` draws onto `&mut impl DrawTarget<Color = Rgb565>`
/// through the adapter stack and returns `Result<_, TErr>`.
macro_rules! fault_runs {
    ($ctx:expr, $kind:expr, $T:ident, $adapter:expr, $d:ident => $body:expr) => {{
        let tb = Rectangle::new(Point::new(-40, -40), Size::new(120, 120));
        let clip = Rectangle::new(Point::new(-3, -2), Size::new(30, 25));
        let run = |fail_at: Option<usize>| {
            let mut t = $T::<Rgb565>::new(tb);
            t.rec.fail_at = fail_at;
            let r: Result<(), TErr> = match $adapter {
                0 => {
                    let $d = &mut t;
                    $body.map(|_| ())
                }
                1 => {
                    let $d = &mut t.clipped(&clip);
                    $body.map(|_| ())
                }
                2 => {
                    let $d = &mut t.translated(Point::new(4, -3));
                    $body.map(|_| ())
                }
                3 => {
                    let $d = &mut t.cropped(&clip);
                    $body.map(|_| ())
                }
                4 => {
                    let mut tr = t.translated(Point::new(4, -3));
                    let $d = &mut tr.clipped(&clip);
                    $body.map(|_| ())
                }
                _ => {
                    let mut a = t.clipped(&clip);
                    let mut b = a.cropped(&Rectangle::new(Point::new(1, 1), Size::new(20, 20)));
                    let $d = &mut b.translated(Point::new(-2, 5));
                    $body.map(|_| ())
                }
            };
            (r, t.rec)
        };
        let (r0, rec0) = run(None);
        $ctx.expect(r0.is_ok(), &format!("C04:fault-free-run-fails:{}", $kind), || format!("{:?}", r0));
        let n = rec0.calls;
        // every k: the generators keep n small (largest fault-free run: 85 calls in the quick tier,
        // see the `calls:*` counters), so the quadratic cost is negligible
        let ks: Vec<usize> = (0..n).collect();
        for &k in &ks {
            let (r, rec) = run(Some(k));
            $ctx.expect(r == Err(TErr(k)), &format!("C04:error-not-returned:{}", $kind), || format!("call {} of {} failed with TErr({}), draw returned {:?}", k, n, k, r));
            $ctx.expect(rec.calls == k + 1 && rec.calls_after_error == 0, &format!("C04:call-after-error:{}", $kind), || {
                format!("call {} of {} failed; {} call(s) were made afterwards", k, n, rec.calls.saturating_sub(k + 1))
            });
            $ctx.expect(rec.log.len() == k && rec.log[..] == rec0.log[..k.min(rec0.log.len())], &format!("C04:prefix-differs:{}", $kind), || {
                format!("call {} of {} failed; the {} successful call(s) before it are not the first {} of the fault-free run", k, n, rec.log.len(), k)
            });
        }
        Outcome { n, tested: ks.len() }
    }};
}

impl Module for M {
    fn name(&self) -> &'static str {
        "faults"
    }
    fn rule(&self) -> &'static str {
        "every styled primitive kind (grid of sizes/styles), text (3 built-in fonts + one custom font with character spacing, colour/decoration masks, \
         alignments, multi-line) and 1/8/16-bpp images/sub-images, each through 6 adapter stacks (none, clipped, translated, cropped, clipped(translated), \
         translated(cropped(clipped)); 1/8-bpp images additionally through color_converted on top of each stack, text also through color_converted alone) \
         on a draw_iter-only and a native-fill recording target; for each op the k-th underlying call is failed for EVERY k < n (n = calls of the \
         fault-free run; no sampling in either tier). Non-trivial: the fault-free run makes at least 2 calls; distinct = op text."
    }

    fn generate(&self, _pid: &str, tier: Tier, rng: &mut Rng, emit: &mut dyn FnMut(String)) {
        let quick = tier == Tier::Quick;
        let angles = [(0, 90_000), (30_000, 200_000), (-45_000, -300_000), (10_000, 400_000)];
        let shapes = shape_grid(if quick { 4 } else { 7 }, 3, &angles);
        let styles = style_grid(if quick { &[0, 1, 3] } else { &[0, 1, 2, 3, 6] });
        let mut i = 0usize;
        for sh in &shapes {
            for st in &styles {
                // rotate adapters / target kinds over the grid (every shape kind meets every adapter)
                i += 1;
                if quick && sh.starts_with("line") && i % 3 != 0 {
                    continue;
                }
                emit(format!("faults.shape {} {} {} {}", sh, st, i % 6, (i / 6) % 2));
            }
        }
        // dotted rectangle strokes (square dots below 4 px, circular dots from 4 px)
        let mut j = 0usize;
        for (w, h) in [(0u32, 0u32), (1, 5), (5, 1), (3, 3), (8, 8), (9, 14), (20, 11), (30, 30)] {
            for sw in [1u32, 2, 3, 4, 5, 7] {
                for a in 0..3 {
                    for f in ["7", "-"] {
                        j += 1;
                        emit(format!("faults.dotted rect -2 1 {} {} {} 9 {} {} {} {}", w, h, f, sw, a, j % 6, (j / 6) % 2));
                    }
                }
            }
        }
        let n = if quick { 400 } else { 10_000 };
        for _ in 0..n {
            emit(format!("faults.shape {} {} {} {}", random_shape(rng, 20, 24), random_style(rng, 6), rng.below(6), rng.below(2)));
        }
        let strings: [&[u32]; 7] = [&[], &[65], &[65, 66, 32, 67], &[72, 105, 10, 33], &[10, 10], &[65, 13, 10, 66, 10], &[0x1F600, 65]];
        for font in 0..4 {
            for mask in 0..16 {
                for (si, s) in strings.iter().enumerate() {
                    for adapter in 0..7 {
                        if quick && (font + mask + si + adapter) % 3 != 0 {
                            continue;
                        }
                        emit(format!("faults.text {} {} {} {} {} {}", font, mask, (mask + si) % 3, fmt_list(s.iter()), adapter, (mask + adapter) % 2));
                    }
                }
            }
        }
        for bits in [1, 8, 16] {
            for (w, h) in [(0, 0), (1, 1), (5, 3), (8, 2), (9, 4)] {
                for sub in 0..3 {
                    // 1/8-bpp images go through color_converted on top of the stack, so stack 6 would repeat stack 0
                    for adapter in 0..6 {
                        for native in 0..2 {
                            emit(format!("faults.image {} {} {} {} {} {}", bits, w, h, sub, adapter, native));
                        }
                    }
                }
            }
        }
    }

    fn execute(&self, op: &str, ctx: &mut Ctx) -> String {
        let mut t = Toks::new(op);
        let stream = t.str();
        let out = match stream {
            "faults.shape" => {
                let shape = Shape::parse(&mut t);
                let style = parse_style(&mut t);
                let adapter = t.u32();
                let native = t.u32() == 1;
                let kind = shape.kind();
                ctx.count(&format!("shape:{}:adapter{}", kind, adapter));
                with_shape!(&shape, p => {
                    let s = Styled::new(p.clone(), style);
                    if native {
                        fault_runs!(ctx, kind, R2, adapter, d => s.draw(d))
                    } else {
                        fault_runs!(ctx, kind, R1, adapter, d => s.draw(d))
                    }
                })
            }
            "faults.dotted" => {
                let shape = Shape::parse(&mut t);
                let style = embedded_graphics::primitives::PrimitiveStyleBuilder::from(&parse_style(&mut t))
                    .stroke_style(embedded_graphics::primitives::StrokeStyle::Dotted)
                    .build();
                let adapter = t.u32();
                let native = t.u32() == 1;
                ctx.count(&format!("dotted:adapter{}", adapter));
                let Shape::Rect(r) = shape else { panic!("faults.dotted needs a rect") };
                let s = Styled::new(r, style);
                if native {
                    fault_runs!(ctx, "dotted-rect", R2, adapter, d => s.draw(d))
                } else {
                    fault_runs!(ctx, "dotted-rect", R1, adapter, d => s.draw(d))
                }
            }
            "faults.text" => {
                // font 3: a custom font with character spacing (no built-in font has one)
                let spaced = embedded_graphics::mono_font::MonoFont { character_spacing: 2, ..ascii::FONT_6X10 };
                let fi = t.usize();
                let font = if fi == 3 { &spaced } else { [&ascii::FONT_4X6, &ascii::FONT_6X10, &ascii::FONT_9X15][fi] };
                let mask = t.u32();
                let align = [Alignment::Left, Alignment::Center, Alignment::Right][t.usize()];
                let s: String = t.u32_list().into_iter().map(|c| char::from_u32(c).unwrap_or('?')).collect();
                let adapter = t.u32();
                let native = t.u32() == 1;
                ctx.count(&format!("text:adapter{}", adapter));
                macro_rules! style_of {
                    ($c:ty, $a:expr, $b:expr, $d:expr) => {{
                        let mut b = MonoTextStyleBuilder::<$c>::new().font(font);
                        if mask & 1 != 0 {
                            b = b.text_color($a);
                        }
                        if mask & 2 != 0 {
                            b = b.background_color($b);
                        }
                        if mask & 4 != 0 {
                            b = b.underline();
                        }
                        if mask & 8 != 0 {
                            b = b.strikethrough_with_color($d);
                        }
                        b.build()
                    }};
                }
                if adapter == 6 {
                    // BinaryColor text drawn through color_converted() onto the Rgb565 target
                    let text = Text::with_alignment(&s, Point::new(3, 9), style_of!(BinaryColor, BinaryColor::On, BinaryColor::Off, BinaryColor::On), align);
                    if native {
                        fault_runs!(ctx, "text", R2, 0, d => text.draw(&mut d.color_converted()))
                    } else {
                        fault_runs!(ctx, "text", R1, 0, d => text.draw(&mut d.color_converted()))
                    }
                } else {
                    let text = Text::with_alignment(&s, Point::new(3, 9), style_of!(Rgb565, Rgb565::new(1, 2, 3), Rgb565::new(3, 2, 1), Rgb565::new(9, 9, 9)), align);
                    if native {
                        fault_runs!(ctx, "text", R2, adapter, d => text.draw(d))
                    } else {
                        fault_runs!(ctx, "text", R1, adapter, d => text.draw(d))
                    }
                }
            }
            "faults.image" => {
                let bits = t.u32();
                let size = t.size();
                let sub = t.u32();
                let adapter = t.u32();
                let native = t.u32() == 1;
                ctx.count(&format!("image:{}bpp:sub{}:adapter{}", bits, sub, adapter));
                let bpr = (size.width as usize * bits as usize + 7) / 8;
                let data: Vec<u8> = (0..bpr * size.height as usize).map(|i| (i * 37 + 11) as u8).collect();
                let a1 = Rectangle::new(Point::new(1, 0), Size::new(3, 2));
                let a2 = Rectangle::new(Point::new(1, 1), Size::new(4, 4));
                // adapter 6 (older corpus lines) = color_converted on the bare target = stack 0 for these images
                let stack = if adapter == 6 { 0 } else { adapter };
                macro_rules! go {
                    ($c:ty) => {{
                        let raw = ImageRaw::<$c>::new(&data, size).unwrap();
                        let s1 = raw.sub_image(&a1);
                        let s2 = s1.sub_image(&a2);
                        macro_rules! with_img {
                            ($im:expr) => {{
                                let im = $im;
                                // colour conversion on top of the adapter stack named in the op
                                if native {
                                    fault_runs!(ctx, "image", R2, stack, d => im.draw(&mut d.color_converted()))
                                } else {
                                    fault_runs!(ctx, "image", R1, stack, d => im.draw(&mut d.color_converted()))
                                }
                            }};
                        }
                        match sub {
                            0 => with_img!(Image::new(&raw, Point::new(2, 3))),
                            1 => with_img!(Image::new(&s1, Point::new(2, 3))),
                            _ => with_img!(Image::with_center(&s2, Point::new(2, 3))),
                        }
                    }};
                }
                macro_rules! go_rgb {
                    () => {{
                        let raw = ImageRaw::<Rgb565>::new(&data, size).unwrap();
                        let s1 = raw.sub_image(&a1);
                        let s2 = s1.sub_image(&a2);
                        macro_rules! with_img {
                            ($im:expr) => {{
                                let im = $im;
                                if native {
                                    fault_runs!(ctx, "image", R2, stack, d => im.draw(d))
                                } else {
                                    fault_runs!(ctx, "image", R1, stack, d => im.draw(d))
                                }
                            }};
                        }
                        match sub {
                            0 => with_img!(Image::new(&raw, Point::new(2, 3))),
                            1 => with_img!(Image::new(&s1, Point::new(2, 3))),
                            _ => with_img!(Image::with_center(&s2, Point::new(2, 3))),
                        }
                    }};
                }
                match bits {
                    1 => go!(BinaryColor),
                    8 => go!(Gray8),
                    _ => go_rgb!(),
                }
            }
            other => panic!("unknown op {}", other),
        };
        if out.n >= 2 {
            ctx.nontrivial(op);
        }
        ctx.count_n("fault-runs", out.tested as u64);
        ctx.count(match out.n {
            0 => "calls:0",
            1 => "calls:1",
            2..=8 => "calls:2-8",
            9..=48 => "calls:9-48",
            49..=128 => "calls:49-128",
            _ => "calls:129+",
        });
        format!("n={} tested={}", out.n, out.tested)
    }
}
