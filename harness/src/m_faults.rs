//! module `faults` — C04: target errors stop drawing immediately and are returned unchanged.
//!
//!   faults.shape <shape> <style> <adapter> <native 0|1>
//!   faults.text <font 0..3 (3 = custom font with character spacing)> <colour mask> <align> <codepoints> <adapter> <native>
//!   faults.dotted <rect x y w h> <style> <adapter> <native>      rectangle with StrokeStyle::Dotted
//!   faults.image <bits 1|8|16> <w> <h> <sub 0|1|2> <adapter> <native>
//!   faults.pixel <x> <y> <colour> <adapter> <native>                `Pixel(p, c).draw(target)`
//!   faults.pixiter <points> <colour> <adapter> <native>             `points.map(|p| Pixel(p, c)).draw(target)` (PixelIteratorExt)
//!   faults.whitespace <font 0..3> <colour mask> <baseline 0..3> <width> <adapter 0..5> <native>
//!                                                                   `TextRenderer::draw_whitespace` of a MonoTextStyle
//!   faults.clear <colour> <adapter 0..5> <cc 0|1> <native>          `target.clear(c)`; cc = 1: issued on `color_converted()`
//!                                                                   stacked on top of the adapter stack (BinaryColor, colour & 1)
//!
//! The last four streams reach the call sites no drawable of the other streams goes through (site = row of
//! lean/EG/Generated/DrawSites.lean, `fn -> callee`):
//!   faults.pixel       core/src/drawable.rs           draw -> draw_iter                      (`Pixel::draw`)
//!   faults.pixiter     src/iterator/mod.rs            draw -> draw_iter                      (`PixelIteratorExt::draw`)
//!   faults.whitespace  src/mono_font/mono_text_style.rs  draw_whitespace -> fill_solid, draw_whitespace -> draw_decorations
//!                                                     (and draw_decorations -> fill_solid x2, shared with faults.text)
//!   faults.clear       src/draw_target/translated.rs  clear -> clear            (stacks 2, 4, 5: `Translated` on top or below)
//!                      src/draw_target/color_converted.rs  clear -> clear       (cc = 1)
//!                      core/src/draw_target/mod.rs    clear -> fill_solid       (the trait default: the draw_iter-only target
//!                                                     itself [stack 0, native 0; also below stacks 2 and cc], `Clipped` and `Cropped`)
//!
//!   faults.prefix <any op above, with its stream name>               the same run; the result line additionally carries, for the
//!                                                                   fault-free run and for the fault positions k = 0, n/2, n-1, what
//!                                                                   `draw` returned and the ROOT's record: `ff=ok/<calls>/<calls after
//!                                                                   error>/<log length>/<digest of the log>  k<k>=err<k>/...` — compared
//!                                                                   with the error-aware target model (lean/EG/Model/FaultTarget.lean,
//!                                                                   `faultRun`) for the kinds lean/EG/Driver/Faults.lean models
//!
//! adapter: 0 none, 1 clipped, 2 translated, 3 cropped, 4 clipped(translated), 5 translated(cropped(clipped)),
//!          6 color_converted on the bare target (text only: BinaryColor text on an Rgb565 target)
//! Images with 1 or 8 bits per pixel (BinaryColor / Gray8) are always drawn through `color_converted()`
//! stacked ON TOP of the adapter stack 0..5 given in the op; 16-bpp images (Rgb565) through the stack alone.
//!
//! For each op: the fault-free run on the recording target gives n calls and a call log; then for
//! EVERY k < n (no sampling, in both tiers) the run in which the k-th call of the underlying target
//! fails must (a) return exactly that error value `TErr(k)`, (b) make no further call, (c) have made
//! exactly the first k calls of the fault-free log.
use crate::common::*;
use crate::shapes::*;
use crate::with_shape;
use embedded_graphics::{
    image::{Image, ImageDrawableExt, ImageRaw},
    mono_font::{ascii, MonoTextStyleBuilder},
    pixelcolor::{BinaryColor, Gray8, Rgb565},
    prelude::*,
    primitives::{Rectangle, Styled},
    text::{renderer::TextRenderer, Alignment, Baseline, Text},
};

pub struct M;

/// `x,y;x,y;...` or `-`
fn parse_pts(s: &str) -> Vec<Point> {
    if s == "-" {
        return Vec::new();
    }
    s.split(';')
        .map(|p| {
            let (x, y) = p.split_once(',').expect("point");
            Point::new(x.parse().expect("x"), y.parse().expect("y"))
        })
        .collect()
}

struct Outcome {
    n: usize,
    tested: usize,
    /// `faults.prefix`: result and root record of the fault-free run and of the sampled fault positions
    pfx: String,
}

/// `<ok | err<j>>/<calls>/<calls after error>/<log length>/<str_digest of fmt_log>`: what `draw` returned and what the
/// recording root holds afterwards (one entry of the `faults.prefix` result line).
fn pfx_entry(r: &Result<(), TErr>, rec: &Rec) -> String {
    let res = match r {
        Ok(()) => "ok".to_string(),
        Err(TErr(j)) => format!("err{}", j),
    };
    format!("{}/{}/{}/{}/{}", res, rec.calls, rec.calls_after_error, rec.log.len(), str_digest(&rec.fmt_log()))
}

/// Ops of the `faults.prefix` stream: ops of the other streams of the kinds the error-aware model covers (styled
/// rectangle / circle / ellipse / rounded rectangle, whitespace, image, pixel, pixel iterator, clear), prefixed with
/// `faults.prefix`. Has its own generator state, so the ops of the other streams do not depend on it.
fn gen_prefix(tier: Tier, rng: &mut Rng, emit: &mut dyn FnMut(String)) {
    let quick = tier == Tier::Quick;
    let modelled = |sh: &str| sh.starts_with("rect ") || sh.starts_with("circle ") || sh.starts_with("ellipse ") || sh.starts_with("rrect ");
    let shapes: Vec<String> = shape_grid(if quick { 3 } else { 5 }, 3, &[]).into_iter().filter(|s| modelled(s)).collect();
    let styles = style_grid(if quick { &[1, 3] } else { &[0, 1, 2, 3, 6] });
    let mut i = 0usize;
    for sh in &shapes {
        for st in &styles {
            i += 1;
            if quick && i % 2 == 0 {
                continue;
            }
            emit(format!("faults.prefix faults.shape {} {} {} {}", sh, st, i % 6, (i / 6) % 2));
        }
    }
    let mut left = if quick { 150 } else { 4000 };
    while left > 0 {
        let sh = random_shape(rng, 20, 24);
        if !modelled(&sh) {
            continue;
        }
        left -= 1;
        emit(format!("faults.prefix faults.shape {} {} {} {}", sh, random_style(rng, 6), rng.below(6), rng.below(2)));
    }
    for (x, y) in [(0, 0), (26, 22), (-100, 3)] {
        for adapter in 0..7 {
            for native in 0..2 {
                emit(format!("faults.prefix faults.pixel {} {} {} {} {}", x, y, 1234 + adapter, adapter, native));
            }
        }
    }
    for pts in ["-", "0,0;1,0;2,5", "5,5;-100,2;5,5;30,30;6,5"] {
        for adapter in 0..7 {
            for native in 0..2 {
                emit(format!("faults.prefix faults.pixiter {} {} {} {}", pts, 77 + adapter, adapter, native));
            }
        }
    }
    let mut wi = 0usize;
    for font in 0..4 {
        for mask in 0..16 {
            for bl in 0..4 {
                for width in [0u32, 1, 7, 40] {
                    wi += 1;
                    if quick && wi % 4 != 0 {
                        continue;
                    }
                    emit(format!("faults.prefix faults.whitespace {} {} {} {} {} {}", font, mask, bl, width, wi % 6, (wi / 6) % 2));
                }
            }
        }
    }
    // images: `fill_contiguous` (the two arms of `Clipped::fill_contiguous`, the cropping colour iterator) / `draw_iter` for sub-images
    for bits in [1, 8, 16] {
        for (w, h) in [(0, 0), (1, 1), (5, 3), (8, 2), (9, 4), (40, 30)] {
            for sub in 0..3 {
                for adapter in 0..6 {
                    for native in 0..2 {
                        emit(format!("faults.prefix faults.image {} {} {} {} {} {}", bits, w, h, sub, adapter, native));
                    }
                }
            }
        }
    }
    for colour in [0u32, 1, 0xffff] {
        for adapter in 0..6 {
            for cc in 0..2 {
                for native in 0..2 {
                    emit(format!("faults.prefix faults.clear {} {} {} {}", colour, adapter, cc, native));
                }
            }
        }
    }
}

/// `$mk` builds a fresh recording target, `$draw` draws onto `&mut impl DrawTarget<Color = Rgb565>`
/// through the adapter stack and returns `Result<_, TErr>`.
macro_rules! fault_runs {
    ($ctx:expr, $kind:expr, $T:ident, $adapter:expr, $d:ident => $body:expr) => {{
        let tb = Rectangle::new(Point::new(-40, -40), Size::new(120, 120));
        let clip = Rectangle::new(Point::new(-3, -2), Size::new(30, 25));
        let run = |fail_at: Option<usize>| {
            let mut t = $T::<Rgb565>::new(tb);
            t.rec.fail_at = fail_at;
            let r: Result<(), TErr> = match $adapter {
                0 => {
                    let $d = &mut t;
                    $body.map(|_| ())
                }
                1 => {
                    let $d = &mut t.clipped(&clip);
                    $body.map(|_| ())
                }
                2 => {
                    let $d = &mut t.translated(Point::new(4, -3));
                    $body.map(|_| ())
                }
                3 => {
                    let $d = &mut t.cropped(&clip);
                    $body.map(|_| ())
                }
                4 => {
                    let mut tr = t.translated(Point::new(4, -3));
                    let $d = &mut tr.clipped(&clip);
                    $body.map(|_| ())
                }
                _ => {
                    let mut a = t.clipped(&clip);
                    let mut b = a.cropped(&Rectangle::new(Point::new(1, 1), Size::new(20, 20)));
                    let $d = &mut b.translated(Point::new(-2, 5));
                    $body.map(|_| ())
                }
            };
            (r, t.rec)
        };
        let (r0, rec0) = run(None);
        $ctx.expect(r0.is_ok(), &format!("C04:fault-free-run-fails:{}", $kind), || format!("{:?}", r0));
        let n = rec0.calls;
        // every k: the generators keep n small (fixed grids: at most 85 calls, the 30x30 dotted rectangle;
        // seeded random shapes: 84 / 121 calls at seed 1 in the quick / thorough tier, 103 / 132 at seed 7;
        // see the `calls:*` counters), so the quadratic cost is negligible
        let ks: Vec<usize> = (0..n).collect();
        let mut pfx = format!("ff={}", pfx_entry(&r0, &rec0));
        for &k in &ks {
            let (r, rec) = run(Some(k));
            if k == 0 || k == n / 2 || k + 1 == n {
                pfx.push_str(&format!(" k{}={}", k, pfx_entry(&r, &rec)));
            }
            $ctx.expect(r == Err(TErr(k)), &format!("C04:error-not-returned:{}", $kind), || format!("call {} of {} failed with TErr({}), draw returned {:?}", k, n, k, r));
            $ctx.expect(rec.calls == k + 1 && rec.calls_after_error == 0, &format!("C04:call-after-error:{}", $kind), || {
                format!("call {} of {} failed; {} call(s) were made afterwards", k, n, rec.calls.saturating_sub(k + 1))
            });
            $ctx.expect(rec.log.len() == k && rec.log[..] == rec0.log[..k.min(rec0.log.len())], &format!("C04:prefix-differs:{}", $kind), || {
                format!("call {} of {} failed; the {} successful call(s) before it are not the first {} of the fault-free run", k, n, rec.log.len(), k)
            });
        }
        Outcome { n, tested: ks.len(), pfx }
    }};
}

impl Module for M {
    fn name(&self) -> &'static str {
        "faults"
    }
    fn rule(&self) -> &'static str {
        "every styled primitive kind (grid of sizes/styles), text (3 built-in fonts + one custom font with character spacing, colour/decoration masks, \
         alignments, multi-line) and 1/8/16-bpp images/sub-images, each through 6 adapter stacks (none, clipped, translated, cropped, clipped(translated), \
         translated(cropped(clipped)); 1/8-bpp images additionally through color_converted on top of each stack, text also through color_converted alone) \
         on a draw_iter-only and a native-fill recording target; for each op the k-th underlying call is failed for EVERY k < n (n = calls of the \
         fault-free run; no sampling in either tier). Plus the entry points no drawable goes through: faults.pixel (Pixel::draw: \
         core/src/drawable.rs draw -> draw_iter), faults.pixiter (PixelIteratorExt::draw: src/iterator/mod.rs draw -> draw_iter), \
         faults.whitespace (MonoTextStyle::draw_whitespace, widths 0/1/7/40, all 16 colour/decoration masks, 4 baselines, 4 fonts: \
         mono_text_style.rs draw_whitespace -> fill_solid, draw_whitespace -> draw_decorations, draw_decorations -> fill_solid x2), \
         faults.clear (clear through every adapter stack, with and without color_converted on top, on both targets: translated.rs \
         clear -> clear, color_converted.rs clear -> clear, core/src/draw_target/mod.rs clear -> fill_solid [the trait default of the \
         draw_iter-only target, of Clipped and of Cropped]). faults.prefix: ops of the kinds the error-aware target model covers (styled \
         rectangle / circle / ellipse / rounded rectangle, whitespace, images, pixel, pixel iterator, clear) whose result line also carries draw's \
         result and the root's record (calls, calls after error, log length, log digest) of the fault-free run and of fault positions 0, n/2, n-1. \
         Model side (n = length of the model's call list): every stream except faults.dotted. Non-trivial: the fault-free run makes at least 2 calls; distinct = op text."
    }

    fn generate(&self, _pid: &str, tier: Tier, rng: &mut Rng, emit: &mut dyn FnMut(String)) {
        gen_prefix(tier, &mut Rng::new(rng.0 ^ 0x5eed), emit);
        // `faults.shape arc|sector ..`: trailing hook tokens for the model side (shapes.rs `with_hooks`; never read by `execute`)
        let mut hooked = |s: String| emit(with_hooks(s));
        let emit = &mut hooked;
        let quick = tier == Tier::Quick;
        let angles = [(0, 90_000), (30_000, 200_000), (-45_000, -300_000), (10_000, 400_000)];
        let shapes = shape_grid(if quick { 4 } else { 7 }, 3, &angles);
        let styles = style_grid(if quick { &[0, 1, 3] } else { &[0, 1, 2, 3, 6] });
        let mut i = 0usize;
        for sh in &shapes {
            for st in &styles {
                // rotate adapters / target kinds over the grid (every shape kind meets every adapter)
                i += 1;
                if quick && sh.starts_with("line") && i % 3 != 0 {
                    continue;
                }
                emit(format!("faults.shape {} {} {} {}", sh, st, i % 6, (i / 6) % 2));
            }
        }
        // dotted rectangle strokes (square dots below 4 px, circular dots from 4 px)
        let mut j = 0usize;
        for (w, h) in [(0u32, 0u32), (1, 5), (5, 1), (3, 3), (8, 8), (9, 14), (20, 11), (30, 30)] {
            for sw in [1u32, 2, 3, 4, 5, 7] {
                for a in 0..3 {
                    for f in ["7", "-"] {
                        j += 1;
                        emit(format!("faults.dotted rect -2 1 {} {} {} 9 {} {} {} {}", w, h, f, sw, a, j % 6, (j / 6) % 2));
                    }
                }
            }
        }
        let n = if quick { 400 } else { 10_000 };
        for _ in 0..n {
            emit(format!("faults.shape {} {} {} {}", random_shape(rng, 20, 24), random_style(rng, 6), rng.below(6), rng.below(2)));
        }
        let strings: [&[u32]; 7] = [&[], &[65], &[65, 66, 32, 67], &[72, 105, 10, 33], &[10, 10], &[65, 13, 10, 66, 10], &[0x1F600, 65]];
        for font in 0..4 {
            for mask in 0..16 {
                for (si, s) in strings.iter().enumerate() {
                    for adapter in 0..7 {
                        if quick && (font + mask + si + adapter) % 3 != 0 {
                            continue;
                        }
                        emit(format!("faults.text {} {} {} {} {} {}", font, mask, (mask + si) % 3, fmt_list(s.iter()), adapter, (mask + adapter) % 2));
                    }
                }
            }
        }
        // entry points that no drawable above goes through
        for (x, y) in [(0, 0), (5, 7), (26, 22), (-100, 3)] {
            for adapter in 0..7 {
                for native in 0..2 {
                    emit(format!("faults.pixel {} {} {} {} {}", x, y, 1234 + adapter, adapter, native));
                }
            }
        }
        for pts in ["-", "3,4", "0,0;1,0;2,5", "5,5;-100,2;5,5;30,30;6,5"] {
            for adapter in 0..7 {
                for native in 0..2 {
                    emit(format!("faults.pixiter {} {} {} {}", pts, 77 + adapter, adapter, native));
                }
            }
        }
        let mut wi = 0usize;
        for font in 0..4 {
            for mask in 0..16 {
                for bl in 0..4 {
                    for width in [0u32, 1, 7, 40] {
                        wi += 1;
                        if quick {
                            // rotate adapter stacks / target kinds over the grid
                            emit(format!("faults.whitespace {} {} {} {} {} {}", font, mask, bl, width, wi % 6, (wi / 6) % 2));
                        } else {
                            for adapter in 0..6 {
                                for native in 0..2 {
                                    emit(format!("faults.whitespace {} {} {} {} {} {}", font, mask, bl, width, adapter, native));
                                }
                            }
                        }
                    }
                }
            }
        }
        for colour in [0u32, 1, 0xffff] {
            for adapter in 0..6 {
                for cc in 0..2 {
                    for native in 0..2 {
                        emit(format!("faults.clear {} {} {} {}", colour, adapter, cc, native));
                    }
                }
            }
        }
        for bits in [1, 8, 16] {
            for (w, h) in [(0, 0), (1, 1), (5, 3), (8, 2), (9, 4)] {
                for sub in 0..3 {
                    // 1/8-bpp images go through color_converted on top of the stack, so stack 6 would repeat stack 0
                    for adapter in 0..6 {
                        for native in 0..2 {
                            emit(format!("faults.image {} {} {} {} {} {}", bits, w, h, sub, adapter, native));
                        }
                    }
                }
            }
        }
    }

    fn execute(&self, op: &str, ctx: &mut Ctx) -> String {
        // `faults.prefix <op>`: run <op>, print the root's record of the sampled runs as well
        let (op, want_pfx) = match op.strip_prefix("faults.prefix ") {
            Some(inner) => (inner, true),
            None => (op, false),
        };
        let mut t = Toks::new(op);
        let stream = t.str();
        let out = match stream {
            "faults.shape" => {
                let shape = Shape::parse(&mut t);
                let style = parse_style(&mut t);
                let adapter = t.u32();
                let native = t.u32() == 1;
                let kind = shape.kind();
                ctx.count(&format!("shape:{}:adapter{}", kind, adapter));
                with_shape!(&shape, p => {
                    let s = Styled::new(p.clone(), style);
                    if native {
                        fault_runs!(ctx, kind, R2, adapter, d => s.draw(d))
                    } else {
                        fault_runs!(ctx, kind, R1, adapter, d => s.draw(d))
                    }
                })
            }
            "faults.dotted" => {
                let shape = Shape::parse(&mut t);
                let style = embedded_graphics::primitives::PrimitiveStyleBuilder::from(&parse_style(&mut t))
                    .stroke_style(embedded_graphics::primitives::StrokeStyle::Dotted)
                    .build();
                let adapter = t.u32();
                let native = t.u32() == 1;
                ctx.count(&format!("dotted:adapter{}", adapter));
                let Shape::Rect(r) = shape else { panic!("faults.dotted needs a rect") };
                let s = Styled::new(r, style);
                if native {
                    fault_runs!(ctx, "dotted-rect", R2, adapter, d => s.draw(d))
                } else {
                    fault_runs!(ctx, "dotted-rect", R1, adapter, d => s.draw(d))
                }
            }
            "faults.text" => {
                // font 3: a custom font with character spacing (no built-in font has one)
                let spaced = embedded_graphics::mono_font::MonoFont { character_spacing: 2, ..ascii::FONT_6X10 };
                let fi = t.usize();
                let font = if fi == 3 { &spaced } else { [&ascii::FONT_4X6, &ascii::FONT_6X10, &ascii::FONT_9X15][fi] };
                let mask = t.u32();
                let align = [Alignment::Left, Alignment::Center, Alignment::Right][t.usize()];
                let s: String = t.u32_list().into_iter().map(|c| char::from_u32(c).unwrap_or('?')).collect();
                let adapter = t.u32();
                let native = t.u32() == 1;
                ctx.count(&format!("text:adapter{}", adapter));
                macro_rules! style_of {
                    ($c:ty, $a:expr, $b:expr, $d:expr) => {{
                        let mut b = MonoTextStyleBuilder::<$c>::new().font(font);
                        if mask & 1 != 0 {
                            b = b.text_color($a);
                        }
                        if mask & 2 != 0 {
                            b = b.background_color($b);
                        }
                        if mask & 4 != 0 {
                            b = b.underline();
                        }
                        if mask & 8 != 0 {
                            b = b.strikethrough_with_color($d);
                        }
                        b.build()
                    }};
                }
                if adapter == 6 {
                    // BinaryColor text drawn through color_converted() onto the Rgb565 target
                    let text = Text::with_alignment(&s, Point::new(3, 9), style_of!(BinaryColor, BinaryColor::On, BinaryColor::Off, BinaryColor::On), align);
                    if native {
                        fault_runs!(ctx, "text", R2, 0, d => text.draw(&mut d.color_converted()))
                    } else {
                        fault_runs!(ctx, "text", R1, 0, d => text.draw(&mut d.color_converted()))
                    }
                } else {
                    let text = Text::with_alignment(&s, Point::new(3, 9), style_of!(Rgb565, Rgb565::new(1, 2, 3), Rgb565::new(3, 2, 1), Rgb565::new(9, 9, 9)), align);
                    if native {
                        fault_runs!(ctx, "text", R2, adapter, d => text.draw(d))
                    } else {
                        fault_runs!(ctx, "text", R1, adapter, d => text.draw(d))
                    }
                }
            }
            "faults.image" => {
                let bits = t.u32();
                let size = t.size();
                let sub = t.u32();
                let adapter = t.u32();
                let native = t.u32() == 1;
                ctx.count(&format!("image:{}bpp:sub{}:adapter{}", bits, sub, adapter));
                let bpr = (size.width as usize * bits as usize + 7) / 8;
                let data: Vec<u8> = (0..bpr * size.height as usize).map(|i| (i * 37 + 11) as u8).collect();
                let a1 = Rectangle::new(Point::new(1, 0), Size::new(3, 2));
                let a2 = Rectangle::new(Point::new(1, 1), Size::new(4, 4));
                // adapter 6 (older corpus lines) = color_converted on the bare target = stack 0 for these images
                let stack = if adapter == 6 { 0 } else { adapter };
                macro_rules! go {
                    ($c:ty) => {{
                        let raw = ImageRaw::<$c>::new(&data, size).unwrap();
                        let s1 = raw.sub_image(&a1);
                        let s2 = s1.sub_image(&a2);
                        macro_rules! with_img {
                            ($im:expr) => {{
                                let im = $im;
                                // colour conversion on top of the adapter stack named in the op
                                if native {
                                    fault_runs!(ctx, "image", R2, stack, d => im.draw(&mut d.color_converted()))
                                } else {
                                    fault_runs!(ctx, "image", R1, stack, d => im.draw(&mut d.color_converted()))
                                }
                            }};
                        }
                        match sub {
                            0 => with_img!(Image::new(&raw, Point::new(2, 3))),
                            1 => with_img!(Image::new(&s1, Point::new(2, 3))),
                            _ => with_img!(Image::with_center(&s2, Point::new(2, 3))),
                        }
                    }};
                }
                macro_rules! go_rgb {
                    () => {{
                        let raw = ImageRaw::<Rgb565>::new(&data, size).unwrap();
                        let s1 = raw.sub_image(&a1);
                        let s2 = s1.sub_image(&a2);
                        macro_rules! with_img {
                            ($im:expr) => {{
                                let im = $im;
                                if native {
                                    fault_runs!(ctx, "image", R2, stack, d => im.draw(d))
                                } else {
                                    fault_runs!(ctx, "image", R1, stack, d => im.draw(d))
                                }
                            }};
                        }
                        match sub {
                            0 => with_img!(Image::new(&raw, Point::new(2, 3))),
                            1 => with_img!(Image::new(&s1, Point::new(2, 3))),
                            _ => with_img!(Image::with_center(&s2, Point::new(2, 3))),
                        }
                    }};
                }
                match bits {
                    1 => go!(BinaryColor),
                    8 => go!(Gray8),
                    _ => go_rgb!(),
                }
            }
            "faults.pixel" => {
                let p = t.point();
                let c = t.u32();
                let adapter = t.u32();
                let native = t.u32() == 1;
                ctx.count(&format!("pixel:adapter{}", adapter));
                if adapter == 6 {
                    let px = Pixel(p, BinaryColor::from_num(c & 1));
                    if native {
                        fault_runs!(ctx, "pixel", R2, 0, d => px.draw(&mut d.color_converted()))
                    } else {
                        fault_runs!(ctx, "pixel", R1, 0, d => px.draw(&mut d.color_converted()))
                    }
                } else {
                    let px = Pixel(p, Rgb565::from_num(c));
                    if native {
                        fault_runs!(ctx, "pixel", R2, adapter, d => px.draw(d))
                    } else {
                        fault_runs!(ctx, "pixel", R1, adapter, d => px.draw(d))
                    }
                }
            }
            "faults.pixiter" => {
                let pts = parse_pts(t.str());
                let c = t.u32();
                let adapter = t.u32();
                let native = t.u32() == 1;
                ctx.count(&format!("pixiter:adapter{}", adapter));
                if adapter == 6 {
                    let col = BinaryColor::from_num(c & 1);
                    if native {
                        fault_runs!(ctx, "pixiter", R2, 0, d => pts.iter().map(|p| Pixel(*p, col)).draw(&mut d.color_converted()))
                    } else {
                        fault_runs!(ctx, "pixiter", R1, 0, d => pts.iter().map(|p| Pixel(*p, col)).draw(&mut d.color_converted()))
                    }
                } else {
                    let col = Rgb565::from_num(c);
                    if native {
                        fault_runs!(ctx, "pixiter", R2, adapter, d => pts.iter().map(|p| Pixel(*p, col)).draw(d))
                    } else {
                        fault_runs!(ctx, "pixiter", R1, adapter, d => pts.iter().map(|p| Pixel(*p, col)).draw(d))
                    }
                }
            }
            "faults.whitespace" => {
                let spaced = embedded_graphics::mono_font::MonoFont { character_spacing: 2, ..ascii::FONT_6X10 };
                let fi = t.usize();
                let font = if fi == 3 { &spaced } else { [&ascii::FONT_4X6, &ascii::FONT_6X10, &ascii::FONT_9X15][fi] };
                let mask = t.u32();
                let baseline = [Baseline::Top, Baseline::Bottom, Baseline::Middle, Baseline::Alphabetic][t.usize()];
                let width = t.u32();
                let adapter = t.u32();
                let native = t.u32() == 1;
                ctx.count(&format!("whitespace:adapter{}", adapter));
                ctx.count(if width == 0 { "whitespace:width0" } else { "whitespace:width>0" });
                let mut b = MonoTextStyleBuilder::<Rgb565>::new().font(font);
                if mask & 1 != 0 {
                    b = b.text_color(Rgb565::new(1, 2, 3));
                }
                if mask & 2 != 0 {
                    b = b.background_color(Rgb565::new(3, 2, 1));
                }
                if mask & 4 != 0 {
                    b = b.underline();
                }
                if mask & 8 != 0 {
                    b = b.strikethrough_with_color(Rgb565::new(9, 9, 9));
                }
                let style = b.build();
                let pos = Point::new(3, 9);
                if native {
                    fault_runs!(ctx, "whitespace", R2, adapter, d => style.draw_whitespace(width, pos, baseline, d))
                } else {
                    fault_runs!(ctx, "whitespace", R1, adapter, d => style.draw_whitespace(width, pos, baseline, d))
                }
            }
            "faults.clear" => {
                let c = t.u32();
                let adapter = t.u32();
                let cc = t.u32() == 1;
                let native = t.u32() == 1;
                ctx.count(&format!("clear:adapter{}:cc{}:native{}", adapter, cc as u32, native as u32));
                if cc {
                    let col = BinaryColor::from_num(c & 1);
                    if native {
                        fault_runs!(ctx, "clear", R2, adapter, d => d.color_converted().clear(col))
                    } else {
                        fault_runs!(ctx, "clear", R1, adapter, d => d.color_converted().clear(col))
                    }
                } else {
                    let col = Rgb565::from_num(c);
                    if native {
                        fault_runs!(ctx, "clear", R2, adapter, d => d.clear(col))
                    } else {
                        fault_runs!(ctx, "clear", R1, adapter, d => d.clear(col))
                    }
                }
            }
            other => panic!("unknown op {}", other),
        };
        if out.n >= 2 {
            ctx.nontrivial(op);
        }
        ctx.count_n("fault-runs", out.tested as u64);
        ctx.count(match out.n {
            0 => "calls:0",
            1 => "calls:1",
            2..=8 => "calls:2-8",
            9..=48 => "calls:9-48",
            49..=128 => "calls:49-128",
            _ => "calls:129+",
        });
        if want_pfx {
            ctx.count("prefix-ops");
            return format!("n={} tested={} {}", out.n, out.tested, out.pfx);
        }
        format!("n={} tested={}", out.n, out.tested)
    }
}
