//! module `thick` (serves C17, stroked-line sentence) — the pixels of a stroked `Line`.
//!
//! Stream (compared with the Lean model `EG.Model.ThickLine`, `Thick.thickPoints`):
//!   thick.points x0 y0 x1 y1 w -> the points of
//!       `Line::new(s, e).into_styled(PrimitiveStyle::with_stroke(c, w)).pixels()` in emission
//!       order (format of `m_line::pts_digest`: full list up to 64 points, count + first + last +
//!       order-sensitive hash beyond). The same op also draws the styled line into the recording
//!       target `R1`: the pixel MAP must be the one of `pixels()` (C01's text, class
//!       `C01:pixels-vs-draw:thick-line`); that `draw` is ONE `draw_iter` call with the same pixel
//!       SEQUENCE is validated in the check of C01 only, as `C01:tie-hypothesis:line-draw-is-one-draw_iter`.
//!
//!   thick.skips x0 y0 x1 y1 w  -> `skL skR n`: the `Extra` perpendicular steps `ParallelsIterator::next_parallel` takes
//!                                 without returning a parallel on the left / right side, and the number of parallels,
//!                                 of `ParallelsIterator::new(line, w, StrokeOffset::None)` run to its end - computed by the
//!                                 port `joins_port::skipped_extras` (the iterator is private). These are the counters the
//!                                 band oracle discounts with; the model computes them with `Thick.skipTotals`
//!                                 (EG/Model/ThickSkips.lean), the counters of the theorem `thick_band_with_skipped_discount`.
//!   thick.bbox x0 y0 x1 y1 w   -> `bounding_box()` of the same styled line (`styled_bounding_box`,
//!       i.e. `Line::extents(w, StrokeOffset::None)`), as `x,y,w,h`; compared with
//!       `Thick.styledBoundingBox`. Oracle `C02:line-bbox-contains-pixels` (counts for C02 only):
//!       every pixel of `pixels()` lies inside that box.
//!
//! Both streams are also generated as a SMALL SLICE (`generate_line_slice`, ~230 lines per stream) for the checks of
//! C01, C02 and C07, whose theorems speak about the single stroked line (Props/C01/Line.lean ties to `thick.points` /
//! `C01:pixels-vs-draw:thick-line` / `C01:tie-hypothesis:line-draw-is-one-draw_iter`; C02 to `C02:line-bbox-contains-pixels`; C07 to the moved line): under C07 every line is
//! followed by the same line with moved end points and the oracles `C07:thick-line-translate` (pixel sequence and
//! picture of `translate` / `translate_mut` on the primitive and on the styled line = the shifted sequence) and
//! `C07:thick-line-bbox-translate` (the box moves along; an empty box stays empty) run on each op.
//!
//! Lean statements mirrored: `thick_width1_eq_points` (C17:thick-width1), `thick_contains_thin`
//! (C17:thick-contains-thin; proved in the stronger form "the pixel sequence starts with points()");
//! mirrored Lean statements (lean/EG/Props/C17/Stroke.lean): `thick_no_pixel_twice` (C17:thick-duplicate),
//! `thick_within_one_pixel_of_ends` (C17:thick-ends), `thick_solid` (C17:thick-hole), `thick_middle_width_partial`
//! (C17:thick-middle-width, proved with w - 3), `thick_band_*` (C17:thick-band; false in general: known finding).
//!
//! Oracle = the second sentence of C17 as predicates on the real pixel list, with FIXED metrics,
//! all in exact integer arithmetic (i128). Notation: s = start, d = (dx, dy) = end - start,
//! L2 = dx^2 + dy^2 (L = sqrt(L2) is never computed), and for a pixel p with v = p - s:
//!   cross(p) = dx v.y - dy v.x   (= L * signed perpendicular distance of p from the ideal line)
//!   dot(p)   = dx v.x + dy v.y   (= L * position of the projection of p along the segment)
//!
//!   C17:thick-contains-thin   every point of `points()` is among the stroked pixels   (w >= 1)
//!   C17:thick-duplicate       no pixel is yielded twice
//!   C17:thick-band            perpendicular distance <= w/2 + 2.5:
//!                                 4 cross(p)^2 <= (w + 5)^2 L2
//!   C17:thick-band:wide-stroke-overcount
//!                             KNOWN FINDING (known_findings.jsonl): the band predicate above fails, and
//!                             the failure is explained by the thickness accumulator of
//!                             `ParallelsIterator` not counting skipped `Extra` perpendicular steps.
//!                             `next_parallel` advances the start point of a side by one pixel along the
//!                             line's major axis for every `Extra` step of the perpendicular Bresenham
//!                             walk, which moves all later parallels of that side |cross| = m =
//!                             min(|dx|,|dy|) farther out (m/L pixels); `next` adds the matching `2m` to
//!                             `thickness_accumulator` only when the step is RETURNED as an `Extra`
//!                             parallel, not when it is skipped because the parallel error did not wrap.
//!                             With sk(side) = the number of skipped `Extra` steps on the pixel's side
//!                             (left: cross < 0, right: cross > 0) over the whole stroke, computed by the
//!                             port `joins_port::skipped_extras` of that loop, the suffixed class is
//!                             emitted exactly when EVERY pixel satisfies the band predicate after its
//!                             uncounted displacement is discounted,
//!                                 t = 2 |cross(p)| - 2 m sk(side(p)),   t <= 0 or t^2 <= (w + 3)^2 L2,   and w >= 34
//!                             (tolerance 1.5 px after the discount, tighter than the text's 2.5; the unchanged code
//!                             stays below 1.14 px; a widening defect is NOT attributed to the finding once the
//!                             discounted excess exceeds 1.5 px or for any width below 34; measured on 4000 strokes of width 13..=120 the
//!                             discounted excess over w/2 stays within [-1.26, +1.11] px, the range
//!                             [-1.21, +0.93] of narrow strokes, so the discount is the whole effect).
//!                             Axis-parallel and diagonal lines skip no step (sk = 0): any band failure
//!                             there, and any pixel outside the discounted band, stays `C17:thick-band`,
//!                             a VIOLATION. First real failures at w = 34.
//!   C17:thick-ends            projection not more than one pixel beyond either end:
//!                                 dot(p) >= 0 or dot(p)^2 <= L2,   and
//!                                 dot(p) <= L2 or (dot(p) - L2)^2 <= L2
//!   C17:thick-middle-width    "at least w - 1 pixels wide at its middle": let MID be the pixels
//!                             whose projection is within one pixel of the midpoint of the
//!                             segment, (2 dot(p) - L2)^2 <= 4 L2. The width at the middle is the
//!                             perpendicular extent of MID counted in pixels,
//!                                 (max cross(MID) - min cross(MID)) / L + 1  >=  w - 1,
//!                             i.e. MID is non-empty and, for w >= 3,
//!                                 (max cross - min cross)^2 >= (w - 2)^2 L2.
//!   C17:thick-hole            the width is SOLID (the extent above ignores holes): every lattice point q
//!                             of the ideal stroke shrunk by one pixel on every side is a stroked pixel,
//!                                 4 cross(q)^2 <= (w - 2)^2 L2                       (|dist| <= w/2 - 1),
//!                                 dot(q) >= 0, dot(q)^2 >= L2,  L2 - dot(q) >= 0, (L2 - dot(q))^2 >= L2
//!                                                      (projection at least 1 px inside both ends),
//!                             for w >= 2 and non-zero length. At the middle this is the text's "w - 1
//!                             pixels wide" read as a solid width (w - 2 plus one pixel): only holes in
//!                             the middle slab of `thick-middle-width` fail the class; holes elsewhere are
//!                             counted (`obs:thick-hole-away-from-the-middle`; none on any generated op,
//!                             also with the end margin 0) because the text speaks of the middle only.
//!                             One missing interior parallel, which the extent metric cannot see, fails it.
//!   C17:thick-width1          for w = 1 the pixel list equals `points()` (same order)
//!   zero-length lines (L2 = 0; the code strokes them as a horizontal line of length 0): the band /
//!   ends / middle predicates are evaluated with d = (1, 0), L2 = 1, the direction the code uses.
//!   C17:thick-width0          w = 0 yields no pixel
//!   draw(): C17 speaks of "a stroked line", not of the calls draw() makes. When the pixels draw() writes (through the
//!   trait defaults, in order) are not the sequence of `pixels()` - never on the unchanged tree, counter
//!   `obs:thick:draw-write-sequence-differs-from-pixels` - the clauses above are evaluated on them as well.
//!   C01:pixels-vs-draw:thick-line (counts for C01)   map(draw()) == map(pixels()); in the check of C01 also on the native
//!                             target and on two bounded targets, with C01:default-vs-native:thick-line
//!   C01:tie-hypothesis:line-draw-is-one-draw_iter (check of C01 only; a tie, not the text)
//!                             `draw` = one `draw_iter` call with the sequence of `pixels()`
//!
//! Ranges. The code computes `length_squared` and `thickness_accumulator` in `i32` and (since /repo
//! 2947525) `thickness_threshold` = (2w)^2 L2 in `i64`: what must hold is dx^2 + dy^2 < 2^31
//! (|dx|, |dy| <= 32767) and `thickness_accumulator` <= 2wL + 4 max(|dx|,|dy|) < 2^31; overflow beyond
//! that is property C08's topic. Random long lines: |dx|, |dy| <= 8000 with w in 1..=12, <= 1000 with
//! w in 1..=40. Wide strokes (w in 13..=120, all claims of the sentence are checked on them): seeded
//! random lines with |dx|, |dy| <= 10/30/100/300 - axis-parallel, diagonal, slopes m/M in 0.4..0.7
//! (where the overcount is largest), steep/flat and arbitrary ones - plus a fixed list.
use crate::common::*;
use crate::m_line::{pts_digest, STARTS};
use embedded_graphics::{
    pixelcolor::{BinaryColor, Rgb565},
    prelude::*,
    primitives::{Line, Polyline, PrimitiveStyle, PrimitiveStyleBuilder, Rectangle, StrokeAlignment, Triangle},
};
use std::collections::HashSet;

pub struct M;

pub fn thick_oracle(ctx: &mut Ctx, s: Point, e: Point, w: u32, px: &[Point]) {
    let thin: Vec<Point> = Line::new(s, e).points().collect();
    if w == 0 {
        ctx.expect(px.is_empty(), "C17:thick-width0", || format!("{:?}->{:?} w=0 yields {} px", s, e, px.len()));
        return;
    }
    let set: HashSet<(i32, i32)> = px.iter().map(|p| (p.x, p.y)).collect();
    ctx.expect(set.len() == px.len(), "C17:thick-duplicate", || {
        format!("{:?}->{:?} w={} {} px, {} distinct", s, e, w, px.len(), set.len())
    });
    ctx.expect(thin.iter().all(|p| set.contains(&(p.x, p.y))), "C17:thick-contains-thin", || {
        format!("{:?}->{:?} w={} misses a point of points()", s, e, w)
    });
    if w == 1 {
        ctx.expect(px == &thin[..], "C17:thick-width1", || format!("{:?}->{:?} w=1 differs from points()", s, e));
    }
    let (mut dx, mut dy) = ((e.x - s.x) as i128, (e.y - s.y) as i128);
    if dx == 0 && dy == 0 {
        dx = 1;
        dy = 0;
    }
    let l2 = dx * dx + dy * dy;
    let wi = w as i128;
    let (mut band_ok, mut ends_ok) = (true, true);
    let (mut cmin, mut cmax, mut nmid) = (i128::MAX, i128::MIN, 0u32);
    for p in px {
        let (vx, vy) = ((p.x - s.x) as i128, (p.y - s.y) as i128);
        let cross = dx * vy - dy * vx;
        let dot = dx * vx + dy * vy;
        if 4 * cross * cross > (wi + 5) * (wi + 5) * l2 {
            band_ok = false;
        }
        if !(dot >= 0 || dot * dot <= l2) || !(dot <= l2 || (dot - l2) * (dot - l2) <= l2) {
            ends_ok = false;
        }
        if (2 * dot - l2) * (2 * dot - l2) <= 4 * l2 {
            nmid += 1;
            cmin = cmin.min(cross);
            cmax = cmax.max(cross);
        }
    }
    // A failure of the band claim is attributed to the known finding only if every pixel is inside
    // the band once the uncounted displacement of its side (skipped Extra steps) is discounted.
    let (skl, skr, _) = joins_port::skipped_extras(((s.x as i64, s.y as i64), (e.x as i64, e.y as i64)), w);
    let sk = (skl, skr);
    let m = dx.abs().min(dy.abs());
    let mut band_class = "C17:thick-band";
    if !band_ok {
        let explained = px.iter().all(|p| {
            let cross = dx * (p.y - s.y) as i128 - dy * (p.x - s.x) as i128;
            let side_sk = if cross < 0 { skl } else { skr } as i128;
            let t = 2 * cross.abs() - 2 * m * side_sk;
            // after the discount the pixel must be within w/2 + 1.5 px (NOT the text's 2.5): exhaustively for
            // max(|dx|,|dy|) <= 300, w <= 128 (audit 4) and on 60 000 random strokes the discounted excess of the
            // unchanged code never exceeds 1.14 px. A further widening is attributed to the known finding only while
            // the discounted excess stays below 1.5 px (on worst-case lines: less than ~0.4 px more)
            t <= 0 || t * t <= (wi + 3) * (wi + 3) * l2
        });
        // (audit 4: the mechanism first exceeds the text's tolerance at w = 34 - exhaustively for all lines with
        // max(|dx|,|dy|) <= 300 and w <= 33 the unchanged code stays inside the band - so the suffix needs w >= 34;
        // below that every band failure is a VIOLATION)
        if explained && w >= 34 {
            band_class = "C17:thick-band:wide-stroke-overcount";
        }
    }
    // evidence only: the largest distance beyond w/2 seen in the run (1/1000 px; the text allows 2500),
    // as drawn and after discounting the skipped steps
    {
        let l = (l2 as f64).sqrt();
        let (mut raw, mut disc) = (f64::MIN, f64::MIN);
        for p in px {
            let cross = dx * (p.y - s.y) as i128 - dy * (p.x - s.x) as i128;
            let side_sk = if cross < 0 { skl } else { skr } as i128;
            raw = raw.max(cross.abs() as f64 / l - w as f64 / 2.0);
            disc = disc.max((cross.abs() - m * side_sk) as f64 / l - w as f64 / 2.0);
        }
        let bucket = if w <= 12 { "w<=12" } else if w < 34 { "w=13..33" } else { "w>=34" };
        for (k, v) in [("as-drawn", raw), ("skipped-steps-discounted", disc)] {
            let key = format!("thick:band-excess-max-milli-px({},{})", k, bucket);
            let v = (v.max(0.0) * 1000.0).ceil() as u64;
            let e = ctx.counters.entry(key).or_insert(0);
            if v > *e {
                *e = v;
            }
        }
    }
    ctx.expect(band_ok, band_class, || {
        let l = (l2 as f64).sqrt();
        let (mut lo, mut hi) = (0f64, 0f64);
        for p in px {
            let c = (dx * (p.y - s.y) as i128 - dy * (p.x - s.x) as i128) as f64 / l;
            lo = lo.min(c);
            hi = hi.max(c);
        }
        format!(
            "{:?}->{:?} w={} pixel farther than w/2+2.5 = {} from the line: signed distances span [{:.2}, {:.2}]; skipped Extra steps left {} right {} = {:.2} / {:.2} px not counted",
            s, e, w, w as f64 / 2.0 + 2.5, lo, hi, sk.0, sk.1,
            dx.abs().min(dy.abs()) as f64 * sk.0 as f64 / l, dx.abs().min(dy.abs()) as f64 * sk.1 as f64 / l
        )
    });
    ctx.expect(ends_ok, "C17:thick-ends", || format!("{:?}->{:?} w={} pixel more than 1 px beyond an end", s, e, w));
    let ext = if nmid > 0 { cmax - cmin } else { -1 };
    let mid_ok = nmid > 0 && (w < 3 || ext * ext >= (wi - 2) * (wi - 2) * l2);
    ctx.expect(mid_ok, "C17:thick-middle-width", || {
        format!("{:?}->{:?} w={} middle slab has {} px, perpendicular extent*L = {}", s, e, w, nmid, ext)
    });
    let hs = holes(s, e, w, &set, 1);
    // The text speaks of the width "at its middle": only holes in the middle slab (projection within one
    // pixel of the midpoint, the slab of `thick-middle-width`) are failures; holes elsewhere are counted as
    // an observation (a check must not demand more than the text; the correspondence sees them anyway).
    let (ddx, ddy) = ((e.x - s.x) as i128, (e.y - s.y) as i128);
    let in_mid = |q: &Point| {
        let dot = ddx * (q.x - s.x) as i128 + ddy * (q.y - s.y) as i128;
        (2 * dot - l2) * (2 * dot - l2) <= 4 * l2
    };
    let mid_holes: Vec<Point> = hs.iter().filter(|q| in_mid(q)).copied().collect();
    if hs.len() > mid_holes.len() {
        ctx.count("obs:thick-hole-away-from-the-middle");
    }
    ctx.expect(mid_holes.is_empty(), "C17:thick-hole", || {
        format!("{:?}->{:?} w={} {} lattice points within w/2-1 of the line in the middle slab are not stroked, e.g. {:?}", s, e, w, mid_holes.len(), mid_holes[0])
    });
}

/// Integer points q of the ideal band interior that are not in `px`:
///   perpendicular distance <= w/2 - 1:             4 cross(q)^2 <= (w - 2)^2 L2      (w >= 2)
///   projection at least `margin` px inside both ends: dot(q) >= 0, dot(q)^2 >= margin^2 L2,
///                                                   L2 - dot(q) >= 0, (L2 - dot(q))^2 >= margin^2 L2
fn holes(s: Point, e: Point, w: u32, set: &HashSet<(i32, i32)>, margin: i128) -> Vec<Point> {
    let (dx, dy) = ((e.x - s.x) as i128, (e.y - s.y) as i128);
    let mut out = Vec::new();
    if w < 2 || (dx == 0 && dy == 0) {
        return out;
    }
    let l2 = dx * dx + dy * dy;
    let wi = w as i128;
    let xmajor = dx.abs() > dy.abs();
    let (dm, dn) = if xmajor { (dx, dy) } else { (dy, dx) }; // major, minor delta
    // half-width of the band measured along the minor axis: (w/2) * L / |dm| <= w (L <= sqrt2 |dm|)
    let r = wi + 2;
    let (a0, a1) = if dm >= 0 { (0, dm) } else { (dm, 0) };
    for a in (a0 - r)..=(a1 + r) {
        // centre of the band at major offset a: minor offset a * dn / dm
        let c = (a * dn).div_euclid(dm);
        for b in (c - r)..=(c + r) {
            let (vx, vy) = if xmajor { (a, b) } else { (b, a) };
            let cross = dx * vy - dy * vx;
            let dot = dx * vx + dy * vy;
            if 4 * cross * cross > (wi - 2) * (wi - 2) * l2 {
                continue;
            }
            let inside = dot >= 0 && dot * dot >= margin * margin * l2 && l2 - dot >= 0 && (l2 - dot) * (l2 - dot) >= margin * margin * l2;
            if !inside {
                continue;
            }
            let q = (s.x + vx as i32, s.y + vy as i32);
            if !set.contains(&q) {
                out.push(Point::new(q.0, q.1));
            }
        }
    }
    out
}

/// Wide strokes run in every tier: the witnesses of C17:thick-band:wide-stroke-overcount (first failing
/// width 34; short lines fail too), and axis-parallel / diagonal / zero-length / steep / flat wide strokes.
const WIDE_FIXED: [(i32, i32, i32, i32, u32); 18] = [
    (119, 57, -119, -52, 34),
    (0, 0, 100, 50, 60),
    (-100, 50, 150, 260, 85),
    (26, -21, 1, 19, 38),
    (-9, -2, 14, -17, 36),
    (119, 57, -119, -52, 33),
    (0, 0, 40, 0, 50),
    (0, 0, 0, -30, 64),
    (5, 5, 35, 35, 48),
    (5, 5, -25, 35, 77),
    (7, -7, 7, -7, 40),
    (0, 0, 3, 60, 90),
    (0, 0, -80, 5, 120),
    (0, 0, 50, 30, 34),
    (0, 0, 50, 30, 119),
    (0, 0, 1, 0, 100),
    (0, 0, 1, 1, 100),
    (0, 0, 2, 1, 100),
];

/// Offsets of the C07 oracle of `thick.points` / `thick.bbox` (`C07:thick-line-translate*`).
const LINE_OFFS: [(i32, i32); 4] = [(1, 0), (0, -1), (-64, 33), (5, 3)];

/// The slice of the single-line streams for C01 / C02 / C07 (a few hundred ops per stream; the C17 check runs the
/// exhaustive grids): every (dx, dy) of a 5 x 5 lattice crossing the axes x widths 0,1,2,3,5,8 from an off-origin start,
/// the fixed wide strokes of C17, seeded random lines up to +-300 with widths up to 40 and wide strokes 13..=128 on
/// lines up to +-100. For C07 every line is followed by the same line moved by one of `LINE_OFFS` (so that the model
/// is compared on the moved line as well; the oracle `C07:thick-line-translate` compares pictures of both).
fn generate_line_slice(pid: &str, tier: Tier, rng: &mut Rng, emit: &mut dyn FnMut(String)) {
    let mut k = 0usize;
    let mut both = |x0: i64, y0: i64, x1: i64, y1: i64, w: i64, emit: &mut dyn FnMut(String)| {
        k += 1;
        emit(format!("thick.points {} {} {} {} {}", x0, y0, x1, y1, w));
        emit(format!("thick.bbox {} {} {} {} {}", x0, y0, x1, y1, w));
        if pid == "C07" {
            let d = LINE_OFFS[k % LINE_OFFS.len()];
            let (dx, dy) = (d.0 as i64, d.1 as i64);
            emit(format!("thick.points {} {} {} {} {}", x0 + dx, y0 + dy, x1 + dx, y1 + dy, w));
            emit(format!("thick.bbox {} {} {} {} {}", x0 + dx, y0 + dy, x1 + dx, y1 + dy, w));
        }
    };
    for dx in [-5i64, -2, 0, 1, 4] {
        for dy in [-4i64, -1, 0, 2, 5] {
            for w in [0i64, 1, 2, 3, 5, 8] {
                both(-3, 2, -3 + dx, 2 + dy, w, emit);
            }
        }
    }
    for (x0, y0, x1, y1, w) in WIDE_FIXED {
        both(x0 as i64, y0 as i64, x1 as i64, y1 as i64, w as i64, emit);
    }
    let n = if tier == Tier::Quick { 60 } else { 600 };
    for i in 0..n {
        let (sc, w) = if i % 3 == 2 { (100, *rng.pick(&WIDE_W) as i64) } else { (*rng.pick(&[10i64, 40, 300]), rng.range(0, 40)) };
        let (x0, y0) = (rng.range(-200, 200), rng.range(-200, 200));
        let (dx, dy) = match rng.below(6) {
            0 => (rng.range(-sc, sc), 0),
            1 => (0, rng.range(-sc, sc)),
            2 => {
                let d = rng.range(-sc, sc);
                (d, if rng.chance(1, 2) { d } else { -d })
            }
            _ => (rng.range(-sc, sc), rng.range(-sc, sc)),
        };
        both(x0, y0, x0 + dx, y0 + dy, w, emit);
    }
}

fn emit_grid(r: i32, wmax: u32, emit: &mut dyn FnMut(String)) {
    for (sx, sy) in STARTS {
        for dx in -r..=r {
            for dy in -r..=r {
                for w in 1..=wmax {
                    emit(format!("thick.points {} {} {} {} {}", sx, sy, sx + dx, sy + dy, w));
                }
            }
        }
    }
}

impl Module for M {
    fn name(&self) -> &'static str {
        "thick"
    }
    fn rule(&self) -> &'static str {
        "C17: all lines start -> start + (dx,dy), (dx,dy) in [-R,R]^2, x stroke widths 1..=W (R,W = 9,7 quick; 20,12 thorough) \
         from 3 start points, width 0 on a small grid, then seeded random long lines (|dx|,|dy| <= 8000 with w in 1..=12, \
         <= 1000 with w in 1..=40) and wide strokes w in 13..=120 (fixed witnesses of the known finding \
         C17:thick-band:wide-stroke-overcount, 16 octant variants at w = 40, seeded random lines up to 300 px: axis-parallel, \
         diagonal, slopes 0.4..0.7, steep/flat, arbitrary; 120 quick / 3000 thorough); counters thick:w=.. (widths above 12 in \
         buckets), thick:wide; non-trivial = width >= 2; distinct = distinct op text. thick.skips (skipped Extra steps per side + number \
         of parallels, port vs model): every (dx,dy) in [-10,10]^2 (thorough [-24,24]^2) x widths 0,1,4,9,21,33,34,60,128 and every wide \
         stroke above; counters thick:skips, thick:skips:some-step-skipped (= non-trivial). \
         C02/C07/C19 (joins): ALL polylines with 2 and 3 vertices on a 5x5 lattice crossing the axes with irregular spacing \
         (x in -4,-1,0,2,6; y in -5,-2,0,1,3; repeated vertices, reversals and colinear triples included; thorough 6x6) x widths \
         2..=5 (C19: width 1; thorough 2,3,5,7), a seeded sample of 4/5-vertex ones (arbitrary, closed-looking, self-overlapping, \
         repeated middle vertex), known skeleton-segment shapes continued by every lattice point in both directions, ALL triangles \
         on a 4x4 lattice x widths 1..=4 x 3 alignments x rotating fill/stroke colour options (thorough 5x5 x widths 0,1,2,3,5), \
         seeded random polylines / triangles within +-60; offsets rotate through 7 axis-crossing values (C07: non-zero ones); \
         then the display-scale / wide-stroke slice: widths 13,20,33,34,40,64,100,128 (C19: width 1) on fixed small shapes x all \
         alignments and on seeded random polylines (2..=6 vertices) / triangles (alignments rotating) with vertices within +-100, \
         +-300, +-1024 or a 150 px shape placed anywhere within +-1024 (quick 24 + 48 fixed and 42 + 42 random ops, thorough 346 + 345 random), half of the offsets \
         moving the shape onto the origin (counters polyline:wide:*, triangle:wide:*, *:display-scale:*). \
         The counters polyline:join:*, triangle:join:*, polyline:skeleton-segments, triangle:collapsed-inside report the join kinds \
         exercised (computed by a port of the private join code and compared with the Lean model's classification in the result line). \
         Non-trivial: at least one pixel drawn (C07: and a non-zero offset). \
         C01 / C02 / C07 additionally: the single stroked line (thick.points + thick.bbox) on a 5x5 lattice of (dx,dy) x widths \
         0,1,2,3,5,8, the 18 fixed wide strokes of C17, seeded random lines up to +-300 (widths <= 40) and wide strokes 13..=128 \
         (quick 228 lines, thorough 768; C07: each followed by the same line moved by one of 4 offsets). \
         C01 (when the check of C01 runs this module): a small slice of the same two streams for the three drawing paths - every \
         segment of the 5x5 lattice x widths 0..=5 (thorough 6x6 x 0,1,2,3,4,5,7,9), every triple of a 4x3 sub-lattice (thorough 5x4) \
         with widths rotating, 600 (6000) sampled 4/5-vertex polylines, the skeleton shapes, ALL triangles of the 4x4 (5x5) lattice x 3 \
         alignments with widths 0,1,2,3,4,6,9 and four colour options (stroke, fill+stroke, fill, none) rotating, 250 (2500) seeded \
         random polylines and triangles within +-60, the fixed wide-stroke shapes; counters polyline:c01:*, triangle:c01:*."
    }

    fn generate(&self, pid: &str, tier: Tier, rng: &mut Rng, emit: &mut dyn FnMut(String)) {
        if pid != "C17" {
            // joins streams (C02, C07, C19); the C17 generation below is unchanged
            generate_joins(pid, tier, rng, emit);
            // the single stroked LINE for the properties whose theorems speak about it (Props/C01/Line.lean,
            // Props/C02 line bbox, Props/C07 line translation): a small slice of thick.points / thick.bbox, from its
            // own PRNG stream so that the joins ops above stay what they were
            if pid == "C01" || pid == "C02" || pid == "C07" {
                let mut r = Rng::new(rng.next() ^ 0x7157_11CE);
                generate_line_slice(pid, tier, &mut r, emit);
            }
            return;
        }
        for dx in -2..=2 {
            for dy in -2..=2 {
                emit(format!("thick.points 1 -1 {} {} 0", 1 + dx, -1 + dy));
            }
        }
        let rb = if tier == Tier::Quick { 6 } else { 12 };
        for dx in -rb..=rb {
            for dy in -rb..=rb {
                for w in 0..=(if tier == Tier::Quick { 7 } else { 12 }) {
                    emit(format!("thick.bbox -3 2 {} {} {}", -3 + dx, 2 + dy, w));
                }
            }
        }
        if tier == Tier::Quick {
            emit_grid(9, 7, emit);
        } else {
            emit_grid(20, 12, emit);
        }
        let n = if tier == Tier::Quick { 300 } else { 6000 };
        for _ in 0..n {
            // (scale, largest width): pixel counts stay below ~100k per op
            let (sc, wmax) = *rng.pick(&[(30i64, 40i64), (100, 40), (300, 40), (1000, 40), (1000, 12), (8000, 12)]);
            let (x0, y0) = (rng.range(-2000, 2000), rng.range(-2000, 2000));
            let (dx, dy) = match rng.below(10) {
                0 => (rng.range(-sc, sc), 0),
                1 => (0, rng.range(-sc, sc)),
                2 => {
                    let d = rng.range(-sc, sc);
                    (d, if rng.chance(1, 2) { d } else { -d })
                }
                _ => (rng.range(-sc, sc), rng.range(-sc, sc)),
            };
            let w = if rng.chance(2, 3) { rng.range(1, 12) } else { rng.range(1, wmax) };
            emit(format!("thick.points {} {} {} {} {}", x0, y0, x0 + dx, y0 + dy, w));
        }
        // very long lines: a major delta above i16::MAX (round-4 seed C17-r4-1 "hardened" the thick line against
        // overflow by halving deltas above 0x7FFF, which tilts the stroke; nothing longer than 8000 was generated).
        // The squared length stays below 2^31 (major <= 46000, minor <= 3000), as the real i32 arithmetic needs.
        let nlong = if tier == Tier::Quick { 16 } else { 200 };
        for i in 0..nlong {
            let major = rng.range(32768, 46000) * if rng.chance(1, 2) { 1 } else { -1 };
            let minor = match i % 4 { 0 => 0, 1 => rng.range(-7, 7), _ => rng.range(-3000, 3000) };
            let (dx, dy) = if i % 2 == 0 { (major, minor) } else { (minor, major) };
            let (x0, y0) = (rng.range(-20000, 20000) - dx / 2, rng.range(-20000, 20000) - dy / 2);
            emit(format!("thick.points {} {} {} {} {}", x0, y0, x0 + dx, y0 + dy, 1 + i % 3));
        }
        // the skipped-step counters of the band oracle's discount (port) against the model's `skipTotals`:
        // every direction of a grid x narrow .. very wide strokes, and every wide stroke below
        let rs = if tier == Tier::Quick { 10 } else { 24 };
        for dx in -rs..=rs {
            for dy in -rs..=rs {
                for w in [0u32, 1, 4, 9, 21, 33, 34, 60, 128] {
                    emit(format!("thick.skips 2 -3 {} {} {}", 2 + dx, -3 + dy, w));
                }
            }
        }
        // wide strokes (w in 13..=120): the known finding C17:thick-band:wide-stroke-overcount shows from
        // w = 34; every other claim of the sentence is checked on them as well
        for (x0, y0, x1, y1, w) in WIDE_FIXED {
            emit(format!("thick.points {} {} {} {} {}", x0, y0, x1, y1, w));
            emit(format!("thick.skips {} {} {} {} {}", x0, y0, x1, y1, w));
        }
        for (sx, sy) in [(1, 1), (1, -1), (-1, 1), (-1, -1)] {
            for (a, b) in [(20, 12), (12, 20), (30, 14), (9, 17)] {
                emit(format!("thick.points 3 -2 {} {} 40", 3 + sx * a, -2 + sy * b));
            }
        }
        for w in [13u32, 20, 33, 34, 47, 64, 85, 120] {
            emit(format!("thick.bbox -3 2 47 32 {}", w));
            emit(format!("thick.bbox -3 2 -9 -62 {}", w));
        }
        let nwide = if tier == Tier::Quick { 120 } else { 3000 };
        for _ in 0..nwide {
            let sc = *rng.pick(&[10i64, 30, 100, 300]);
            let (x0, y0) = (rng.range(-200, 200), rng.range(-200, 200));
            let sg = |rng: &mut Rng| if rng.chance(1, 2) { 1 } else { -1 };
            let (dx, dy) = match rng.below(10) {
                0 => (rng.range(-sc, sc), 0),
                1 => (0, rng.range(-sc, sc)),
                2 => {
                    let d = rng.range(-sc, sc);
                    (d, if rng.chance(1, 2) { d } else { -d })
                }
                3..=5 => {
                    // slope minor/major in 0.4..0.7, any octant
                    let mj = rng.range(1, sc);
                    let mn = mj * rng.range(40, 70) / 100;
                    let (a, b) = if rng.chance(1, 2) { (mj, mn) } else { (mn, mj) };
                    (a * sg(rng), b * sg(rng))
                }
                6 => {
                    // steep / flat
                    let mj = rng.range(1, sc);
                    let mn = rng.range(0, 1 + mj / 8);
                    let (a, b) = if rng.chance(1, 2) { (mj, mn) } else { (mn, mj) };
                    (a * sg(rng), b * sg(rng))
                }
                _ => (rng.range(-sc, sc), rng.range(-sc, sc)),
            };
            let w = rng.range(13, 120);
            emit(format!("thick.points {} {} {} {} {}", x0, y0, x0 + dx, y0 + dy, w));
            emit(format!("thick.skips {} {} {} {} {}", x0, y0, x0 + dx, y0 + dy, w));
        }
    }

    fn execute(&self, op: &str, ctx: &mut Ctx) -> String {
        let mut t = Toks::new(op);
        match t.str() {
            "thick.points" => {
                let s = t.point();
                let e = t.point();
                let w = t.u32();
                let styled = Line::new(s, e).into_styled(PrimitiveStyle::with_stroke(BinaryColor::On, w));
                let px: Vec<Point> = styled.pixels().map(|Pixel(p, _)| p).collect();
                ctx.count(&match w {
                    0..=12 => format!("thick:w={}", w),
                    13..=33 => "thick:w=13..33".to_string(),
                    34..=64 => "thick:w=34..64".to_string(),
                    _ => "thick:w=65..".to_string(),
                });
                if w >= 13 {
                    ctx.count("thick:wide");
                }
                let (dx, dy) = (e.x - s.x, e.y - s.y);
                ctx.count(if dx == 0 && dy == 0 {
                    "thick:zero-length"
                } else if dx == 0 || dy == 0 {
                    "thick:axis-parallel"
                } else if dx.abs() == dy.abs() {
                    "thick:diagonal"
                } else {
                    "thick:oblique"
                });
                ctx.count(if dx.abs().max(dy.abs()) <= 20 { "thick:len<=20" } else { "thick:len>20" });
                if w >= 2 {
                    ctx.nontrivial(op);
                }
                thick_oracle(ctx, s, e, w, &px);
                // draw(): the property texts speak of pixel MAPS (C01) and of "a stroked line" (C17), not of how draw() talks
                // to the target. What is written through the trait defaults (R1: every call arrives as draw_iter), in order:
                let mut r1: R1<BinaryColor> = R1::unbounded();
                let res = styled.draw(&mut r1);
                let drawn: Vec<Point> = r1
                    .rec
                    .log
                    .iter()
                    .flat_map(|c| match c {
                        Call::DrawIter(v) => v.iter().map(|((x, y), _)| Point::new(*x, *y)).collect::<Vec<_>>(),
                        _ => Vec::new(),
                    })
                    .collect();
                let pxmap: PMap = px.iter().map(|p| ((p.y, p.x), 1u32)).collect();
                // C01, last sentence: pixels() fed to draw_iter leaves the map of draw() (pixels() yields the stroke colour On = 1)
                ctx.expect(res.is_ok() && r1.rec.map == pxmap, "C01:pixels-vs-draw:thick-line", || {
                    format!("{:?}->{:?} w={}: draw() {} px, pixels() {} px, {} differing entries", s, e, w, r1.rec.map.len(), pxmap.len(), map_diff(&r1.rec.map, &pxmap))
                });
                if drawn == px {
                    ctx.count("thick:draw-write-sequence=pixels-sequence");
                } else {
                    // C17 speaks of "a stroked line", which is also what draw() renders: when draw() does not simply hand
                    // out pixels() (it does on the unchanged tree), every clause of the sentence is evaluated on the
                    // pixels draw() writes as well (same predicates, same classes)
                    ctx.count("obs:thick:draw-write-sequence-differs-from-pixels");
                    if res.is_ok() {
                        thick_oracle(ctx, s, e, w, &drawn);
                    }
                }
                if ctx.pid == "C01" {
                    c01_line_paths(ctx, &styled, s, e, w, &px, &pxmap, &r1);
                }
                if ctx.pid == "C07" {
                    // C07: the stroked line moved by d (`translate` on the primitive, `translate` / `translate_mut` on the
                    // styled line) yields the pixel sequence of the unmoved one shifted by d
                    for d in LINE_OFFS.map(|(x, y)| Point::new(x, y)) {
                        let want: Vec<Point> = px.iter().map(|p| *p + d).collect();
                        let style = PrimitiveStyle::with_stroke(BinaryColor::On, w);
                        let a: Vec<Point> = Line::new(s, e).translate(d).into_styled(style).pixels().map(|Pixel(p, _)| p).collect();
                        let b: Vec<Point> = styled.translate(d).pixels().map(|Pixel(p, _)| p).collect();
                        let mut sm = styled;
                        sm.translate_mut(d);
                        let c: Vec<Point> = sm.pixels().map(|Pixel(p, _)| p).collect();
                        let mut r1: R1<BinaryColor> = R1::unbounded();
                        let ok = sm.draw(&mut r1).is_ok();
                        let wantm: PMap = want.iter().map(|p| ((p.y, p.x), 1u32)).collect();
                        ctx.expect(a == want && b == want && c == want && ok && r1.rec.map == wantm, "C07:thick-line-translate", || {
                            format!("{:?}->{:?} w={} moved by {:?}: the pixels are not the shifted pixels of the unmoved line", s, e, w, d)
                        });
                    }
                }
                pts_digest(&px)
            }
            "thick.skips" => {
                let s = t.point();
                let e = t.point();
                let w = t.u32();
                let (skl, skr, n) = joins_port::skipped_extras(((s.x as i64, s.y as i64), (e.x as i64, e.y as i64)), w);
                ctx.count("thick:skips");
                if skl + skr > 0 {
                    ctx.count("thick:skips:some-step-skipped");
                    ctx.nontrivial(op);
                }
                // (the iterator is private: the port is what the band oracle uses; the stream ties it to the model)
                format!("{} {} {}", skl, skr, n)
            }
            "thick.bbox" => {
                let s = t.point();
                let e = t.point();
                let w = t.u32();
                let styled = Line::new(s, e).into_styled(PrimitiveStyle::with_stroke(BinaryColor::On, w));
                let bb = styled.bounding_box();
                ctx.count("thick:bbox");
                ctx.expect(styled.pixels().all(|Pixel(p, _)| bb.contains(p)), "C02:line-bbox-contains-pixels", || {
                    format!("{:?}->{:?} w={} pixel outside {:?}", s, e, w, bb)
                });
                if ctx.pid == "C07" {
                    // C07: the box of the moved stroked line is the moved box (an empty box keeps being empty)
                    for d in LINE_OFFS.map(|(x, y)| Point::new(x, y)) {
                        let bd = styled.translate(d).bounding_box();
                        let ok = if bb.is_zero_sized() { bd.is_zero_sized() } else { bd == Rectangle::new(bb.top_left + d, bb.size) };
                        ctx.expect(ok, "C07:thick-line-bbox-translate", || format!("{:?}->{:?} w={} by {:?}: {} -> {}", s, e, w, d, fmt_rect(&bb), fmt_rect(&bd)));
                    }
                }
                fmt_rect(&bb)
            }
            "thick.polyline" => exec_polyline(&mut t, op, ctx),
            "thick.triangle" => exec_triangle(&mut t, op, ctx),
            _ => panic!("unknown op {}", op),
        }
    }
}

/// C01 on the single stroked line (runs in the check of C01 only): the three drawing paths - `draw()` on a draw_iter-only
/// target, `draw()` on a native-fill target, `draw_iter(pixels())` - leave the same MAP, unbounded and on two bounded
/// targets that cut the stroke (classes `C01:pixels-vs-draw:thick-line`, `C01:default-vs-native:thick-line`: the text).
/// That `draw()` is ONE `draw_iter` call carrying the SEQUENCE of `pixels()` is not a clause of C01: it is what the model
/// transcribes (`Thick.drawStyled`, Props/C01/Line.lean (a), `rfl` there), validated on the real code under the class
/// `C01:tie-hypothesis:line-draw-is-one-draw_iter` (a failure is a broken tie, not a failing input).
#[allow(clippy::too_many_arguments)]
fn c01_line_paths(ctx: &mut Ctx, styled: &embedded_graphics::primitives::Styled<Line, PrimitiveStyle<BinaryColor>>, s: Point, e: Point, w: u32, px: &[Point], pxmap: &PMap, r1: &R1<BinaryColor>) {
    let one_call_same_seq = match r1.rec.log.as_slice() {
        [Call::DrawIter(v)] => v.len() == px.len() && v.iter().zip(px).all(|(((x, y), _), p)| Point::new(*x, *y) == *p),
        _ => false,
    };
    ctx.expect(one_call_same_seq, "C01:tie-hypothesis:line-draw-is-one-draw_iter", || {
        format!("{:?}->{:?} w={}: draw() is not one draw_iter call with the sequence of pixels() ({} call(s)): the model's `Thick.drawStyled` no longer transcribes the code", s, e, w, r1.rec.log.len())
    });
    let mut r2 = R2::<BinaryColor>::unbounded();
    let ok2 = styled.draw(&mut r2).is_ok();
    ctx.expect(ok2 && r2.rec.map == *pxmap, "C01:pixels-vs-draw:thick-line", || {
        format!("{:?}->{:?} w={}: draw() on the native-fill target {} px, pixels() {} px", s, e, w, r2.rec.map.len(), pxmap.len())
    });
    ctx.expect(r1.rec.map == r2.rec.map, "C01:default-vs-native:thick-line", || {
        format!("{:?}->{:?} w={}: draw_iter-only target {} px, native-fill target {} px, {} differing entries", s, e, w, r1.rec.map.len(), r2.rec.map.len(), map_diff(&r1.rec.map, &r2.rec.map))
    });
    let bb = styled.bounding_box();
    if !pxmap.is_empty() && bb.size.width <= 4096 && bb.size.height <= 4096 {
        let (w3, h3) = ((bb.size.width / 3) as i32 + 1, (bb.size.height / 3) as i32 + 1);
        for tl in [bb.top_left + Point::new(w3, h3), bb.top_left - Point::new(w3, h3)] {
            let b = Rectangle::new(tl, bb.size);
            let (mut b1, mut b2, mut bp) = (R1::<BinaryColor>::new(b), R2::<BinaryColor>::new(b), R1::<BinaryColor>::new(b));
            let ok = styled.draw(&mut b1).is_ok() & styled.draw(&mut b2).is_ok() & bp.draw_iter(styled.pixels()).is_ok();
            if b2.rec.map.len() != pxmap.len() {
                ctx.count("thick:c01:cut-by-a-bounded-target");
            }
            // the picture on a bounded target is the unbounded picture restricted to the box
            let want: PMap = pxmap.iter().filter(|((y, x), _)| b.contains(Point::new(*x, *y))).map(|(k, v)| (*k, *v)).collect();
            ctx.expect(ok && b1.rec.map == b2.rec.map, "C01:default-vs-native:thick-line", || {
                format!("{:?}->{:?} w={} target {}: draw_iter-only {} px, native-fill {} px", s, e, w, fmt_rect(&b), b1.rec.map.len(), b2.rec.map.len())
            });
            ctx.expect(ok && bp.rec.map == b2.rec.map && b2.rec.map == want, "C01:pixels-vs-draw:thick-line", || {
                format!("{:?}->{:?} w={} target {}: draw_iter(pixels()) {} px, draw() {} px, unbounded picture inside the box {} px", s, e, w, fmt_rect(&b), bp.rec.map.len(), b2.rec.map.len(), want.len())
            });
        }
    }
}

// =============================================================================================
// Joins: stroked polylines (any width) and stroked triangles — streams `thick.polyline`,
// `thick.triangle` (properties C02, C07, C19). Model: lean/EG/Model/{LinearEquation, Intersection,
// LineJoin, ThickSegment, ThickPolyline, ThickTriangle}.lean, driver lean/EG/Driver/Thick.lean.
//
//   thick.polyline tx ty n x1 y1 .. xn yn w
//       `Polyline::new(&[v1..vn]).translate((tx,ty)).into_styled(PrimitiveStyle::with_stroke(On, w))`
//       -> `bb=<bounding_box()> k=<kinds of the interior joins> s=<number of skeleton segments>
//           draw=<call log of draw() on the native-fill target R2> px=<pixels()>`
//          k:    one letter per interior join: M miter, b/B bevel (outer side left/right), d/D degenerate, C colinear;
//                `-` if there is none. k and s come from `joins_port` (the join code is private) and are compared
//                with the model's own classification; they feed the distribution counters.
//          draw: `-` (no call) | `di:<points digest>` (one draw_iter call) |
//                `fs:<digest of the fill_solid rectangles as the point list tl,(w,h),tl,(w,h),..>`
//          px:   points digest of `pixels()` in emission order (format of `m_line::pts_digest`)
//          g:    `*` here; the model driver prints one character per guard of the join theorems (1 holds, 0 fails, - not
//                applicable; order: lean/EG/Driver/Thick.lean `polyGuardBits` / `triGuardBits`). Not compared (check.py
//                strips the token); tallied into the evidence as coverage.guard_bits. Both streams end with it.
//
//   thick.triangle dx dy x1 y1 x2 y2 x3 y3 w align fill stroke
//       `Triangle::new(v1, v2, v3).translate((dx,dy)).into_styled(style)`, style = stroke width w, alignment
//       (0 = Inside, 1 = Center, 2 = Outside), fill / stroke colour (`-` or the Rgb565 raw value)
//       -> `bb=<bounding_box()> k=<kinds of the three joins of the clockwise-sorted triangle> c=<is_collapsed: 0/1>
//           draw=<fill_solid calls of draw() on R2 as the point list tl,(w,colour),..; `-` = no call>
//           px=<pixels() in emission order as the point list p,(colour,0),..>` (digests as above)
//
// Oracles (property texts as predicates on the real results; the logic of m_styled.rs):
//   C02:outside-bbox:thick-polyline      every pixel drawn (draw() and pixels()) lies inside bounding_box()
//   C01:pixels-vs-draw:thick-polyline    pixels() and draw() paint the same set (check of C01: also draw_iter(pixels()) vs draw()
//                                        on two bounded targets that cut the shape)
//   C01:default-vs-native:thick-polyline (check of C01 only) draw() leaves the same map on a draw_iter-only target (trait
//                                        defaults) and on a native-fill target, unbounded and on the two bounded targets;
//                                        likewise C01:default-vs-native:thick-triangle. Counters `*:c01:*` report the paths
//                                        taken (width 0 / 1 / thick, translated target), triangles whose scanlines overlap
//                                        (with different colours: the order of the calls decides) and whether the write
//                                        sequence of draw() through the trait defaults equals the sequence of pixels()
//                                        (what Props/C01/{Polyline,Triangle}.lean prove of the model; an observation).
//   C07:translate-field:thick-polyline   picture / non-empty bounding box of the polyline with `translate` = t
//                                        is the picture / box of the untranslated polyline shifted by t
//   C07:translate-mut-differs:thick-polyline
//   C07:draw-not-shifted:thick-polyline / C07:bbox-not-shifted:thick-polyline
//                                        the polyline with MOVED VERTICES (v + t, translate = 0) paints the shifted
//                                        picture and has the shifted box (since /repo ab2e75b join intersections are
//                                        rounded half up, independent of the position; the former finding
//                                        "join-rounding-tie" is repaired, its witnesses are in corpus/C07.ops)
//   C19:polyline-width1                  width 1: the picture is the `points()` set and pixels() = points()
//   C02:outside-bbox:thick-triangle, C02:transparent-draws:thick-triangle, C01:pixels-vs-draw:thick-triangle,
//   C07:draw-not-shifted:thick-triangle, C07:bbox-not-shifted:thick-triangle, C07:translate-mut-differs:thick-triangle
//                                        the same predicates for the triangle moved by (dx,dy) against the unmoved one
//   counters `triangle:scanlines:*`      (observations, no oracle: the property text is silent) the triangle's `ScanlineIterator` is
//                                        not fused; polling `pixels()` beyond its first `None` must not yield again, and every row of
//                                        bounding_box() should be painted when every scanline has a colour (`EGV_ROWHUNT=1` prints
//                                        the op of every exception to stderr). Never seen on 3.5 million aimed ops (exhaustive 7x7
//                                        lattice x widths 0..6 x alignments, slivers, flat, sharp corners, display scale).
//   C19:tri-outline                      width 1 with a stroke colour: the stroke-coloured pixels are the union of the
//                                        three edge lines' `Line::points()`, each edge in one of its two orientations
//                                        (the predicate of the `tri` module)
// =============================================================================================

const LAT_X: [i32; 5] = [-4, -1, 0, 2, 6];
const LAT_Y: [i32; 5] = [-5, -2, 0, 1, 3];
const OFFS: [(i32, i32); 7] = [(0, 0), (1, 0), (0, -1), (-7, -9), (5, 3), (-3, 4), (64, -33)];

const SKELETON_BASES: [[(i32, i32); 3]; 8] = [
    [(-1, -5), (2, 0), (6, 3)],
    [(0, -5), (2, -2), (6, 1)],
    [(-4, 0), (-1, -2), (2, 0)],
    [(-4, 1), (0, -2), (2, -5)],
    [(2, 1), (0, -2), (2, -5)],
    [(-4, 3), (-1, 1), (2, 3)],
    [(-1, 3), (2, 1), (6, -5)],
    [(-5, -4), (-1, 5), (3, 2)],
];

fn poly_op(tr: (i32, i32), vs: &[(i32, i32)], w: u32) -> String {
    let mut s = format!("thick.polyline {} {} {}", tr.0, tr.1, vs.len());
    for v in vs {
        s.push_str(&format!(" {} {}", v.0, v.1));
    }
    s.push_str(&format!(" {}", w));
    s
}

fn offset_for(pid: &str, k: usize) -> (i32, i32) {
    if pid == "C07" {
        OFFS[1 + k % (OFFS.len() - 1)]
    } else {
        OFFS[k % OFFS.len()]
    }
}

/// Fill / stroke colour options of the C01 slice: the three of `TRI_STYLES` plus "no colour at all".
const C01_TRI_STYLES: [(Option<u32>, Option<u32>); 4] = [(None, Some(1)), (Some(2), Some(1)), (Some(2), None), (None, None)];

/// The C01 slice of the joins streams (runs only when `modules_for("C01")` lists `thick`): every path of
/// `draw_styled` / `pixels()` of stroked polylines (width 0: nothing; 1: one `draw_iter` of `points()`; > 1:
/// one `fill_solid` per scanline, on `target.translated(..)` when `translate` is non-zero) and of styled
/// triangles (widths 0, 1 and wider x three alignments x four colour options, transparent ones included).
/// Small on purpose (quick ~19 000 ops, ~10 s for both sides): the exhaustive lattices of C02 / C07 cover the join
/// geometry; here the op's oracles compare the three drawing paths (classes `C01:*:thick-*`), and the result
/// line (`draw=` call log on R2, `px=` pixel sequence) ties Props/C01/{Polyline,Triangle}.lean to the code.
fn generate_c01_joins(tier: Tier, rng: &mut Rng, emit: &mut dyn FnMut(String)) {
    let quick = tier == Tier::Quick;
    let pid = "C01";
    let (lx, ly): (Vec<i32>, Vec<i32>) = if quick {
        (LAT_X.to_vec(), LAT_Y.to_vec())
    } else {
        (vec![-7, -4, -1, 0, 2, 6], vec![-8, -5, -2, 0, 1, 3])
    };
    let mut lat: Vec<(i32, i32)> = Vec::new();
    for &y in &ly {
        for &x in &lx {
            lat.push((x, y));
        }
    }
    // a sub-lattice for the triples (quick 4 x 3, thorough 5 x 4 points)
    let sub: Vec<(i32, i32)> = lat
        .iter()
        .copied()
        .filter(|(x, y)| *x != lx[1] && *y != ly[1] && (quick && *y != ly[3] || !quick && *y != ly[4]))
        .collect();
    let widths: Vec<u32> = if quick { vec![0, 1, 2, 3, 4, 5] } else { vec![0, 1, 2, 3, 4, 5, 7, 9] };
    let mut k = 0usize;
    for &w in &widths {
        emit(poly_op(offset_for(pid, 0), &[], w));
        emit(poly_op(offset_for(pid, 1), &[(2, -3)], w));
        emit(poly_op(offset_for(pid, 2), &[(2, -3), (2, -3)], w));
    }
    // every segment of the lattice x every width
    for &a in &lat {
        for &b in &lat {
            for &w in &widths {
                k += 1;
                emit(poly_op(offset_for(pid, k), &[a, b], w));
            }
        }
    }
    // every triple of the sub-lattice, widths rotating (repeated vertices, reversals, colinear triples included)
    for &a in &sub {
        for &b in &sub {
            for &c in &sub {
                k += 1;
                emit(poly_op(offset_for(pid, k), &[a, b, c], widths[1 + k % (widths.len() - 1)]));
            }
        }
    }
    // 4- and 5-vertex ones: arbitrary, closed-looking, going back over a segment (overlapping scanlines of one row)
    let nsample = if quick { 600 } else { 6000 };
    for i in 0..nsample {
        let n = if i % 4 == 3 { 5 } else { 4 };
        let mut vs: Vec<(i32, i32)> = (0..n).map(|_| *rng.pick(&lat)).collect();
        match i % 5 {
            1 => {
                let f = vs[0];
                *vs.last_mut().unwrap() = f;
            }
            2 => vs[2] = vs[0],
            3 => vs[2] = vs[1],
            _ => {}
        }
        k += 1;
        emit(poly_op(offset_for(pid, k), &vs, *rng.pick(&widths)));
    }
    for base in SKELETON_BASES {
        for &d in &lat {
            k += 1;
            emit(poly_op(offset_for(pid, k), &[base[0], base[1], base[2], d], 2));
        }
    }
    // triangles: every triangle of a 4 x 4 lattice (thorough 5 x 5) x three alignments, widths and colour options
    // rotating independently (periods 7 and 4)
    let (tx, ty): (Vec<i32>, Vec<i32>) = if quick { (vec![-3, -1, 0, 4], vec![-4, 0, 1, 3]) } else { (vec![-5, -3, -1, 0, 4], vec![-6, -4, 0, 1, 3]) };
    let tw: [u32; 7] = [0, 1, 2, 3, 4, 6, 9];
    let mut j = 0usize;
    for &ay in &ty {
        for &ax in &tx {
            for &by in &ty {
                for &bx in &tx {
                    for &cy in &ty {
                        for &cx in &tx {
                            for align in 0..3u32 {
                                j += 1;
                                let (fill, stroke) = C01_TRI_STYLES[j % 4];
                                emit(tri_op(offset_for(pid, j / 3), &[(ax, ay), (bx, by), (cx, cy)], tw[j % 7], align, fill, stroke));
                            }
                        }
                    }
                }
            }
        }
    }
    // seeded random ones within +-60, moved by up to +-80
    let nrand = if quick { 250 } else { 2500 };
    for _ in 0..nrand {
        let n = rng.range(2, 6) as usize;
        let vs: Vec<(i32, i32)> = (0..n).map(|_| (rng.range(-60, 60) as i32, rng.range(-60, 60) as i32)).collect();
        let tr = (rng.range(-80, 80) as i32, rng.range(-80, 80) as i32);
        emit(poly_op(tr, &vs, rng.range(0, 9) as u32));
        let mut p = || (rng.range(-60, 60) as i32, rng.range(-60, 60) as i32);
        let v = [p(), p(), p()];
        let w = rng.range(0, 12) as u32;
        let align = rng.below(3) as u32;
        let (fill, stroke) = *rng.pick(&C01_TRI_STYLES);
        let d = (rng.range(-80, 80) as i32, rng.range(-80, 80) as i32);
        emit(tri_op(d, &v, w, align, fill, stroke));
    }
    // wide strokes on fixed small shapes (the widths of the display-scale slice)
    for &w in &WIDE_W {
        for vs in [vec![(-20, -10), (30, 15)], vec![(-30, 5), (10, -25), (40, 20)], vec![(-25, 0), (25, 3), (-20, 6), (30, -9)]] {
            k += 1;
            emit(poly_op(offset_for(pid, k), &vs, w));
        }
        for v in [[(-30, -20), (40, -5), (5, 35)], [(-40, 0), (40, 6), (0, -3)]] {
            for align in 0..3u32 {
                k += 1;
                let (fill, stroke) = C01_TRI_STYLES[k % 3];
                emit(tri_op(offset_for(pid, k), &v, w, align, fill, stroke));
            }
        }
    }
}

fn generate_joins(pid: &str, tier: Tier, rng: &mut Rng, emit: &mut dyn FnMut(String)) {
    if pid == "C01" {
        generate_c01_joins(tier, rng, emit);
        return;
    }
    if !(pid == "C02" || pid == "C07" || pid == "C19") {
        return;
    }
    let quick = tier == Tier::Quick;
    let widths: Vec<u32> = match (pid, quick) {
        ("C19", _) => vec![1],
        (_, true) => vec![2, 3, 4, 5],
        (_, false) => vec![2, 3, 5, 7],
    };
    let (lx, ly): (Vec<i32>, Vec<i32>) = if quick {
        (LAT_X.to_vec(), LAT_Y.to_vec())
    } else {
        (vec![-7, -4, -1, 0, 2, 6], vec![-8, -5, -2, 0, 1, 3])
    };
    let mut lat: Vec<(i32, i32)> = Vec::new();
    for &y in &ly {
        for &x in &lx {
            lat.push((x, y));
        }
    }
    let mut k = 0usize;
    // degenerate vertex counts
    for &w in &widths {
        emit(poly_op(offset_for(pid, 0), &[], w));
        emit(poly_op(offset_for(pid, 1), &[(2, -3)], w));
    }
    // all polylines with 2 and 3 vertices on the lattice (repeated vertices, reversals and
    // colinear triples included)
    for &a in &lat {
        for &b in &lat {
            for &w in &widths {
                k += 1;
                emit(poly_op(offset_for(pid, k), &[a, b], w));
            }
        }
    }
    for &a in &lat {
        for &b in &lat {
            for &c in &lat {
                for &w in &widths {
                    k += 1;
                    emit(poly_op(offset_for(pid, k), &[a, b, c], w));
                }
            }
        }
    }
    // a sample of 4- and 5-vertex ones: arbitrary, closed-looking (last = first), self-overlapping
    // (going back over a segment), zigzags
    let nsample = if quick { 1200 } else { 12_000 };
    for i in 0..nsample {
        let n = if i % 4 == 3 { 5 } else { 4 };
        let mut vs: Vec<(i32, i32)> = (0..n).map(|_| *rng.pick(&lat)).collect();
        match i % 5 {
            1 => {
                let f = vs[0];
                *vs.last_mut().unwrap() = f; // closed-looking
            }
            2 => {
                vs[2] = vs[0]; // a -> b -> a -> ..
            }
            3 => {
                vs[2] = vs[1]; // repeated vertex in the middle
            }
            _ => {}
        }
        let w = *rng.pick(&widths);
        k += 1;
        emit(poly_op(offset_for(pid, k), &vs, w));
    }
    // skeleton segments (a rounded miter of a width-2 stroke whose two corners coincide) are rare
    // (about 2 per 1000 random small polylines): known ones, continued by every lattice point, in
    // both directions
    if pid != "C19" {
        for base in SKELETON_BASES {
            for &d in &lat {
                k += 1;
                let fwd = [base[0], base[1], base[2], d];
                emit(poly_op(offset_for(pid, k), &fwd, 2));
                let back = [d, base[2], base[1], base[0]];
                emit(poly_op(offset_for(pid, k + 1), &back, 2));
            }
        }
    }
    generate_triangles(pid, tier, rng, emit);
    // seeded random polylines within +-60
    let nrand = if quick { 400 } else { 4000 };
    for _ in 0..nrand {
        let n = rng.range(2, 6) as usize;
        let vs: Vec<(i32, i32)> = (0..n).map(|_| (rng.range(-60, 60) as i32, rng.range(-60, 60) as i32)).collect();
        let w = if pid == "C19" { 1 } else { rng.range(2, 9) as u32 };
        let tr = (rng.range(-80, 80) as i32, rng.range(-80, 80) as i32);
        emit(poly_op(tr, &vs, w));
    }
    generate_wide_joins(pid, tier, rng, emit);
}

/// Stroke widths of the display-scale / wide-stroke slice: above the widths of the lattice and random
/// slices (<= 9 polylines, <= 12 triangles), both sides of the first width at which the C17 finding
/// shows (34), up to the largest width of the display-scale theorems (128).
const WIDE_W: [u32; 8] = [13, 20, 33, 34, 40, 64, 100, 128];

/// (class, number of polylines, number of triangles) of the seeded part of the slice. Classes:
///   near  vertices within +-100
///   far   a shape of extent <= 150 placed anywhere within +-1024 (large absolute coordinates in the join
///         arithmetic at the cost of a small picture)
///   mid   vertices within +-300
///   span  vertices anywhere within +-1024 (pictures of up to 2048 x 2048: the Lean model walks every outline
///         line once per row, 1.4 - 1.9 s per op; near 60 - 70 ms, far ~100 ms, mid 150 - 300 ms)
fn wide_classes(tier: Tier) -> [(&'static str, usize, usize); 4] {
    if tier == Tier::Quick {
        [("near", 20, 20), ("far", 16, 16), ("mid", 5, 5), ("span", 1, 1)]
    } else {
        [("near", 150, 150), ("far", 150, 150), ("mid", 40, 40), ("span", 6, 5)]
    }
}

/// The display-scale / wide-stroke slice of the joins streams (C02, C07: widths `WIDE_W`, coordinates up to
/// +-1024, 2..=6 vertices, all alignments, offsets that move the shape across the axes; C19: width 1 at the
/// same coordinates). The domain of the display-scale theorems (Props/C07/JoinsDisplayScale.lean,
/// Props/C02/JoinsBBox.lean: vertices within +-1024, widths <= 128) is tied to the real code here.
fn generate_wide_joins(pid: &str, tier: Tier, rng: &mut Rng, emit: &mut dyn FnMut(String)) {
    let c19 = pid == "C19";
    let mut k = 0usize;
    let mut width = |rng: &mut Rng| -> u32 {
        if c19 {
            1
        } else {
            *rng.pick(&WIDE_W)
        }
    };
    // fixed small shapes x every width (x every alignment): a single segment, a sharp (bevel / degenerate)
    // join, a polyline going back over itself; an ordinary and a thin triangle
    if !c19 {
        for &w in &WIDE_W {
            for vs in [vec![(-20, -10), (30, 15)], vec![(-30, 5), (10, -25), (40, 20)], vec![(-25, 0), (25, 3), (-20, 6), (30, -9)]] {
                k += 1;
                emit(poly_op(offset_for(pid, k), &vs, w));
            }
            for v in [[(-30, -20), (40, -5), (5, 35)], [(-40, 0), (40, 6), (0, -3)]] {
                for align in 0..3u32 {
                    k += 1;
                    let (fill, stroke) = TRI_STYLES[k % 3];
                    emit(tri_op(offset_for(pid, k), &v, w, align, fill, stroke));
                }
            }
        }
    }
    // an offset: half of them move the shape (its first vertex `a`) onto the origin, across both axes
    let offset = |rng: &mut Rng, a: (i32, i32)| -> (i32, i32) {
        let d = if rng.chance(1, 2) {
            (-a.0 + rng.range(-40, 40) as i32, -a.1 + rng.range(-40, 40) as i32)
        } else {
            (rng.range(-300, 300) as i32, rng.range(-300, 300) as i32)
        };
        if d == (0, 0) {
            (1, -1)
        } else {
            d
        }
    };
    let vertices = |rng: &mut Rng, class: &str, n: usize| -> Vec<(i32, i32)> {
        let (c, r): ((i64, i64), i64) = match class {
            "near" => ((0, 0), 100),
            "mid" => ((0, 0), 300),
            "span" => ((0, 0), 1024),
            _ => ((rng.range(-949, 949), rng.range(-949, 949)), 75),
        };
        (0..n).map(|_| ((c.0 + rng.range(-r, r)) as i32, (c.1 + rng.range(-r, r)) as i32)).collect()
    };
    for (class, npoly, ntri) in wide_classes(tier) {
        for _ in 0..npoly {
            let n = rng.range(2, 6) as usize;
            let mut vs = vertices(rng, class, n);
            match rng.below(6) {
                0 if n >= 3 => vs[n - 1] = vs[0],     // closed-looking
                1 if n >= 3 => vs[2] = vs[0],         // back over the first segment
                2 if n >= 3 => vs[1] = vs[0],         // repeated vertex
                _ => {}
            }
            let w = width(rng);
            let tr = offset(rng, vs[0]);
            emit(poly_op(tr, &vs, w));
        }
        for i in 0..ntri {
            let vs = vertices(rng, class, 3);
            let v = [vs[0], vs[1], vs[2]];
            let w = width(rng);
            let (fill, stroke) = if c19 { TRI_STYLES[i % 2] } else { *rng.pick(&TRI_STYLES) };
            let d = offset(rng, v[0]);
            emit(tri_op(d, &v, w, (i % 3) as u32, fill, stroke));
        }
    }
}

fn fmt_draw_log(log: &[Call]) -> String {
    if log.is_empty() {
        return "-".into();
    }
    if let [Call::DrawIter(v)] = log {
        let pts: Vec<Point> = v.iter().map(|((x, y), _)| Point::new(*x, *y)).collect();
        return format!("di:{}", pts_digest(&pts));
    }
    let mut pts = Vec::new();
    for c in log {
        match c {
            Call::FillSolid(r, _) => {
                pts.push(r.top_left);
                pts.push(Point::new(r.size.width as i32, r.size.height as i32));
            }
            _ => return "mixed".into(),
        }
    }
    format!("fs:{}", pts_digest(&pts))
}

fn shift_map(m: &PMap, d: Point) -> PMap {
    m.iter().map(|((y, x), c)| ((y + d.y, x + d.x), *c)).collect()
}

/// picture (on an unbounded draw_iter-only target) and bounding box of a stroked polyline
fn poly_picture(vs: &[Point], tr: Point, w: u32) -> (PMap, Rectangle) {
    let styled = Polyline::new(vs).translate(tr).into_styled(PrimitiveStyle::with_stroke(BinaryColor::On, w));
    let mut r1 = R1::<BinaryColor>::unbounded();
    styled.draw(&mut r1).unwrap();
    (r1.rec.map, styled.bounding_box())
}

fn map_diff(a: &PMap, b: &PMap) -> usize {
    a.iter().filter(|(k, v)| b.get(k) != Some(v)).count() + b.iter().filter(|(k, v)| a.get(k) != Some(v)).count()
}

fn exec_polyline(t: &mut Toks, op: &str, ctx: &mut Ctx) -> String {
    let tr = t.point();
    let n = t.usize();
    let vs: Vec<Point> = (0..n).map(|_| t.point()).collect();
    let w = t.u32();
    let style = PrimitiveStyle::with_stroke(BinaryColor::On, w);
    let styled = Polyline::new(&vs).translate(tr).into_styled(style);
    let bb = styled.bounding_box();
    let mut r2 = R2::<BinaryColor>::unbounded();
    styled.draw(&mut r2).unwrap();
    let px: Vec<Point> = styled.pixels().map(|Pixel(p, _)| p).collect();
    ctx.count(&format!("polyline:n={}", n.min(6)));
    ctx.count(&format!("polyline:w={}", w.min(10)));
    if w >= 13 {
        ctx.count(&format!("polyline:wide:w={}", w));
    }
    if let Some(c) = vs.iter().map(|v| v.x.abs().max(v.y.abs())).max() {
        if c > 100 {
            ctx.count(if c > 300 { "polyline:display-scale:|coord|>300" } else { "polyline:display-scale:|coord|>100" });
        }
    }
    if !r2.rec.map.is_empty() && (ctx.pid != "C07" || tr != Point::zero()) {
        ctx.nontrivial(op);
    }

    // C02
    let out: Vec<_> = r2.rec.map.keys().filter(|(y, x)| !bb.contains(Point::new(*x, *y))).collect();
    ctx.expect(out.is_empty(), "C02:outside-bbox:thick-polyline", || {
        format!("{} of {} px outside bounding_box {} e.g. ({},{})", out.len(), r2.rec.map.len(), fmt_rect(&bb), out[0].1, out[0].0)
    });
    let pxset: PMap = px.iter().map(|p| ((p.y, p.x), 1u32)).collect();
    ctx.expect(pxset == r2.rec.map, "C01:pixels-vs-draw:thick-polyline", || {
        format!("draw() {} px, pixels() {} px", r2.rec.map.len(), pxset.len())
    });
    if ctx.pid == "C01" {
        // the third path: draw() on a draw_iter-only target (trait defaults), unbounded and on targets that cut the shape
        let mut r1 = R1::<BinaryColor>::unbounded();
        styled.draw(&mut r1).unwrap();
        ctx.expect(r1.rec.map == r2.rec.map, "C01:default-vs-native:thick-polyline", || {
            format!("draw_iter-only target {} px, native-fill target {} px, {} differing entries", r1.rec.map.len(), r2.rec.map.len(), map_diff(&r1.rec.map, &r2.rec.map))
        });
        ctx.count(match w {
            0 => "polyline:c01:width-0",
            1 => "polyline:c01:width-1:one-draw_iter",
            _ => {
                if tr != Point::zero() {
                    "polyline:c01:thick:translated-target"
                } else {
                    "polyline:c01:thick:plain-target"
                }
            }
        });
        // what Props/C01/Polyline.lean `styled_polyline_writes_agree` says, on the real code: through the trait defaults
        // draw() offers the target exactly the pixel sequence of pixels() (an observation: the property text speaks of maps)
        let seq: Vec<Point> = r1
            .rec
            .log
            .iter()
            .flat_map(|c| match c {
                Call::DrawIter(v) => v.iter().map(|((x, y), _)| Point::new(*x, *y)).collect::<Vec<_>>(),
                _ => Vec::new(),
            })
            .collect();
        ctx.count(if seq == px { "polyline:c01:draw-write-sequence=pixels-sequence" } else { "polyline:c01:draw-write-sequence-differs" });
        if !r2.rec.map.is_empty() && bb.size.width <= 4096 && bb.size.height <= 4096 {
            let (w3, h3) = ((bb.size.width / 3) as i32 + 1, (bb.size.height / 3) as i32 + 1);
            for tl in [bb.top_left + Point::new(w3, h3), bb.top_left - Point::new(w3, h3)] {
                let b = Rectangle::new(tl, bb.size);
                let (mut b1, mut b2, mut bp) = (R1::<BinaryColor>::new(b), R2::<BinaryColor>::new(b), R1::<BinaryColor>::new(b));
                styled.draw(&mut b1).unwrap();
                styled.draw(&mut b2).unwrap();
                bp.draw_iter(styled.pixels()).unwrap();
                if b2.rec.map.len() != r2.rec.map.len() {
                    ctx.count("polyline:c01:cut-by-a-bounded-target");
                }
                ctx.expect(b1.rec.map == b2.rec.map, "C01:default-vs-native:thick-polyline", || {
                    format!("target {}: draw_iter-only {} px, native-fill {} px", fmt_rect(&b), b1.rec.map.len(), b2.rec.map.len())
                });
                ctx.expect(bp.rec.map == b2.rec.map, "C01:pixels-vs-draw:thick-polyline", || {
                    format!("target {}: draw_iter(pixels()) {} px, draw() {} px", fmt_rect(&b), bp.rec.map.len(), b2.rec.map.len())
                });
            }
        }
    }

    // C07, `translate` field
    let (m0, bb0) = poly_picture(&vs, Point::zero(), w);
    let (mt, bbt) = poly_picture(&vs, tr, w);
    ctx.expect(mt == shift_map(&m0, tr) && mt == r2.rec.map, "C07:translate-field:thick-polyline", || {
        format!("{} px vs {} px, {} differing entries", mt.len(), m0.len(), map_diff(&mt, &shift_map(&m0, tr)))
    });
    let bb_shift_ok = |b0: &Rectangle, bd: &Rectangle| {
        if !b0.is_zero_sized() {
            *bd == Rectangle::new(b0.top_left + tr, b0.size)
        } else {
            bd.is_zero_sized()
        }
    };
    ctx.expect(bb_shift_ok(&bb0, &bbt) && bbt == bb, "C07:translate-field:thick-polyline", || format!("box {} -> {}", fmt_rect(&bb0), fmt_rect(&bbt)));
    {
        let mut pm = Polyline::new(&vs);
        pm.translate_mut(tr);
        let sm = pm.into_styled(style);
        let mut r1 = R1::<BinaryColor>::unbounded();
        sm.draw(&mut r1).unwrap();
        ctx.expect(r1.rec.map == mt && sm.bounding_box() == bbt, "C07:translate-mut-differs:thick-polyline", || "translate_mut and translate differ".into());
    }
    // C07 / C02: the translated polyline on BOUNDED targets that cut it on either side: inside the target it is the
    // shifted picture (a polyline moved into view by its `translate` field is visible although its raw vertices lie
    // outside the target: seeded change C07-r3-1 skipped it by testing the UNtranslated stroke box against the target)
    if !mt.is_empty() && bb.size.width <= 4096 && bb.size.height <= 4096 {
        let (w3, h3) = ((bb.size.width / 3) as i32 + 1, (bb.size.height / 3) as i32 + 1);
        for tl in [bb.top_left + Point::new(w3, h3), bb.top_left - Point::new(w3, h3), bb.top_left] {
            let b = Rectangle::new(tl, bb.size);
            let mut rb = R2::<BinaryColor>::new(b);
            styled.draw(&mut rb).unwrap();
            let wantb: PMap = mt.iter().filter(|((y, x), _)| b.contains(Point::new(*x, *y))).map(|(k, v)| (*k, *v)).collect();
            if wantb.len() != mt.len() {
                ctx.count("polyline:cut-by-a-bounded-target");
            }
            ctx.expect(rb.rec.map == wantb, "C07:translate-field:thick-polyline:bounded-target", || {
                format!("box {}: {} px drawn, {} expected", fmt_rect(&b), rb.rec.map.len(), wantb.len())
            });
            // the same box on a draw_iter-only target (class counts for C07 only: evaluated in its check only)
            if ctx.pid == "C07" {
                let mut rb1 = R1::<BinaryColor>::new(b);
                styled.draw(&mut rb1).unwrap();
                ctx.expect(rb1.rec.map == wantb, "C07:translate-field:thick-polyline:bounded-target", || {
                    format!("draw_iter-only box {}: {} px drawn, {} expected", fmt_rect(&b), rb1.rec.map.len(), wantb.len())
                });
            }
        }
        // degenerate boxes (empty, flat, disjoint) on both kinds of target: nothing is drawn
        let c07 = ctx.pid == "C07";
        for (name, b) in degenerate_boxes(&bb).into_iter().filter(|_| c07) {
            let (mut d1, mut d2) = (R1::<BinaryColor>::new(b), R2::<BinaryColor>::new(b));
            styled.draw(&mut d1).unwrap();
            styled.draw(&mut d2).unwrap();
            let wantb = restrict_map(&mt, &b);
            ctx.count("polyline:degenerate-bounded-target");
            ctx.expect(d1.rec.map == wantb && d2.rec.map == wantb, "C07:translate-field:thick-polyline:bounded-target", || {
                format!("{} box {}: {} / {} px drawn, {} expected", name, fmt_rect(&b), d1.rec.map.len(), d2.rec.map.len(), wantb.len())
            });
        }
    }
    // C07, moved vertices
    let moved: Vec<Point> = vs.iter().map(|v| *v + tr).collect();
    let (mv, bbv) = poly_picture(&moved, Point::zero(), w);
    let want = shift_map(&m0, tr);
    let pic_ok = mv == want;
    let box_ok = bb_shift_ok(&bb0, &bbv);
    ctx.count(if pic_ok && box_ok { "polyline:moved-vertices-same" } else { "polyline:moved-vertices-differ" });
    ctx.expect(pic_ok, "C07:draw-not-shifted:thick-polyline", || {
        format!("moved vertices: {} px vs {} px, {} differing entries", mv.len(), want.len(), map_diff(&mv, &want))
    });
    ctx.expect(box_ok, "C07:bbox-not-shifted:thick-polyline", || format!("moved vertices: box {} -> {}", fmt_rect(&bb0), fmt_rect(&bbv)));

    // C19, one-pixel polylines
    if w == 1 {
        let pts: Vec<Point> = Polyline::new(&vs).translate(tr).points().collect();
        let ptset: PMap = pts.iter().map(|p| ((p.y, p.x), 1u32)).collect();
        ctx.expect(ptset == r2.rec.map && px == pts, "C19:polyline-width1", || {
            format!("points() {} distinct, draw() {} px, pixels() {} items", ptset.len(), r2.rec.map.len(), px.len())
        });
    }
    let pv: Vec<joins_port::P> = vs.iter().map(|p| (p.x as i64, p.y as i64)).collect();
    let (kinds, skeletons) = joins_port::polyline_kinds(&pv, w);
    if w >= 1 {
        for ch in kinds.chars().filter(|c| *c != '-') {
            ctx.count(&format!("polyline:join:{}", kind_name(ch)));
        }
        ctx.count_n("polyline:skeleton-segments", skeletons as u64);
        if n >= 2 {
            ctx.count_n("polyline:segments", (n - 1) as u64);
        }
    }
    // ` g=*`: place of the model driver's guard bits (which guards of the join theorems hold on this op; the real code has
    // no such notion). tools/check.py strips the ` g=` token from both sides before comparing and tallies the driver's bits.
    format!("bb={} k={} s={} draw={} px={} g=*", fmt_rect(&bb), kinds, skeletons, fmt_draw_log(&r2.rec.log), pts_digest(&px))
}

fn kind_name(c: char) -> &'static str {
    match c {
        'M' => "miter",
        'b' => "bevel-left",
        'B' => "bevel-right",
        'd' => "degenerate-left",
        'D' => "degenerate-right",
        'C' => "colinear",
        _ => "other",
    }
}

/// Port (i64 arithmetic on coordinate pairs) of the PRIVATE join arithmetic of /repo:
/// `BresenhamParameters`, `Bresenham::{next_all, previous_all}`, `ParallelsIterator`,
/// `Line::extents`, `LinearEquation`, `IntersectionParams`, `LineJoin::{start, end, from_points}`,
/// `Triangle::is_collapsed`. It is used ONLY for the input distribution (which join kinds, skeleton
/// segments and collapsed triangles the generated inputs exercise): the kinds are printed into the
/// result line (`k=..`), where the correspondence compares them with the Lean model's own
/// classification, so the counters are what the tied model says, not an untested proxy.
pub mod joins_port {
    pub type P = (i64, i64);
    fn add(a: P, b: P) -> P {
        (a.0 + b.0, a.1 + b.1)
    }
    fn sub(a: P, b: P) -> P {
        (a.0 - b.0, a.1 - b.1)
    }
    pub type L = (P, P);

    #[derive(Clone, Copy)]
    struct Params {
        thr: i64,
        step_major: i64,
        step_minor: i64,
        pos_major: P,
        pos_minor: P,
    }
    fn params(l: L) -> Params {
        let d = sub(l.1, l.0);
        let dir = (if d.0 >= 0 { 1 } else { -1 }, if d.1 >= 0 { 1 } else { -1 });
        let d = (d.0.abs(), d.1.abs());
        if d.1 >= d.0 {
            Params { thr: d.1, step_major: 2 * d.0, step_minor: 2 * d.1, pos_major: (0, dir.1), pos_minor: (dir.0, 0) }
        } else {
            Params { thr: d.0, step_major: 2 * d.1, step_minor: 2 * d.0, pos_major: (dir.0, 0), pos_minor: (0, dir.1) }
        }
    }
    impl Params {
        fn increase(&self, e: &mut i64) -> bool {
            *e += self.step_major;
            if *e > self.thr {
                *e -= self.step_minor;
                true
            } else {
                false
            }
        }
        fn decrease(&self, e: &mut i64) -> bool {
            *e -= self.step_major;
            if *e <= -self.thr {
                *e += self.step_minor;
                true
            } else {
                false
            }
        }
        fn mirror(&self) -> bool {
            if self.pos_major.0 != 0 {
                self.pos_major.0 == self.pos_minor.1
            } else {
                self.pos_major.1 == -self.pos_minor.0
            }
        }
    }
    #[derive(Clone, Copy)]
    struct Br {
        p: P,
        e: i64,
    }
    /// (point, is_extra)
    fn next_all(b: &mut Br, q: &Params) -> (P, bool) {
        let mut point = b.p;
        if b.e > q.thr {
            b.p = add(b.p, q.pos_minor);
            b.e -= q.step_minor;
            if q.mirror() {
                point = sub(add(point, q.pos_minor), q.pos_major);
            }
            (point, true)
        } else {
            b.p = add(b.p, q.pos_major);
            b.e += q.step_major;
            (point, false)
        }
    }
    fn previous_all(b: &mut Br, q: &Params) -> (P, bool) {
        let mut point = b.p;
        if b.e <= -q.thr {
            b.p = sub(b.p, q.pos_minor);
            b.e += q.step_minor;
            if !q.mirror() {
                point = add(sub(point, q.pos_minor), q.pos_major);
            }
            (point, true)
        } else {
            b.p = sub(b.p, q.pos_major);
            b.e -= q.step_major;
            (point, false)
        }
    }
    /// stroke offset: 0 = None, 1 = Left, 2 = Right
    struct Par {
        par: Params,
        perp: Params,
        acc: i64,
        thr: i64,
        flip: bool,
        left: Br,
        left_error: i64,
        right: Br,
        right_error: i64,
        next_left: bool,
        offset: u8,
        /// perpendicular `Extra` steps taken by `next_parallel` WITHOUT returning a parallel (the
        /// parallel error did not wrap), per side: [left, right]
        skipped: [u64; 2],
    }
    impl Par {
        fn new(l: L, thickness: i64, offset: u8) -> Par {
            let start = l.0;
            let l = if l.0 == l.1 { ((0, 0), (1, 0)) } else { l };
            let par = params(l);
            let d = sub(l.1, l.0);
            let perp = params((l.0, add(l.0, (d.1, -d.0))));
            let thr = (thickness * 2) * (thickness * 2) * (d.0 * d.0 + d.1 * d.1);
            let acc = (par.step_minor + par.step_major) / 2;
            let flip = perp.pos_minor == (-par.pos_major.0, -par.pos_major.1);
            let next_left = offset == 1;
            let mut s = Par { par, perp, acc, thr, flip, left: Br { p: start, e: 0 }, left_error: 0, right: Br { p: start, e: 0 }, right_error: 0, next_left, offset, skipped: [0, 0] };
            s.next_parallel(!next_left);
            s
        }
        fn next_parallel(&mut self, left: bool) -> ((P, bool), i64) {
            let decrease_error = if left { self.flip } else { !self.flip };
            loop {
                let point = if left { next_all(&mut self.left, &self.perp) } else { previous_all(&mut self.right, &self.perp) };
                let par = self.par;
                let error = if left { &mut self.left_error } else { &mut self.right_error };
                if !point.1 {
                    return (point, *error);
                }
                if decrease_error {
                    let before = *error;
                    if par.decrease(error) {
                        return (point, before);
                    }
                } else if par.increase(error) {
                    return (point, *error);
                }
                self.skipped[if left { 0 } else { 1 }] += 1;
            }
        }
        /// (start point of the parallel, is_extra)
        fn next(&mut self) -> Option<(P, bool)> {
            if self.acc * self.acc > self.thr {
                return None;
            }
            let (point, _error) = self.next_parallel(self.next_left);
            self.acc += if point.1 { self.perp.step_major } else { self.perp.step_minor };
            if self.offset == 0 {
                self.next_left = !self.next_left;
            }
            Some(point)
        }
    }
    /// Runs `ParallelsIterator::new(l, w, StrokeOffset::None)` to its end, as `ThickPoints` does, and
    /// returns (skipped `Extra` steps on the left side, on the right side, parallels returned).
    pub fn skipped_extras(l: L, thickness: u32) -> (u64, u64, u64) {
        let mut it = Par::new(l, thickness.min(i32::MAX as u32) as i64, 0);
        let mut n = 0;
        while it.next().is_some() {
            n += 1;
        }
        (it.skipped[0], it.skipped[1], n)
    }
    /// `Line::extents`: (left line, right line)
    pub fn extents(l: L, thickness: u32, offset: u8) -> (L, L) {
        let mut it = Par::new(l, thickness.min(i32::MAX as u32) as i64, offset);
        let reduce = add(it.par.pos_major, it.par.pos_minor);
        let mut left = (l.0, false);
        let mut right = (l.0, false);
        match offset {
            0 => loop {
                match it.next() {
                    Some(r) => right = r,
                    None => break,
                }
                match it.next() {
                    Some(r) => left = r,
                    None => break,
                }
            },
            1 => {
                while let Some(r) = it.next() {
                    left = r;
                }
            }
            _ => {
                while let Some(r) = it.next() {
                    right = r;
                }
            }
        }
        let d = sub(l.1, l.0);
        let mk = |s: (P, bool)| -> L { (s.0, sub(add(s.0, d), if s.1 { reduce } else { (0, 0) })) };
        (mk(left), mk(right))
    }

    fn dot(a: P, b: P) -> i64 {
        a.0 * b.0 + a.1 * b.1
    }
    fn det(a: P, b: P) -> i64 {
        a.0 * b.1 - a.1 * b.0
    }
    /// `LinearEquation::from_line`: (normal vector, origin distance)
    fn le(l: L) -> (P, i64) {
        let d = sub(l.1, l.0);
        let n = (-d.1, d.0);
        (n, dot(l.0, n))
    }
    /// distance <= 0 for `left`, >= 0 otherwise
    fn check_side(e: (P, i64), p: P, left: bool) -> bool {
        let dist = dot(p, e.0) - e.1;
        if left {
            dist <= 0
        } else {
            dist >= 0
        }
    }
    /// `IntersectionParams::from_lines(l1, l2)` + `intersection()` + `nearly_colinear_has_error()`:
    /// `None` = colinear, else (point, outer side is left, has_error)
    fn intersect(l1: L, l2: L) -> Option<(P, bool, bool)> {
        let (e1, e2) = (le(l1), le(l2));
        let den = det(e1.0, e2.0);
        if den == 0 {
            return None;
        }
        let xn = e1.1 * e2.0 .1 - e2.1 * e1.0 .1;
        let yn = e1.0 .0 * e2.1 - e2.0 .0 * e1.1;
        let sign = den.signum();
        let d = den.abs();
        let rd = |n: i64| (2 * n * sign + d).div_euclid(2 * d).clamp(i32::MIN as i64, i32::MAX as i64);
        let has_error = den * den < dot(sub(l1.1, l1.0), sub(l2.1, l2.0)).abs();
        Some(((rd(xn), rd(yn)), den < 0, has_error))
    }

    #[derive(Clone, Copy, PartialEq, Debug)]
    pub struct Join {
        /// M miter, b / B bevel (outer side left / right), d / D degenerate (left / right), C colinear, S start, E end
        pub kind: char,
        pub first_edge_end: (P, P),    // (left, right)
        pub second_edge_start: (P, P), // (left, right)
    }
    pub fn join_start(a: P, b: P, w: u32, off: u8) -> Join {
        let (l, r) = extents((a, b), w, off);
        Join { kind: 'S', first_edge_end: (l.0, r.0), second_edge_start: (l.0, r.0) }
    }
    pub fn join_end(a: P, b: P, w: u32, off: u8) -> Join {
        let (l, r) = extents((a, b), w, off);
        Join { kind: 'E', first_edge_end: (l.1, r.1), second_edge_start: (l.1, r.1) }
    }
    pub fn join(start: P, mid: P, end: P, w: u32, off: u8) -> Join {
        let (fl, fr) = extents((start, mid), w, off);
        let (sl, sr) = extents((mid, end), w, off);
        let colinear = Join { kind: 'C', first_edge_end: (fl.1, fr.1), second_edge_start: (sl.0, sr.0) };
        let (li, outer_left) = match intersect(sl, fl) {
            Some((p, ol, err)) => (if !err { p } else { fl.1 }, ol),
            None => return colinear,
        };
        let ri = match intersect(sr, fr) {
            Some((p, _, err)) => {
                if !err {
                    p
                } else {
                    fr.1
                }
            }
            None => return colinear,
        };
        let self_intersection = if outer_left { check_side(le(fr), sr.1, true) } else { check_side(le(fl), sl.1, false) };
        if !self_intersection {
            let o = sub(if outer_left { li } else { ri }, mid);
            let limit = (w as i64 * 2) * (w as i64 * 2);
            if o.0 * o.0 + o.1 * o.1 <= limit {
                Join { kind: 'M', first_edge_end: (li, ri), second_edge_start: (li, ri) }
            } else if outer_left {
                Join { kind: 'b', first_edge_end: (fl.1, ri), second_edge_start: (sl.0, ri) }
            } else {
                Join { kind: 'B', first_edge_end: (li, fr.1), second_edge_start: (li, sr.0) }
            }
        } else {
            Join { kind: if outer_left { 'd' } else { 'D' }, first_edge_end: (fl.1, fr.1), second_edge_start: (sl.0, sr.0) }
        }
    }
    /// kinds of the interior joins of an open polyline and the number of skeleton segments
    /// (`ThickSegment::is_skeleton`: the start join's `first_edge_end.left == .right`)
    pub fn polyline_kinds(vs: &[P], w: u32) -> (String, usize) {
        let mut kinds = String::new();
        let mut skeletons = 0;
        if vs.len() >= 2 {
            let mut start = join_start(vs[0], vs[1], w, 0);
            for i in 0..vs.len() - 1 {
                if start.first_edge_end.0 == start.first_edge_end.1 {
                    skeletons += 1;
                }
                if i + 2 < vs.len() {
                    let j = join(vs[i], vs[i + 1], vs[i + 2], w, 0);
                    kinds.push(j.kind);
                    start = j;
                }
            }
        }
        if kinds.is_empty() {
            kinds.push('-');
        }
        (kinds, skeletons)
    }
    /// `sorted_clockwise`, the kinds of the three joins `from_points(v[i], v[i+1], v[i+2])`, and
    /// `is_collapsed(w, offset)` of the sorted triangle
    pub fn triangle_kinds(v: [P; 3], w: u32, off: u8) -> (String, bool) {
        let area = -v[1].1 * v[2].0 + v[0].1 * (v[2].0 - v[1].0) + v[0].0 * (v[1].1 - v[2].1) + v[1].0 * v[2].1;
        let t: [P; 3] = if area < 0 {
            [v[1], v[0], v[2]]
        } else if area > 0 {
            v
        } else {
            let mut s = v;
            s.sort_by_key(|p| (p.1, p.0));
            s
        };
        let mut kinds = String::new();
        for i in 0..3 {
            kinds.push(join(t[i % 3], t[(i + 1) % 3], t[(i + 2) % 3], w, off).kind);
        }
        let joins = [join(t[2], t[0], t[1], w, off), join(t[0], t[1], t[2], w, off), join(t[1], t[2], t[0], w, off)];
        let collapsed = joins.iter().enumerate().any(|(i, j)| {
            if j.kind == 'd' || j.kind == 'D' {
                return true;
            }
            let inner = j.first_edge_end.1;
            let opposite = extents((t[(i + 1) % 3], t[(i + 2) % 3]), w, off).1;
            check_side(le(opposite), inner, true)
        });
        (kinds, collapsed)
    }
}

// ---------------------------------------------------------------------------------------------
// stroked triangles
// ---------------------------------------------------------------------------------------------
fn tri_op(d: (i32, i32), v: &[(i32, i32); 3], w: u32, align: u32, fill: Option<u32>, stroke: Option<u32>) -> String {
    let c = |o: Option<u32>| o.map(|n| n.to_string()).unwrap_or_else(|| "-".into());
    format!(
        "thick.triangle {} {} {} {} {} {} {} {} {} {} {} {}",
        d.0, d.1, v[0].0, v[0].1, v[1].0, v[1].1, v[2].0, v[2].1, w, align, c(fill), c(stroke)
    )
}

const TRI_STYLES: [(Option<u32>, Option<u32>); 3] = [(None, Some(1)), (Some(2), Some(1)), (Some(2), None)];

fn generate_triangles(pid: &str, tier: Tier, rng: &mut Rng, emit: &mut dyn FnMut(String)) {
    let quick = tier == Tier::Quick;
    let widths: Vec<u32> = match (pid, quick) {
        ("C19", _) => vec![1],
        (_, true) => vec![1, 2, 3, 4],
        (_, false) => vec![0, 1, 2, 3, 5],
    };
    let (lx, ly): (Vec<i32>, Vec<i32>) = if quick { (vec![-3, -1, 0, 4], vec![-4, 0, 1, 3]) } else { (vec![-5, -3, -1, 0, 4], vec![-6, -4, 0, 1, 3]) };
    let mut lat: Vec<(i32, i32)> = Vec::new();
    for &y in &ly {
        for &x in &lx {
            lat.push((x, y));
        }
    }
    let mut k = 0usize;
    for &a in &lat {
        for &b in &lat {
            for &c in &lat {
                for &w in &widths {
                    for align in 0..3u32 {
                        k += 1;
                        let (fill, stroke) = if pid == "C19" { TRI_STYLES[k % 2] } else { TRI_STYLES[k % 3] };
                        emit(tri_op(offset_for(pid, k / 3), &[a, b, c], w, align, fill, stroke));
                    }
                }
            }
        }
    }
    // (the model walks every outline line once per row: ~8 ms per random op)
    let nrand = if quick { 400 } else { 4000 };
    for _ in 0..nrand {
        let mut p = || (rng.range(-60, 60) as i32, rng.range(-60, 60) as i32);
        let v = [p(), p(), p()];
        let w = if pid == "C19" { 1 } else { rng.range(0, 12) as u32 };
        let align = rng.below(3) as u32;
        let (fill, stroke) = *rng.pick(&TRI_STYLES);
        let d = (rng.range(-80, 80) as i32, rng.range(-80, 80) as i32);
        emit(tri_op(d, &v, w, align, fill, stroke));
    }
}

fn tri_style(w: u32, align: u32, fill: Option<u32>, stroke: Option<u32>) -> PrimitiveStyle<Rgb565> {
    let mut b = PrimitiveStyleBuilder::new().stroke_width(w).stroke_alignment(match align {
        0 => StrokeAlignment::Inside,
        1 => StrokeAlignment::Center,
        _ => StrokeAlignment::Outside,
    });
    if let Some(c) = fill {
        b = b.fill_color(Rgb565::from_num(c));
    }
    if let Some(c) = stroke {
        b = b.stroke_color(Rgb565::from_num(c));
    }
    b.build()
}

fn exec_triangle(t: &mut Toks, op: &str, ctx: &mut Ctx) -> String {
    let d = t.point();
    let v = [t.point(), t.point(), t.point()];
    let w = t.u32();
    let align = t.u32();
    let col = |s: &str| if s == "-" { None } else { Some(s.parse::<u32>().expect("bad colour")) };
    let fill = col(t.str());
    let stroke = col(t.str());
    let style = tri_style(w, align, fill, stroke);
    let tri0 = Triangle::new(v[0], v[1], v[2]);
    let tri = tri0.translate(d);
    let styled = tri.into_styled(style);
    let bb = styled.bounding_box();
    let mut r2 = R2::<Rgb565>::unbounded();
    styled.draw(&mut r2).unwrap();
    let px: Vec<(Point, u32)> = styled.pixels().map(|Pixel(p, c)| (p, c.num())).collect();
    let m = &r2.rec.map;
    let area2 = (v[1].x - v[0].x) as i64 * (v[2].y - v[0].y) as i64 - (v[1].y - v[0].y) as i64 * (v[2].x - v[0].x) as i64;
    ctx.count(&format!("triangle:w={}", w.min(12)));
    if w >= 13 {
        ctx.count(&format!("triangle:wide:w={}:align={}", w, align));
    }
    {
        let c = v.iter().map(|p| p.x.abs().max(p.y.abs())).max().unwrap();
        if c > 100 {
            ctx.count(if c > 300 { "triangle:display-scale:|coord|>300" } else { "triangle:display-scale:|coord|>100" });
        }
    }
    ctx.count(&format!("triangle:align={}", align));
    ctx.count(match (fill.is_some(), stroke.is_some()) {
        (true, true) => "triangle:fill+stroke",
        (true, false) => "triangle:fill-only",
        (false, true) => "triangle:stroke-only",
        _ => "triangle:no-colour",
    });
    ctx.count(if area2 == 0 { "triangle:zero-area" } else if area2 > 0 { "triangle:cw" } else { "triangle:ccw" });
    if fill.is_some() && stroke.is_some() && w >= 2 && !m.is_empty() && !m.values().any(|c| Some(*c) == fill) {
        ctx.count("triangle:stroke-covers-fill");
    }
    if !m.is_empty() && (ctx.pid != "C07" || d != Point::zero()) {
        ctx.nontrivial(op);
    }
    let transparent = fill.is_none() && (stroke.is_none() || w == 0);

    // C02
    let out: Vec<_> = m.keys().filter(|(y, x)| !bb.contains(Point::new(*x, *y))).collect();
    ctx.expect(out.is_empty(), "C02:outside-bbox:thick-triangle", || {
        format!("{} of {} px outside bounding_box {} e.g. ({},{})", out.len(), m.len(), fmt_rect(&bb), out[0].1, out[0].0)
    });
    if transparent {
        ctx.expect(m.is_empty() && px.is_empty(), "C02:transparent-draws:thick-triangle", || format!("{} px drawn with a transparent style", m.len()));
    }
    let mut mp = PMap::new();
    for (p, c) in &px {
        mp.insert((p.y, p.x), *c);
    }
    ctx.expect(mp == *m, "C01:pixels-vs-draw:thick-triangle", || format!("draw() {} px, pixels() {} px, {} differing entries", m.len(), mp.len(), map_diff(m, &mp)));
    // `ScanlineIterator` is NOT fused (a row of the styled box without any intersection makes `next()` return `None`,
    // the following call goes on with the next row), `draw_styled` stops at its first `None`, `StyledPixelsIterator`
    // forgives the one `new()` sees. Two observations on the real code (counters, the property text is silent on them):
    //  * polling `pixels()` beyond its first `None`, once per remaining row of the box and a few more: any further pixel
    //    means that a row without a scanline is followed by a row with a coloured one (EG/Props/C01/Triangle.lean proves
    //    that the model has no such row at the top of the box; an inner one would truncate draw() and pixels() alike);
    //  * rows of bounding_box() in which draw() painted nothing (only for styles that colour every scanline).
    {
        let mut it = styled.pixels();
        let mut n = 0usize;
        while it.next().is_some() {
            n += 1;
        }
        let mut resumed = 0usize;
        for _ in 0..(bb.size.height.min(1 << 16) as usize + 4) {
            while it.next().is_some() {
                resumed += 1;
            }
        }
        debug_assert_eq!(n, px.len());
        if resumed > 0 && std::env::var("EGV_ROWHUNT").is_ok() { eprintln!("RESUMED {} bb={} n={} resumed={}", op, fmt_rect(&bb), n, resumed); }
        ctx.count(if resumed > 0 { "triangle:scanlines:pixels()-yields-again-after-None(row-without-scanline-above-a-coloured-row)" } else { "triangle:scanlines:pixels()-stays-None-after-its-first-None" });
        if !transparent && (w == 0 || stroke.is_some()) && !bb.is_zero_sized() {
            let rows: std::collections::BTreeSet<i32> = m.keys().map(|(y, _)| *y).collect();
            let top = bb.top_left.y;
            let bottom = top + bb.size.height as i32 - 1;
            let first_painted = rows.iter().next().copied();
            let last_painted = rows.iter().next_back().copied();
            let unpainted = bb.size.height as usize - rows.iter().filter(|y| **y >= top && **y <= bottom).count();
            if m.is_empty() {
                // a zero-area triangle with a fill colour, stroke width 0 and Inside alignment: `is_collapsed` makes every
                // scanline a `Stroke` line, whose colour is `effective_stroke_color()` = None: rows have scanlines, no colour
                ctx.count("triangle:scanlines:non-transparent-style-paints-nothing(zero-area,width-0,inside:collapsed-lines-are-stroke-lines)");
            } else if unpainted == 0 {
                ctx.count("triangle:scanlines:every-row-of-the-box-painted");
            } else {
                if first_painted != Some(top) {
                    ctx.count("triangle:scanlines:TOP-row-of-the-box-unpainted");
                    if std::env::var("EGV_ROWHUNT").is_ok() { eprintln!("TOP {} bb={} first={:?}", op, fmt_rect(&bb), first_painted); }
                }
                if let (Some(a), Some(b)) = (first_painted, last_painted) {
                    if (b - a + 1) as usize != rows.len() {
                        ctx.count("triangle:scanlines:INNER-row-unpainted-between-painted-rows");
                        if std::env::var("EGV_ROWHUNT").is_ok() { eprintln!("INNER {} bb={}", op, fmt_rect(&bb)); }
                    }
                    if b != bottom {
                        ctx.count("triangle:scanlines:BOTTOM-rows-of-the-box-unpainted");
                        if std::env::var("EGV_ROWHUNT").is_ok() { eprintln!("BOTTOM {} bb={} last={:?}", op, fmt_rect(&bb), last_painted); }
                    }
                }
            }
        }
    }
    if ctx.pid == "C01" {
        // the third path: draw() on a draw_iter-only target (trait defaults), unbounded and on targets that cut the shape
        let mut d1 = R1::<Rgb565>::unbounded();
        styled.draw(&mut d1).unwrap();
        ctx.expect(d1.rec.map == *m, "C01:default-vs-native:thick-triangle", || {
            format!("draw_iter-only target {} px, native-fill target {} px, {} differing entries", d1.rec.map.len(), m.len(), map_diff(&d1.rec.map, m))
        });
        // scanlines of different colours that overlap: there the ORDER of the calls decides the picture
        let covered: usize = r2.rec.log.iter().map(|c| if let Call::FillSolid(r, _) = c { r.size.width as usize } else { 0 }).sum();
        if covered > m.len() {
            ctx.count("triangle:c01:overlapping-scanlines");
            let mut first: PMap = PMap::new();
            for c in &r2.rec.log {
                if let Call::FillSolid(r, col) = c {
                    for x in 0..r.size.width as i32 {
                        first.entry((r.top_left.y, r.top_left.x + x)).or_insert(*col);
                    }
                }
            }
            if first != *m {
                ctx.count("triangle:c01:overlap-of-different-colours(last-write-decides)");
            }
        }
        // what Props/C01/Triangle.lean `styled_triangle_writes_agree` says, on the real code: through the trait defaults
        // draw() offers the target exactly the pixel sequence of pixels() (an observation: the property text speaks of maps)
        let seq: Vec<(Point, u32)> = d1
            .rec
            .log
            .iter()
            .flat_map(|c| match c {
                Call::DrawIter(v) => v.iter().map(|((x, y), c)| (Point::new(*x, *y), *c)).collect::<Vec<_>>(),
                _ => Vec::new(),
            })
            .collect();
        ctx.count(if seq == px { "triangle:c01:draw-write-sequence=pixels-sequence" } else { "triangle:c01:draw-write-sequence-differs" });
        if !m.is_empty() && bb.size.width <= 4096 && bb.size.height <= 4096 {
            let (w3, h3) = ((bb.size.width / 3) as i32 + 1, (bb.size.height / 3) as i32 + 1);
            for tl in [bb.top_left + Point::new(w3, h3), bb.top_left - Point::new(w3, h3)] {
                let b = Rectangle::new(tl, bb.size);
                let (mut b1, mut b2, mut bp) = (R1::<Rgb565>::new(b), R2::<Rgb565>::new(b), R1::<Rgb565>::new(b));
                styled.draw(&mut b1).unwrap();
                styled.draw(&mut b2).unwrap();
                bp.draw_iter(styled.pixels()).unwrap();
                if b2.rec.map.len() != m.len() {
                    ctx.count("triangle:c01:cut-by-a-bounded-target");
                }
                ctx.expect(b1.rec.map == b2.rec.map, "C01:default-vs-native:thick-triangle", || {
                    format!("target {}: draw_iter-only {} px, native-fill {} px", fmt_rect(&b), b1.rec.map.len(), b2.rec.map.len())
                });
                ctx.expect(bp.rec.map == b2.rec.map, "C01:pixels-vs-draw:thick-triangle", || {
                    format!("target {}: draw_iter(pixels()) {} px, draw() {} px", fmt_rect(&b), bp.rec.map.len(), b2.rec.map.len())
                });
            }
        }
    }

    // C07: the moved triangle against the unmoved one
    let s0 = tri0.into_styled(style);
    let mut r0 = R1::<Rgb565>::unbounded();
    s0.draw(&mut r0).unwrap();
    let bb0 = s0.bounding_box();
    let want = shift_map(&r0.rec.map, d);
    let mut r1 = R1::<Rgb565>::unbounded();
    styled.draw(&mut r1).unwrap();
    ctx.expect(r1.rec.map == want && r1.rec.map == *m, "C07:draw-not-shifted:thick-triangle", || {
        format!("{} px vs {} px, {} differing entries", r1.rec.map.len(), want.len(), map_diff(&r1.rec.map, &want))
    });
    let box_ok = if !bb0.is_zero_sized() { bb == Rectangle::new(bb0.top_left + d, bb0.size) } else { bb.is_zero_sized() };
    ctx.expect(box_ok, "C07:bbox-not-shifted:thick-triangle", || format!("{} -> {}", fmt_rect(&bb0), fmt_rect(&bb)));
    {
        let mut sm = s0;
        sm.translate_mut(d);
        let mut rm = R1::<Rgb565>::unbounded();
        sm.draw(&mut rm).unwrap();
        ctx.expect(rm.rec.map == r1.rec.map && sm.bounding_box() == bb, "C07:translate-mut-differs:thick-triangle", || "translate_mut and translate differ".into());
    }

    // C19: one-pixel outline = the three edge lines
    if w == 1 && stroke.is_some() && stroke != fill {
        let set: HashSet<(i32, i32)> = m.iter().filter(|(_, c)| Some(**c) == stroke).map(|((y, x), _)| (*x, *y)).collect();
        let vv = tri.vertices;
        let line = |a: Point, b: Point| -> Vec<Point> { Line::new(a, b).points().collect() };
        let edges = [(vv[0], vv[1]), (vv[1], vv[2]), (vv[2], vv[0])];
        let mut matched = false;
        for mask in 0..8u32 {
            let mut u: HashSet<(i32, i32)> = HashSet::new();
            for (k, (a, b)) in edges.iter().enumerate() {
                let l = if mask & (1 << k) == 0 { line(*a, *b) } else { line(*b, *a) };
                u.extend(l.iter().map(|p| (p.x, p.y)));
            }
            if u == set {
                matched = true;
                break;
            }
        }
        ctx.expect(matched, "C19:tri-outline", || {
            format!("{:?} align {}: the {} stroke pixels are not the union of the three edge lines in any orientation", vv, align, set.len())
        });
    }

    let draw = {
        let mut pts = Vec::new();
        let mut ok = true;
        for c in &r2.rec.log {
            match c {
                Call::FillSolid(r, c) if r.size.height == 1 => {
                    pts.push(r.top_left);
                    pts.push(Point::new(r.size.width as i32, *c as i32));
                }
                _ => ok = false,
            }
        }
        if !ok {
            "mixed".to_string()
        } else if pts.is_empty() {
            "-".to_string()
        } else {
            format!("fs:{}", pts_digest(&pts))
        }
    };
    let mut pp = Vec::with_capacity(px.len() * 2);
    for (p, c) in &px {
        pp.push(*p);
        pp.push(Point::new(*c as i32, 0));
    }
    let tv = tri.vertices.map(|p| (p.x as i64, p.y as i64));
    let (kinds, collapsed) = joins_port::triangle_kinds(tv, w, match align {
        0 => 2, // Inside -> StrokeOffset::Right
        1 => 0, // Center -> None
        _ => 1, // Outside -> Left
    });
    if w >= 1 {
        for ch in kinds.chars() {
            ctx.count(&format!("triangle:join:{}", kind_name(ch)));
        }
        if collapsed {
            ctx.count(if align == 0 { "triangle:collapsed-inside" } else { "triangle:is_collapsed-other-alignment" });
        }
    }
    format!("bb={} k={} c={} draw={} px={} g=*", fmt_rect(&bb), kinds, collapsed as u8, draw, pts_digest(&pp))
}
