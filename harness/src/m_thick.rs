//! module `thick` (serves C17, stroked-line sentence) — the pixels of a stroked `Line`.
//!
//! Stream (compared with the Lean model `EG.Model.ThickLine`, `Thick.thickPoints`):
//!   thick.points x0 y0 x1 y1 w -> the points of
//!       `Line::new(s, e).into_styled(PrimitiveStyle::with_stroke(c, w)).pixels()` in emission
//!       order (format of `m_line::pts_digest`: full list up to 64 points, count + first + last +
//!       order-sensitive hash beyond). The same op also draws the styled line into the recording
//!       target `R1` and checks that `draw` emits exactly the same pixel sequence in one
//!       `draw_iter` call.
//!
//!   thick.bbox x0 y0 x1 y1 w   -> `bounding_box()` of the same styled line (`styled_bounding_box`,
//!       i.e. `Line::extents(w, StrokeOffset::None)`), as `x,y,w,h`; compared with
//!       `Thick.styledBoundingBox`. Oracle `C02:line-bbox-contains-pixels` (counts for C02 only):
//!       every pixel of `pixels()` lies inside that box.
//!
//! Lean statements mirrored: `thick_width1_eq_points` (C17:thick-width1), `thick_contains_thin`
//! (C17:thick-contains-thin; proved in the stronger form "the pixel sequence starts with points()");
//! the other predicates are `-- [V]` sub-claims of lean/EG/Props/C17.lean (oracle only).
//!
//! Oracle = the second sentence of C17 as predicates on the real pixel list, with FIXED metrics,
//! all in exact integer arithmetic (i128). Notation: s = start, d = (dx, dy) = end - start,
//! L2 = dx^2 + dy^2 (L = sqrt(L2) is never computed), and for a pixel p with v = p - s:
//!   cross(p) = dx v.y - dy v.x   (= L * signed perpendicular distance of p from the ideal line)
//!   dot(p)   = dx v.x + dy v.y   (= L * position of the projection of p along the segment)
//!
//!   C17:thick-contains-thin   every point of `points()` is among the stroked pixels   (w >= 1)
//!   C17:thick-duplicate       no pixel is yielded twice
//!   C17:thick-band            perpendicular distance <= w/2 + 2.5:
//!                                 4 cross(p)^2 <= (w + 5)^2 L2
//!   C17:thick-ends            projection not more than one pixel beyond either end:
//!                                 dot(p) >= 0 or dot(p)^2 <= L2,   and
//!                                 dot(p) <= L2 or (dot(p) - L2)^2 <= L2
//!   C17:thick-middle-width    "at least w - 1 pixels wide at its middle": let MID be the pixels
//!                             whose projection is within one pixel of the midpoint of the
//!                             segment, (2 dot(p) - L2)^2 <= 4 L2. The width at the middle is the
//!                             perpendicular extent of MID counted in pixels,
//!                                 (max cross(MID) - min cross(MID)) / L + 1  >=  w - 1,
//!                             i.e. MID is non-empty and, for w >= 3,
//!                                 (max cross - min cross)^2 >= (w - 2)^2 L2.
//!   C17:thick-width1          for w = 1 the pixel list equals `points()` (same order)
//!   zero-length lines (L2 = 0; the code strokes them as a horizontal line of length 0): the band /
//!   ends / middle predicates are evaluated with d = (1, 0), L2 = 1, the direction the code uses.
//!   C17:thick-width0          w = 0 yields no pixel
//!   thick-draw-eq-pixels      `draw` = one `draw_iter` call with the sequence of `pixels()`
//!
//! Range of the random long lines: |dx|, |dy| <= 1000 and w <= 12, so that
//! `(2w)^2 * L2` <= 576 * 2_000_000 < 2^31 and `thickness_accumulator^2` <= ((2w+3) L)^2 <
//! (27 * 1415)^2 < 2^31: the i32 overflow of `thickness_threshold` for longer / wider lines is
//! property C08's topic and deliberately outside this generator.
use crate::common::*;
use crate::m_line::{pts_digest, STARTS};
use embedded_graphics::{
    pixelcolor::BinaryColor,
    prelude::*,
    primitives::{Line, PrimitiveStyle},
};
use std::collections::HashSet;

pub struct M;

pub fn thick_oracle(ctx: &mut Ctx, s: Point, e: Point, w: u32, px: &[Point]) {
    let thin: Vec<Point> = Line::new(s, e).points().collect();
    if w == 0 {
        ctx.expect(px.is_empty(), "C17:thick-width0", || format!("{:?}->{:?} w=0 yields {} px", s, e, px.len()));
        return;
    }
    let set: HashSet<(i32, i32)> = px.iter().map(|p| (p.x, p.y)).collect();
    ctx.expect(set.len() == px.len(), "C17:thick-duplicate", || {
        format!("{:?}->{:?} w={} {} px, {} distinct", s, e, w, px.len(), set.len())
    });
    ctx.expect(thin.iter().all(|p| set.contains(&(p.x, p.y))), "C17:thick-contains-thin", || {
        format!("{:?}->{:?} w={} misses a point of points()", s, e, w)
    });
    if w == 1 {
        ctx.expect(px == &thin[..], "C17:thick-width1", || format!("{:?}->{:?} w=1 differs from points()", s, e));
    }
    let (mut dx, mut dy) = ((e.x - s.x) as i128, (e.y - s.y) as i128);
    if dx == 0 && dy == 0 {
        dx = 1;
        dy = 0;
    }
    let l2 = dx * dx + dy * dy;
    let wi = w as i128;
    let (mut band_ok, mut ends_ok) = (true, true);
    let (mut cmin, mut cmax, mut nmid) = (i128::MAX, i128::MIN, 0u32);
    for p in px {
        let (vx, vy) = ((p.x - s.x) as i128, (p.y - s.y) as i128);
        let cross = dx * vy - dy * vx;
        let dot = dx * vx + dy * vy;
        if 4 * cross * cross > (wi + 5) * (wi + 5) * l2 {
            band_ok = false;
        }
        if !(dot >= 0 || dot * dot <= l2) || !(dot <= l2 || (dot - l2) * (dot - l2) <= l2) {
            ends_ok = false;
        }
        if (2 * dot - l2) * (2 * dot - l2) <= 4 * l2 {
            nmid += 1;
            cmin = cmin.min(cross);
            cmax = cmax.max(cross);
        }
    }
    ctx.expect(band_ok, "C17:thick-band", || format!("{:?}->{:?} w={} pixel farther than w/2+2.5 from the line", s, e, w));
    ctx.expect(ends_ok, "C17:thick-ends", || format!("{:?}->{:?} w={} pixel more than 1 px beyond an end", s, e, w));
    let ext = if nmid > 0 { cmax - cmin } else { -1 };
    let mid_ok = nmid > 0 && (w < 3 || ext * ext >= (wi - 2) * (wi - 2) * l2);
    ctx.expect(mid_ok, "C17:thick-middle-width", || {
        format!("{:?}->{:?} w={} middle slab has {} px, perpendicular extent*L = {}", s, e, w, nmid, ext)
    });
}

fn emit_grid(r: i32, wmax: u32, emit: &mut dyn FnMut(String)) {
    for (sx, sy) in STARTS {
        for dx in -r..=r {
            for dy in -r..=r {
                for w in 1..=wmax {
                    emit(format!("thick.points {} {} {} {} {}", sx, sy, sx + dx, sy + dy, w));
                }
            }
        }
    }
}

impl Module for M {
    fn name(&self) -> &'static str {
        "thick"
    }
    fn rule(&self) -> &'static str {
        "all lines start -> start + (dx,dy), (dx,dy) in [-R,R]^2, x stroke widths 1..=W (R,W = 9,7 quick; 20,12 thorough) \
         from 3 start points, width 0 on a small grid, then seeded random long lines with |dx|,|dy| <= 1000, w in 1..=12 \
         (the non-overflowing range of thickness_threshold); non-trivial = width >= 2; distinct = distinct op text"
    }

    fn generate(&self, _pid: &str, tier: Tier, rng: &mut Rng, emit: &mut dyn FnMut(String)) {
        for dx in -2..=2 {
            for dy in -2..=2 {
                emit(format!("thick.points 1 -1 {} {} 0", 1 + dx, -1 + dy));
            }
        }
        let rb = if tier == Tier::Quick { 6 } else { 12 };
        for dx in -rb..=rb {
            for dy in -rb..=rb {
                for w in 0..=(if tier == Tier::Quick { 7 } else { 12 }) {
                    emit(format!("thick.bbox -3 2 {} {} {}", -3 + dx, 2 + dy, w));
                }
            }
        }
        if tier == Tier::Quick {
            emit_grid(9, 7, emit);
        } else {
            emit_grid(20, 12, emit);
        }
        let n = if tier == Tier::Quick { 300 } else { 6000 };
        for _ in 0..n {
            let sc = *rng.pick(&[30i64, 100, 300, 1000]);
            let (x0, y0) = (rng.range(-2000, 2000), rng.range(-2000, 2000));
            let (dx, dy) = match rng.below(10) {
                0 => (rng.range(-sc, sc), 0),
                1 => (0, rng.range(-sc, sc)),
                2 => {
                    let d = rng.range(-sc, sc);
                    (d, if rng.chance(1, 2) { d } else { -d })
                }
                _ => (rng.range(-sc, sc), rng.range(-sc, sc)),
            };
            let w = rng.range(1, 12);
            emit(format!("thick.points {} {} {} {} {}", x0, y0, x0 + dx, y0 + dy, w));
        }
    }

    fn execute(&self, op: &str, ctx: &mut Ctx) -> String {
        let mut t = Toks::new(op);
        match t.str() {
            "thick.points" => {
                let s = t.point();
                let e = t.point();
                let w = t.u32();
                let styled = Line::new(s, e).into_styled(PrimitiveStyle::with_stroke(BinaryColor::On, w));
                let px: Vec<Point> = styled.pixels().map(|Pixel(p, _)| p).collect();
                ctx.count(&format!("thick:w={}", w));
                let (dx, dy) = (e.x - s.x, e.y - s.y);
                ctx.count(if dx == 0 && dy == 0 {
                    "thick:zero-length"
                } else if dx == 0 || dy == 0 {
                    "thick:axis-parallel"
                } else if dx.abs() == dy.abs() {
                    "thick:diagonal"
                } else {
                    "thick:oblique"
                });
                ctx.count(if dx.abs().max(dy.abs()) <= 20 { "thick:len<=20" } else { "thick:len>20" });
                if w >= 2 {
                    ctx.nontrivial(op);
                }
                thick_oracle(ctx, s, e, w, &px);
                // draw() = one draw_iter call with the same sequence
                let mut r1: R1<BinaryColor> = R1::unbounded();
                let res = styled.draw(&mut r1);
                let drawn: Vec<Point> = match r1.rec.log.as_slice() {
                    [Call::DrawIter(v)] => v.iter().map(|((x, y), _)| Point::new(*x, *y)).collect(),
                    _ => vec![Point::new(i32::MIN, i32::MIN)],
                };
                ctx.expect(res.is_ok() && drawn == px, "thick-draw-eq-pixels", || {
                    format!("{:?}->{:?} w={} draw() differs from pixels()", s, e, w)
                });
                pts_digest(&px)
            }
            "thick.bbox" => {
                let s = t.point();
                let e = t.point();
                let w = t.u32();
                let styled = Line::new(s, e).into_styled(PrimitiveStyle::with_stroke(BinaryColor::On, w));
                let bb = styled.bounding_box();
                ctx.count("thick:bbox");
                ctx.expect(styled.pixels().all(|Pixel(p, _)| bb.contains(p)), "C02:line-bbox-contains-pixels", || {
                    format!("{:?}->{:?} w={} pixel outside {:?}", s, e, w, bb)
                });
                fmt_rect(&bb)
            }
            _ => panic!("unknown op {}", op),
        }
    }
}
