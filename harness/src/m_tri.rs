//! module `tri` (serves C19, triangle part, and C05, triangle part) — the Triangle primitive.
//!
//! Streams (every result line is compared with the Lean model `EG.Model.Triangle`):
//!   tri.points x1 y1 x2 y2 x3 y3
//!       -> bb=<bounding_box()> pts=<points() in iteration order> in=<contains() bitmap, row-major,
//!          over the bounding box grown by 2 px on every side>
//!          (`pts`: format of `m_line::pts_digest`, full list up to 64 points, digest beyond;
//!           `in`: the bits up to 256 cells, beyond `n=<cells>,ones=<count>,h=<hash>` with
//!           h_0 = 0, h_{i+1} = (h_i * 1000003 + bit_i + 1) mod 2^64)
//!   tri.outline x1 y1 x2 y2 x3 y3
//!       -> px=<points of into_styled(PrimitiveStyle::with_stroke(c, 1)).pixels() in iteration order,
//!          pts_digest format> n=<number of distinct pixels>
//!   tri.outline_al x1 y1 x2 y2 x3 y3 a      (C19; a = 0 Inside, 1 Center, 2 Outside)
//!       -> the same for stroke width 1 with `stroke_alignment(a)`; model
//!          `Triangle.outlinePixelsAligned` (lean/EG/Model/TriangleAligned.lean); same oracle
//!          `C19:tri-outline` (counters `tri:outline-al-inside/center/outside`)
//!   tri.pair ax ay bx by cx cy dx dy      (triangles (a,b,c) and (a,c,d): they share the edge a-c)
//!       -> p1=<points() of (a,b,c)> p2=<points() of (a,c,d)>   (pts_digest format)
//!   tri.draw x1 y1 x2 y2 x3 y3 kind bx by bw bh      (C19 only; kind 0 = fill only, 1 = 1-px stroke only)
//!       -> m=<the points painted by `draw()` on a native-fill recording target whose bounding box is
//!          (bx,by) bw x bh, row-major, pts_digest format>
//!          Oracle `C19:tri-draw-ne-points-clipped`: the painted set is exactly the set of `points()`
//!          (kind 0) / of the outline `pixels()` (kind 1) restricted to the target's box: drawing a triangle
//!          that is partly outside the target covers what is inside (seeded change C19-r2-2 culled runs
//!          starting left of the target).
//!
//! Oracle. Exact integer geometry (i64), written independently of the library; `cross(a,b,p) =
//! (b-a) x (p-a)`. Lean statements mirrored (all theorems of lean/EG/Props/C19/Triangle.lean and
//! lean/EG/Props/C05/Triangle.lean): C19 `interior_covered` (with `StrictlyInside`),
//! `covered_within_one_pixel` (with `ClosedInside`, `NearSegment`), `triangle_points_order_independent`,
//! `triangle_points_row_major`, `shared_edge_pixels_in_both`, `mesh_gap_free` (with `OnOpenSegment`),
//! `outline_is_edge_lines`; C05 `triangle_points_eq_filter_contains`, `triangle_points_in_bbox`,
//! `triangle_contains_false_outside_bbox`.
//!   C19:tri-interior      every integer point strictly inside the mathematical triangle (all three
//!                         cross products non-zero and of the same sign) is in points()
//!   C19:tri-outside-1px   every point of points() is inside the closed triangle (cross products all
//!                         >= 0 or all <= 0, non-zero area) or at EUCLIDEAN distance <= 1 from one of
//!                         the three edge SEGMENTS (exactly: with t = (p-a).(b-a), L = |b-a|^2:
//!                         t <= 0: |p-a|^2 <= 1; t >= L: |p-b|^2 <= 1; else cross^2 <= L). Metric
//!                         fixed as in the design-phase probes; the Bresenham edges stay within
//!                         half a pixel, so the unchanged tree passes with margin.
//!   C19:tri-duplicate     points() yields no point twice
//!   C19:tri-order         all 6 vertex orders give the same point SET (the sequence is compared
//!                         too and counted as `tri:order-sequence-differs` if it ever differs)
//!   C19:tri-shared-edge   pair: the thin line between the shared vertices (real `Line::points()`,
//!                         itself covered by C17), in one of its two orientations, lies in BOTH
//!                         point sets: both triangles paint the same pixel chain along the edge
//!   C19:tri-mesh-gap      pair with b and d strictly on opposite sides of a-c: every integer point
//!                         of the quadrilateral's interior (strictly inside one of the triangles, or
//!                         on the open segment a-c) is in the union of the two point sets
//!   C19:tri-outline       the pixel set of the 1-px outline equals the union of the three edge
//!                         lines' `Line::points()`, each edge taken in one of its two orientations
//!                         (Bresenham ties round differently in the two directions; the counters
//!                         `tri:outline-as-given` / `tri:outline-reversed` say which cyclic direction
//!                         matched); no pixel twice is NOT claimed (edges share their end points)
//!   C05:tri-points-vs-contains   non-zero area: points() == the points of the grown box, in
//!                         row-major order, for which contains() is true (hence sorted, no
//!                         duplicate, nothing missing, nothing extra)
//!   C05:tri-outside-bbox  every point of points() is inside bounding_box()
//!   C05:tri-contains-outside-bbox  contains() is false on the 2-px margin around the box
//!   (zero area: the property claims nothing; `tri:zero-area` counts them, `contains` is false there)
use crate::common::*;
use crate::m_line::pts_digest;
use embedded_graphics::{
    pixelcolor::{BinaryColor, Rgb565},
    prelude::*,
    primitives::{ContainsPoint, Line, PrimitiveStyle, PrimitiveStyleBuilder, Rectangle, StrokeAlignment, Triangle},
};
use std::collections::HashSet;

pub struct M;

type P = (i64, i64);

fn cross(a: P, b: P, p: P) -> i64 {
    (b.0 - a.0) * (p.1 - a.1) - (b.1 - a.1) * (p.0 - a.0)
}
fn strictly_inside(v: &[P; 3], p: P) -> bool {
    let d = [cross(v[0], v[1], p), cross(v[1], v[2], p), cross(v[2], v[0], p)];
    d.iter().all(|x| *x > 0) || d.iter().all(|x| *x < 0)
}
fn closed_inside(v: &[P; 3], p: P) -> bool {
    if cross(v[0], v[1], v[2]) == 0 {
        return false; // a degenerate triangle is the union of its edges: see `near_segment`
    }
    let d = [cross(v[0], v[1], p), cross(v[1], v[2], p), cross(v[2], v[0], p)];
    d.iter().all(|x| *x >= 0) || d.iter().all(|x| *x <= 0)
}
/// Euclidean distance from `p` to the segment `a b` is at most 1 (exact).
fn near_segment(a: P, b: P, p: P) -> bool {
    let (ex, ey) = (b.0 - a.0, b.1 - a.1);
    let (px, py) = (p.0 - a.0, p.1 - a.1);
    let l = ex * ex + ey * ey;
    let t = px * ex + py * ey;
    if t <= 0 {
        px * px + py * py <= 1
    } else if t >= l {
        let (qx, qy) = (p.0 - b.0, p.1 - b.1);
        qx * qx + qy * qy <= 1
    } else {
        let c = cross(a, b, p);
        c * c <= l
    }
}
fn on_open_segment(a: P, b: P, p: P) -> bool {
    if cross(a, b, p) != 0 {
        return false;
    }
    let t = (p.0 - a.0) * (b.0 - a.0) + (p.1 - a.1) * (b.1 - a.1);
    let l = (b.0 - a.0) * (b.0 - a.0) + (b.1 - a.1) * (b.1 - a.1);
    0 < t && t < l
}

fn pt(p: P) -> Point {
    Point::new(p.0 as i32, p.1 as i32)
}
fn tri_of(v: &[P; 3]) -> Triangle {
    Triangle::new(pt(v[0]), pt(v[1]), pt(v[2]))
}
const CAP: usize = 2_000_000;
fn points_of(v: &[P; 3]) -> Vec<Point> {
    tri_of(v).points().take(CAP).collect()
}
fn set_of(pts: &[Point]) -> HashSet<(i32, i32)> {
    pts.iter().map(|p| (p.x, p.y)).collect()
}
fn sorted_set(s: &HashSet<(i32, i32)>) -> Vec<(i32, i32)> {
    let mut v: Vec<(i32, i32)> = s.iter().copied().collect();
    v.sort_by_key(|(x, y)| (*y, *x));
    v
}

fn bits_digest(bits: &[bool]) -> String {
    if bits.len() <= 256 {
        return bits.iter().map(|b| if *b { '1' } else { '0' }).collect();
    }
    let mut h: u64 = 0;
    let mut ones = 0u64;
    for b in bits {
        h = h.wrapping_mul(1_000_003).wrapping_add(*b as u64 + 1);
        ones += *b as u64;
    }
    format!("n={},ones={},h={}", bits.len(), ones, h)
}

fn read_pts<const N: usize>(t: &mut Toks) -> [P; N] {
    let mut v = [(0i64, 0i64); N];
    for k in 0..N {
        v[k] = (t.i64(), t.i64());
    }
    v
}

const ORDERS: [[usize; 3]; 6] = [[0, 1, 2], [0, 2, 1], [1, 0, 2], [1, 2, 0], [2, 0, 1], [2, 1, 0]];

fn classify(ctx: &mut Ctx, v: &[P; 3]) {
    let a = cross(v[0], v[1], v[2]);
    ctx.count(if a == 0 {
        "tri:zero-area"
    } else if a > 0 {
        "tri:orientation-positive"
    } else {
        "tri:orientation-negative"
    });
    if v[0] == v[1] || v[1] == v[2] || v[0] == v[2] {
        ctx.count("tri:coincident-vertices");
    }
    if a != 0 && (v[0].1 == v[1].1 || v[1].1 == v[2].1 || v[0].1 == v[2].1) {
        ctx.count("tri:flat-side");
    }
    let ext = v.iter().map(|p| p.0.abs().max(p.1.abs())).max().unwrap();
    ctx.count(if ext <= 3 {
        "tri:extent<=3"
    } else if ext <= 12 {
        "tri:extent<=12"
    } else {
        "tri:extent>12"
    });
}

fn exec_points(op: &str, t: &mut Toks, ctx: &mut Ctx) -> String {
    let v: [P; 3] = read_pts(t);
    classify(ctx, &v);
    let tri = tri_of(&v);
    let area = cross(v[0], v[1], v[2]);
    if area != 0 {
        ctx.nontrivial(op);
    }
    let bb = tri.bounding_box();
    let pts = points_of(&v);
    if pts.len() <= 300 {
        iter_protocol_check(ctx, "iterator-protocol:triangle-points", tri.points(), 300);
    }
    let set = set_of(&pts);
    // contains() over the box grown by 2 px
    let grown = Rectangle::new(bb.top_left - Point::new(2, 2), bb.size + Size::new(4, 4));
    let mut bits = Vec::with_capacity((grown.size.width * grown.size.height) as usize);
    let mut accepted: Vec<Point> = Vec::new();
    let mut margin_hit: Option<Point> = None;
    for p in grown.points() {
        let c = tri.contains(p);
        bits.push(c);
        if c {
            accepted.push(p);
            if !bb.contains(p) && margin_hit.is_none() {
                margin_hit = Some(p);
            }
        }
    }

    // ---- C19 ----
    if ctx.pid == "C19" {
        let mut miss: Option<Point> = None;
        for p in bb.points() {
            if strictly_inside(&v, (p.x as i64, p.y as i64)) && !set.contains(&(p.x, p.y)) {
                miss = Some(p);
                break;
            }
        }
        ctx.expect(miss.is_none(), "C19:tri-interior", || format!("{:?}: interior point {:?} not in points()", v, miss));
        let far = pts.iter().find(|p| {
            let q = (p.x as i64, p.y as i64);
            !(closed_inside(&v, q) || near_segment(v[0], v[1], q) || near_segment(v[1], v[2], q) || near_segment(v[2], v[0], q))
        });
        ctx.expect(far.is_none(), "C19:tri-outside-1px", || {
            format!("{:?}: {:?} is outside and more than one pixel from every edge", v, far)
        });
        ctx.expect(set.len() == pts.len(), "C19:tri-duplicate", || {
            format!("{:?}: {} points, {} distinct", v, pts.len(), set.len())
        });
        let mut set_diff: Option<[usize; 3]> = None;
        for o in ORDERS.iter().skip(1) {
            let w = [v[o[0]], v[o[1]], v[o[2]]];
            let q = points_of(&w);
            if q != pts {
                ctx.count("tri:order-sequence-differs");
                if set_of(&q) != set && set_diff.is_none() {
                    set_diff = Some(*o);
                }
            }
        }
        ctx.expect(set_diff.is_none(), "C19:tri-order", || {
            format!("{:?}: vertex order {:?} gives a different point set", v, set_diff)
        });
    }

    // ---- C05 ----
    let outside = pts.iter().find(|p| !bb.contains(**p));
    ctx.expect(outside.is_none(), "C05:tri-outside-bbox", || format!("{:?}: {:?} outside {:?}", v, outside, bb));
    ctx.expect(margin_hit.is_none(), "C05:tri-contains-outside-bbox", || {
        format!("{:?}: contains({:?}) is true outside {:?}", v, margin_hit, bb)
    });
    if area != 0 {
        ctx.expect(pts == accepted, "C05:tri-points-vs-contains", || {
            let acc = set_of(&accepted);
            let extra: Vec<_> = sorted_set(&set).into_iter().filter(|p| !acc.contains(p)).take(3).collect();
            let missing: Vec<_> = sorted_set(&acc).into_iter().filter(|p| !set.contains(p)).take(3).collect();
            format!(
                "{:?}: points() has {} points, contains() accepts {}; in points() only {:?}; accepted only {:?}",
                v,
                pts.len(),
                accepted.len(),
                extra,
                missing
            )
        });
    } else if !accepted.is_empty() {
        ctx.count("tri:zero-area-contains-true");
    }
    format!("bb={} pts={} in={}", fmt_rect(&bb), pts_digest(&pts), bits_digest(&bits))
}

fn exec_outline(op: &str, t: &mut Toks, ctx: &mut Ctx) -> String {
    let v: [P; 3] = read_pts(t);
    classify(ctx, &v);
    if cross(v[0], v[1], v[2]) != 0 {
        ctx.nontrivial(op);
    }
    // `tri.outline_al` carries the stroke alignment as a seventh token
    let style = if op.starts_with("tri.outline_al ") {
        let a = t.u32();
        ctx.count(match a {
            0 => "tri:outline-al-inside",
            1 => "tri:outline-al-center",
            _ => "tri:outline-al-outside",
        });
        PrimitiveStyleBuilder::new()
            .stroke_color(BinaryColor::On)
            .stroke_width(1)
            .stroke_alignment(match a {
                0 => StrokeAlignment::Inside,
                1 => StrokeAlignment::Center,
                _ => StrokeAlignment::Outside,
            })
            .build()
    } else {
        PrimitiveStyle::with_stroke(BinaryColor::On, 1)
    };
    let px: Vec<Point> = tri_of(&v).into_styled(style).pixels().take(CAP).map(|p| p.0).collect();
    let set = set_of(&px);
    let line = |a: P, b: P| -> Vec<Point> { Line::new(pt(a), pt(b)).points().collect() };
    let edges = [(v[0], v[1]), (v[1], v[2]), (v[2], v[0])];
    let mut matched: Option<u32> = None;
    for mask in 0..8u32 {
        let mut u: HashSet<(i32, i32)> = HashSet::new();
        for (k, (a, b)) in edges.iter().enumerate() {
            let l = if mask & (1 << k) == 0 { line(*a, *b) } else { line(*b, *a) };
            u.extend(l.iter().map(|p| (p.x, p.y)));
        }
        if u == set {
            matched = Some(mask);
            break;
        }
    }
    match matched {
        Some(0) => ctx.count("tri:outline-as-given"),
        Some(7) => ctx.count("tri:outline-reversed"),
        Some(_) => ctx.count("tri:outline-mixed-orientation"),
        None => {}
    }
    ctx.expect(matched.is_some(), "C19:tri-outline", || {
        format!("{:?}: the {} outline pixels are not the union of the three edge lines in any orientation", v, set.len())
    });
    format!("px={} n={}", pts_digest(&px), set.len())
}

fn exec_pair(op: &str, t: &mut Toks, ctx: &mut Ctx) -> String {
    let q: [P; 4] = read_pts(t);
    let (a, b, c, d) = (q[0], q[1], q[2], q[3]);
    let t1 = [a, b, c];
    let t2 = [a, c, d];
    let p1 = points_of(&t1);
    let p2 = points_of(&t2);
    let s1 = set_of(&p1);
    let s2 = set_of(&p2);
    let (sb, sd) = (cross(a, c, b), cross(a, c, d));
    let opposite = (sb > 0 && sd < 0) || (sb < 0 && sd > 0);
    ctx.count(if a == c {
        "tri:pair-degenerate-edge"
    } else if opposite {
        "tri:pair-opposite-sides"
    } else if sb == 0 || sd == 0 {
        "tri:pair-one-degenerate"
    } else {
        "tri:pair-same-side"
    });
    if opposite {
        ctx.nontrivial(op);
    }
    // same pixel chain along the shared edge
    let fwd: Vec<Point> = Line::new(pt(a), pt(c)).points().collect();
    let bwd: Vec<Point> = Line::new(pt(c), pt(a)).points().collect();
    let both = |l: &Vec<Point>| l.iter().all(|p| s1.contains(&(p.x, p.y)) && s2.contains(&(p.x, p.y)));
    ctx.expect(both(&fwd) || both(&bwd), "C19:tri-shared-edge", || {
        format!("{:?} | {:?}: neither Line(a,c) nor Line(c,a) lies in both point sets", t1, t2)
    });
    if opposite {
        let xs = q.iter().map(|p| p.0);
        let ys = q.iter().map(|p| p.1);
        let (x0, x1) = (xs.clone().min().unwrap(), xs.max().unwrap());
        let (y0, y1) = (ys.clone().min().unwrap(), ys.max().unwrap());
        let mut gap: Option<P> = None;
        'outer: for y in y0..=y1 {
            for x in x0..=x1 {
                let p = (x, y);
                if (strictly_inside(&t1, p) || strictly_inside(&t2, p) || on_open_segment(a, c, p))
                    && !(s1.contains(&(x as i32, y as i32)) || s2.contains(&(x as i32, y as i32)))
                {
                    gap = Some(p);
                    break 'outer;
                }
            }
        }
        ctx.expect(gap.is_none(), "C19:tri-mesh-gap", || {
            format!("{:?} | {:?}: {:?} is inside the quadrilateral but in neither triangle", t1, t2, gap)
        });
    }
    format!("p1={} p2={}", pts_digest(&p1), pts_digest(&p2))
}

fn op3(stream: &str, v: &[P; 3]) -> String {
    format!("{} {} {} {} {} {} {}", stream, v[0].0, v[0].1, v[1].0, v[1].1, v[2].0, v[2].1)
}

/// all ordered vertex triples on the `g x g` grid `(ox + sx*i, oy + sy*j)`
fn grid_triples(g: i64, ox: i64, oy: i64, sx: i64, sy: i64, f: &mut dyn FnMut([P; 3])) {
    let cells = g * g;
    let at = |c: i64| (ox + sx * (c % g), oy + sy * (c / g));
    for i in 0..cells {
        for j in 0..cells {
            for k in 0..cells {
                f([at(i), at(j), at(k)]);
            }
        }
    }
}

fn random_triangle(rng: &mut Rng) -> [P; 3] {
    let sc = *rng.pick(&[4i64, 8, 16, 30, 60]);
    let mut v = [(0i64, 0i64); 3];
    for k in 0..3 {
        v[k] = match rng.below(10) {
            0 if k >= 1 => (v[k - 1].0 + rng.range(-sc, sc).clamp(-60 - v[k - 1].0, 60 - v[k - 1].0), v[k - 1].1), // flat side
            1 if k >= 1 => (v[k - 1].0, rng.range(-sc, sc)),                                                          // vertical side
            2 if k >= 2 => {
                // colinear with the first two (when the extrapolation stays in range)
                let (dx, dy) = (v[1].0 - v[0].0, v[1].1 - v[0].1);
                let m = rng.range(-2, 3);
                let p = (v[0].0 + m * dx, v[0].1 + m * dy);
                if p.0.abs() <= 60 && p.1.abs() <= 60 {
                    p
                } else {
                    (rng.range(-sc, sc), rng.range(-sc, sc))
                }
            }
            _ => (rng.range(-sc, sc), rng.range(-sc, sc)),
        };
    }
    v
}

fn exec_draw(op: &str, t: &mut Toks, ctx: &mut Ctx) -> String {
    let v: [P; 3] = read_pts(t);
    let kind = t.u32();
    let bbox = t.rect();
    let tri = tri_of(&v);
    ctx.count(if kind == 0 { "draw:fill" } else { "draw:outline" });
    let style = if kind == 0 { PrimitiveStyle::with_fill(Rgb565::new(0, 0, 7)) } else { PrimitiveStyle::with_stroke(Rgb565::new(0, 0, 9), 1) };
    let styled = tri.into_styled(style);
    let mut r2: R2<Rgb565> = R2::new(bbox);
    styled.draw(&mut r2).expect("no fault");
    let painted: Vec<Point> = r2.rec.map.keys().map(|(y, x)| Point::new(*x, *y)).collect();
    // the reference: points() / outline pixels(), restricted to the box, as a row-major set
    let all: Vec<Point> = if kind == 0 { tri.points().take(CAP).collect() } else { styled.pixels().take(CAP).map(|p| p.0).collect() };
    let mut want: Vec<(i32, i32)> = all.iter().filter(|p| bbox.contains(**p)).map(|p| (p.y, p.x)).collect();
    want.sort();
    want.dedup();
    let want: Vec<Point> = want.into_iter().map(|(y, x)| Point::new(x, y)).collect();
    let clipped = all.len() != all.iter().filter(|p| bbox.contains(**p)).count();
    ctx.count(if clipped { "draw:partly-outside-the-target" } else { "draw:inside-the-target" });
    if !want.is_empty() && clipped {
        ctx.nontrivial(op);
    }
    ctx.expect(painted == want, "C19:tri-draw-ne-points-clipped", || {
        format!("{} painted {} want {}", op, pts_digest(&painted), pts_digest(&want))
    });
    // the same box on a draw_iter-only target (trait defaults), and the reference once more by plain interval
    // arithmetic (not `Rectangle::contains`)
    let mut r1: R1<Rgb565> = R1::new(bbox);
    styled.draw(&mut r1).expect("no fault");
    let painted1: Vec<Point> = r1.rec.map.keys().map(|(y, x)| Point::new(*x, *y)).collect();
    let all_map: PMap = all.iter().map(|p| ((p.y, p.x), 1u32)).collect();
    let want1: Vec<Point> = restrict_map(&all_map, &bbox).keys().map(|(y, x)| Point::new(*x, *y)).collect();
    ctx.expect(painted1 == want1 && want1 == want, "C19:tri-draw-ne-points-clipped", || {
        format!("{} draw_iter-only target painted {} want {}", op, pts_digest(&painted1), pts_digest(&want1))
    });
    if bbox.size.width == 0 || bbox.size.height == 0 {
        ctx.count("draw:empty-target-box");
    } else if want.is_empty() && !all.is_empty() {
        ctx.count("draw:target-box-disjoint-from-the-triangle");
    }
    format!("m={}", pts_digest(&painted))
}

impl Module for M {
    fn name(&self) -> &'static str {
        "tri"
    }
    fn rule(&self) -> &'static str {
        "tri.points / tri.outline: ALL ordered vertex triples (hence all 6 orders of every triple, colinear and coincident \
         vertices included) on a 5x5 grid with unit spacing around the origin (-2..=2) and on a stretched 5x5 grid \
         (x = -5 + 3i, y = -3 + 2j), thorough: 7x7 unit grid and 6x6 stretched grid. tri.outline on the stretched grid takes \
         only every 4th ORDERED triple of the enumeration (so there not all 6 orders of a given triple are run; on the unit grid \
         they are); then seeded \
         random triangles with coordinates within +-60 at scales 4/8/16/30/60 with forced flat, vertical and colinear cases \
         (quick 2000 points / 600 outlines, thorough 50000 / 10000); every tri.points op also evaluates all 6 vertex orders. \
         tri.pair: all quadrilaterals a,b,c,d on a 4x4 grid with a < c (index order), split along a-c, plus random ones \
         (quick 600, thorough 20000). C05: the same tri.points ops (the same grids and the same number of random ones). \
         tri.outline_al (C19): the 1-px outline with Inside and Outside alignment on ALL ordered triples of the unit grid, with \
         all three alignments in turn on every 4th ordered triple of the stretched grid and on random triangles (quick 600, thorough 10000). \
         Non-trivial: non-zero area (points, outline); b and d strictly on opposite sides of a-c (pair). distinct = distinct op text."
    }

    fn generate(&self, pid: &str, tier: Tier, rng: &mut Rng, emit: &mut dyn FnMut(String)) {
        let quick = tier == Tier::Quick;
        if pid != "C19" && pid != "C05" {
            return;
        }
        let c19 = pid == "C19";
        // exhaustive grids
        let g1 = if quick { 5 } else { 7 };
        grid_triples(g1, -(g1 / 2), -(g1 / 2), 1, 1, &mut |v| emit(op3("tri.points", &v)));
        let g2 = if quick { 5 } else { 6 };
        grid_triples(g2, -5, -3, 3, 2, &mut |v| emit(op3("tri.points", &v)));
        if c19 {
            grid_triples(g1, -(g1 / 2), -(g1 / 2), 1, 1, &mut |v| emit(op3("tri.outline", &v)));
            let mut n = 0u64;
            grid_triples(g2, -5, -3, 3, 2, &mut |v| {
                n += 1;
                if n % 4 == 0 {
                    emit(op3("tri.outline", &v));
                }
            });
            // all quadrilaterals on a 4x4 grid, split along the diagonal a-c (a < c in index order;
            // the other order is the same pair of triangles with permuted vertices)
            let at = |c: i64| (-1 + (c % 4), -2 + (c / 4));
            for a in 0..16 {
                for c in a + 1..16 {
                    for b in 0..16 {
                        for d in 0..16 {
                            let (pa, pb, pc, pd) = (at(a), at(b), at(c), at(d));
                            emit(format!(
                                "tri.pair {} {} {} {} {} {} {} {}",
                                pa.0, pa.1, pb.0, pb.1, pc.0, pc.1, pd.0, pd.1
                            ));
                        }
                    }
                }
            }
        }
        if c19 {
            // draw() on bounded targets: triangles sticking out on every side of the target's box
            let boxes: [(i32, i32, u32, u32); 4] = [(0, 0, 6, 5), (-3, -2, 4, 4), (2, 1, 3, 6), (-20, -20, 64, 64)];
            let mut n = 0u64;
            grid_triples(g2, -5, -3, 3, 2, &mut |v| {
                n += 1;
                if n % 3 == 0 {
                    let b = boxes[(n as usize / 3) % boxes.len()];
                    emit(format!("{} {} {} {} {} {}", op3("tri.draw", &v), (n / 3) % 2, b.0, b.1, b.2, b.3));
                }
            });
            let nd = if quick { 600 } else { 10_000 };
            for i in 0..nd {
                let v = random_triangle(rng);
                let (bx, by) = (rng.range(-40, 30) as i32, rng.range(-40, 30) as i32);
                let (bw, bh) = (rng.range(1, 50) as u32, rng.range(1, 50) as u32);
                emit(format!("{} {} {} {} {} {}", op3("tri.draw", &v), i % 2, bx, by, bw, bh));
            }
            // degenerate target boxes: empty (0 x 0), flat (w x 0, 0 x h) inside the triangle's extent, and boxes disjoint
            // from the triangle (far away on either side): nothing may be drawn
            let degenerate: [(i32, i32, u32, u32); 6] = [(0, 0, 0, 0), (-2, -1, 9, 0), (1, -3, 0, 8), (1000, 777, 20, 20), (-1000, -777, 20, 20), (-20, 300, 64, 5)];
            let mut n = 0u64;
            grid_triples(g2, -5, -3, 3, 2, &mut |v| {
                n += 1;
                if n % 11 == 0 {
                    let b = degenerate[(n as usize / 11) % degenerate.len()];
                    emit(format!("{} {} {} {} {} {}", op3("tri.draw", &v), (n / 11) % 2, b.0, b.1, b.2, b.3));
                }
            });
            for i in 0..(nd / 4) {
                let v = random_triangle(rng);
                let b = degenerate[i % degenerate.len()];
                emit(format!("{} {} {} {} {} {}", op3("tri.draw", &v), (i / degenerate.len()) % 2, b.0, b.1, b.2, b.3));
            }
        }
        // random larger
        let (np, no, nq) = if quick { (2000, 600, 600) } else { (50_000, 10_000, 20_000) };
        for _ in 0..np {
            let v = random_triangle(rng);
            emit(op3("tri.points", &v));
        }
        if c19 {
            for _ in 0..no {
                let v = random_triangle(rng);
                emit(op3("tri.outline", &v));
            }
            for _ in 0..nq {
                let v = random_triangle(rng);
                // the fourth vertex: mostly on the other side of v0-v2 (mirror of v1 plus noise)
                let sc = *rng.pick(&[3i64, 8, 20]);
                let d = if rng.chance(3, 4) {
                    let m = (v[0].0 + v[2].0 - v[1].0, v[0].1 + v[2].1 - v[1].1);
                    ((m.0 + rng.range(-sc, sc)).clamp(-120, 120), (m.1 + rng.range(-sc, sc)).clamp(-120, 120))
                } else {
                    (rng.range(-60, 60), rng.range(-60, 60))
                };
                emit(format!(
                    "tri.pair {} {} {} {} {} {} {} {}",
                    v[0].0, v[0].1, v[1].0, v[1].1, v[2].0, v[2].1, d.0, d.1
                ));
            }
        }
        if c19 {
            // one-pixel outline with Inside / Outside alignment (after everything else, so that the
            // random ops above are the same as before this stream existed): ALL ordered triples of
            // the unit grid for Inside and Outside, every 4th of the stretched grid, random ones
            grid_triples(g1, -(g1 / 2), -(g1 / 2), 1, 1, &mut |v| {
                emit(format!("{} 0", op3("tri.outline_al", &v)));
                emit(format!("{} 2", op3("tri.outline_al", &v)));
            });
            let mut n = 0u64;
            grid_triples(g2, -5, -3, 3, 2, &mut |v| {
                n += 1;
                if n % 4 == 0 {
                    emit(format!("{} {}", op3("tri.outline_al", &v), (n / 4) % 3));
                }
            });
            for i in 0..no {
                let v = random_triangle(rng);
                emit(format!("{} {}", op3("tri.outline_al", &v), i % 3));
            }
        }
    }

    fn execute(&self, op: &str, ctx: &mut Ctx) -> String {
        let mut t = Toks::new(op);
        match t.str() {
            "tri.points" => exec_points(op, &mut t, ctx),
            "tri.outline" | "tri.outline_al" => exec_outline(op, &mut t, ctx),
            "tri.pair" => exec_pair(op, &mut t, ctx),
            "tri.draw" => exec_draw(op, &mut t, ctx),
            _ => panic!("unknown op {}", op),
        }
    }
}
