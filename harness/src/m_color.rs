//! module `color` (serves C12) — colours survive the trip through their raw representation.
//!
//! Streams (every result line is compared with the Lean model `EG.Model.Color` instantiated from the
//! generated `EG.Generated.ColorTable`):
//!   color.types                 -> name:kind:bpp:storagebits:nbytes:maxr:maxg:maxb;...  (sorted by name;
//!                                  kind 0 binary 1 gray 2 rgb 3 bgr) — the harness's own type list, read
//!                                  from the real associated constants, against the translator's table
//!   color.new  <Type> r g b     -> c=<raw> ch=<r>,<g>,<b> st=<into_storage> be=<bytes> le=<bytes>
//!   color.gray <Type> l         -> c=<raw> ch=<luma> st=.. be=.. le=..
//!   color.raw  <Type> v         -> in=<Raw::from_u32(v)> c=<raw of C::from(raw)> ch=<channels> st=.. be=.. le=..
//!
//! Oracle (the property text as predicates on the real results; Lean statements mirrored:
//! `C12.raw_roundtrip`, `into_fits`, `raw_idempotent`, `raw_clears_unused_only`, `new_channels`,
//! `gray_new_luma`, `new_layout`, `storage_bytes_agree`):
//!   roundtrip   C::from(Raw::from(c)) == c
//!   fits        Raw::from(c).into_inner() < 2^BITS_PER_PIXEL
//!   idempotent  raw -> colour -> raw applied twice changes nothing and the first application only
//!               clears bits, exactly those outside the channel fields
//!   channels    new(r,g,b).r() == r mod 2^rbits (..), new(l).luma() == l mod 2^bpp
//!   layout      raw == r' << rpos | g' << gpos | b' << bpos with the documented positions
//!               (RGB: blue at bit 0, green above, red on top; BGR: red at bit 0, blue on top)
//!   bytes       into_storage == raw; big-endian value of to_be_bytes == little-endian value of
//!               to_le_bytes == into_storage; lengths = size of Bytes; be == reverse(le); ne == le
use crate::common::*;
use embedded_graphics::pixelcolor::{
    raw::{RawData, ToBytes},
    *,
};

pub struct M;

/// Uniform view of a colour type for the harness.
pub trait CT: PixelColor + core::fmt::Debug {
    const NAME: &'static str;
    /// 0 binary, 1 gray, 2 rgb, 3 bgr
    const KIND: u32;
    const BPP: usize;
    const STORAGE_BITS: u32;
    const NBYTES: usize;
    const MAXES: [u8; 3];
    /// `Raw::from_u32(v)`: (inner value, colour built from it)
    fn from_u32(v: u32) -> (u32, Self);
    /// the other two public ways to build the raw value, from the storage integer `v as Storage`:
    /// (`Raw::from(storage)`, `Raw::new(storage)`) as inner values
    fn from_storage(v: u32) -> (u32, u32);
    fn raw(self) -> u32;
    fn storage(self) -> u32;
    fn be(self) -> Vec<u8>;
    fn le(self) -> Vec<u8>;
    fn ne(self) -> Vec<u8>;
    fn channels(self) -> Vec<u8>;
    fn new3(_r: u8, _g: u8, _b: u8) -> Option<Self> {
        None
    }
    fn new1(_l: u8) -> Option<Self> {
        None
    }
}

macro_rules! ct_common {
    ($t:ident) => {
        const NAME: &'static str = stringify!($t);
        const BPP: usize = <<$t as PixelColor>::Raw as RawData>::BITS_PER_PIXEL;
        const STORAGE_BITS: u32 = (core::mem::size_of::<<<$t as PixelColor>::Raw as RawData>::Storage>() * 8) as u32;
        const NBYTES: usize = core::mem::size_of::<<$t as ToBytes>::Bytes>();
        fn from_u32(v: u32) -> (u32, Self) {
            let raw = <<$t as PixelColor>::Raw as RawData>::from_u32(v);
            (raw.into_inner() as u32, <$t>::from(raw))
        }
        fn from_storage(v: u32) -> (u32, u32) {
            type R = <$t as PixelColor>::Raw;
            type S = <R as RawData>::Storage;
            let st = v as S;
            (R::from(st).into_inner() as u32, R::new(st).into_inner() as u32)
        }
        fn raw(self) -> u32 {
            let r: <$t as PixelColor>::Raw = self.into();
            r.into_inner() as u32
        }
        fn storage(self) -> u32 {
            self.into_storage() as u32
        }
        fn be(self) -> Vec<u8> {
            ToBytes::to_be_bytes(self).to_vec()
        }
        fn le(self) -> Vec<u8> {
            ToBytes::to_le_bytes(self).to_vec()
        }
        fn ne(self) -> Vec<u8> {
            ToBytes::to_ne_bytes(self).to_vec()
        }
    };
}
macro_rules! ct_rgb {
    ($kind:expr; $($t:ident),*) => {$(
        impl CT for $t {
            ct_common!($t);
            const KIND: u32 = $kind;
            const MAXES: [u8; 3] = [<$t as RgbColor>::MAX_R, <$t as RgbColor>::MAX_G, <$t as RgbColor>::MAX_B];
            fn channels(self) -> Vec<u8> { vec![self.r(), self.g(), self.b()] }
            fn new3(r: u8, g: u8, b: u8) -> Option<Self> { Some(<$t>::new(r, g, b)) }
        }
    )*};
}
macro_rules! ct_gray {
    ($($t:ident),*) => {$(
        impl CT for $t {
            ct_common!($t);
            const KIND: u32 = 1;
            const MAXES: [u8; 3] = [0, 0, 0];
            fn channels(self) -> Vec<u8> { vec![self.luma()] }
            fn new1(l: u8) -> Option<Self> { Some(<$t>::new(l)) }
        }
    )*};
}
ct_rgb!(2; Rgb332, Rgb444, Rgb555, Rgb565, Rgb666, Rgb888);
ct_rgb!(3; Bgr555, Bgr565, Bgr666, Bgr888);
ct_gray!(Gray2, Gray4, Gray8);
impl CT for BinaryColor {
    ct_common!(BinaryColor);
    const KIND: u32 = 0;
    const MAXES: [u8; 3] = [0, 0, 0];
    fn channels(self) -> Vec<u8> {
        vec![self.is_on() as u8]
    }
}

/// Calls `$f::<T>($args)` for the colour type named `$name`.
#[macro_export]
macro_rules! with_color_type {
    ($name:expr, $f:ident ( $($args:expr),* )) => {
        match $name {
            "BinaryColor" => $f::<BinaryColor>($($args),*),
            "Gray2" => $f::<Gray2>($($args),*),
            "Gray4" => $f::<Gray4>($($args),*),
            "Gray8" => $f::<Gray8>($($args),*),
            "Rgb332" => $f::<Rgb332>($($args),*),
            "Rgb444" => $f::<Rgb444>($($args),*),
            "Rgb555" => $f::<Rgb555>($($args),*),
            "Bgr555" => $f::<Bgr555>($($args),*),
            "Rgb565" => $f::<Rgb565>($($args),*),
            "Bgr565" => $f::<Bgr565>($($args),*),
            "Rgb666" => $f::<Rgb666>($($args),*),
            "Bgr666" => $f::<Bgr666>($($args),*),
            "Rgb888" => $f::<Rgb888>($($args),*),
            "Bgr888" => $f::<Bgr888>($($args),*),
            other => panic!("unknown colour type {}", other),
        }
    };
}

pub const ALL_TYPES: [&str; 14] = [
    "BinaryColor", "Gray2", "Gray4", "Gray8", "Rgb332", "Rgb444", "Rgb555", "Bgr555", "Rgb565", "Bgr565", "Rgb666",
    "Bgr666", "Rgb888", "Bgr888",
];
pub const RGB_TYPES: [&str; 10] =
    ["Rgb332", "Rgb444", "Rgb555", "Bgr555", "Rgb565", "Bgr565", "Rgb666", "Bgr666", "Rgb888", "Bgr888"];
pub const GRAY_TYPES: [&str; 3] = ["Gray2", "Gray4", "Gray8"];

fn type_line<C: CT>() -> String {
    format!(
        "{}:{}:{}:{}:{}:{}:{}:{}",
        C::NAME,
        C::KIND,
        C::BPP,
        C::STORAGE_BITS,
        C::NBYTES,
        C::MAXES[0],
        C::MAXES[1],
        C::MAXES[2]
    )
}
pub fn maxes_of<C: CT>() -> [u8; 3] {
    C::MAXES
}
pub fn bpp_of<C: CT>() -> usize {
    C::BPP
}

fn bits(max: u8) -> u32 {
    (max as u32).count_ones()
}

/// documented bit positions (r, g, b) of an RGB/BGR type with the given channel maxima
fn documented_positions(kind: u32, m: [u8; 3]) -> [u32; 3] {
    let (rb, gb, bb) = (bits(m[0]), bits(m[1]), bits(m[2]));
    if kind == 2 {
        [gb + bb, bb, 0]
    } else {
        [0, rb, rb + gb]
    }
}

/// Checks common to every colour value `c`, returns the canonical view text.
fn views<C: CT>(c: C, ctx: &mut Ctx) -> String {
    let raw = c.raw();
    let st = c.storage();
    let be = c.be();
    let le = c.le();
    let ne = c.ne();
    let ch = c.channels();
    // roundtrip: colour -> raw -> colour
    let (raw_again, back) = C::from_u32(raw);
    ctx.expect(back == c && raw_again == raw, "C12:raw-roundtrip", || {
        format!("{} {:?}: raw {} -> {:?} (raw {})", C::NAME, c, raw, back, raw_again)
    });
    // fits in BITS_PER_PIXEL
    ctx.expect((raw as u64) < (1u64 << C::BPP), "C12:raw-does-not-fit", || format!("{} raw {} bpp {}", C::NAME, raw, C::BPP));
    // into_storage, to_be_bytes, to_le_bytes describe the same value
    let be_val = be.iter().fold(0u64, |a, b| a * 256 + *b as u64);
    let le_val = le.iter().rev().fold(0u64, |a, b| a * 256 + *b as u64);
    ctx.expect(st == raw, "C12:into-storage-differs", || format!("{} storage {} raw {}", C::NAME, st, raw));
    ctx.expect(
        be_val == st as u64 && le_val == st as u64 && be.len() == C::NBYTES && le.len() == C::NBYTES && C::NBYTES * 8 >= C::BPP,
        "C12:byte-views-differ",
        || format!("{} storage {} be {:?} le {:?}", C::NAME, st, be, le),
    );
    let mut rev = le.clone();
    rev.reverse();
    ctx.expect(rev == be && ne == le, "C12:byte-order", || format!("{} be {:?} le {:?} ne {:?}", C::NAME, be, le, ne));
    // layout: the raw value is the channels at the documented positions
    match C::KIND {
        2 | 3 => {
            let p = documented_positions(C::KIND, C::MAXES);
            let want = ((ch[0] as u32) << p[0]) | ((ch[1] as u32) << p[1]) | ((ch[2] as u32) << p[2]);
            ctx.expect(raw == want, "C12:layout", || format!("{} ch {:?} raw {:#x} expected {:#x}", C::NAME, ch, raw, want));
            ctx.expect(ch[0] <= C::MAXES[0] && ch[1] <= C::MAXES[1] && ch[2] <= C::MAXES[2], "C12:channel-range", || {
                format!("{} ch {:?}", C::NAME, ch)
            });
        }
        _ => {
            ctx.expect(raw == ch[0] as u32, "C12:layout", || format!("{} ch {:?} raw {}", C::NAME, ch, raw));
        }
    }
    format!("c={} ch={} st={} be={} le={}", raw, fmt_list(ch.iter()), st, fmt_list(be.iter()), fmt_list(le.iter()))
}

fn op_new<C: CT>(r: u8, g: u8, b: u8, ctx: &mut Ctx) -> String {
    let c = C::new3(r, g, b).expect("not an RGB type");
    let ch = c.channels();
    let m = C::MAXES;
    let want = [
        (r as u32 % (m[0] as u32 + 1)) as u8,
        (g as u32 % (m[1] as u32 + 1)) as u8,
        (b as u32 % (m[2] as u32 + 1)) as u8,
    ];
    ctx.expect(ch == want, "C12:new-channel-not-modulo-width", || {
        format!("{}::new({},{},{}) channels {:?} expected {:?}", C::NAME, r, g, b, ch, want)
    });
    if r > m[0] || g > m[1] || b > m[2] {
        ctx.count("new:channel-out-of-range");
    } else {
        ctx.count("new:in-range");
    }
    views(c, ctx)
}

fn op_gray<C: CT>(l: u8, ctx: &mut Ctx) -> String {
    let c = C::new1(l).expect("not a gray type");
    let ch = c.channels();
    let want = (l as u32 % (1u32 << C::BPP)) as u8;
    ctx.expect(ch[0] == want, "C12:new-channel-not-modulo-width", || format!("{}::new({}) luma {} expected {}", C::NAME, l, ch[0], want));
    ctx.count("gray");
    views(c, ctx)
}

fn op_raw<C: CT>(v: u32, ctx: &mut Ctx) -> String {
    let (raw0, c) = C::from_u32(v);
    let raw1 = c.raw();
    // raw -> colour -> raw only clears bits: exactly the bits outside the channel fields
    let used: u32 = match C::KIND {
        2 | 3 => {
            let p = documented_positions(C::KIND, C::MAXES);
            ((C::MAXES[0] as u32) << p[0]) | ((C::MAXES[1] as u32) << p[1]) | ((C::MAXES[2] as u32) << p[2])
        }
        _ => ((1u64 << C::BPP) - 1) as u32,
    };
    ctx.expect(raw1 == raw0 & used, "C12:raw-to-raw-not-clearing-unused-bits", || {
        format!("{} raw {:#x} -> {:#x}, used mask {:#x}", C::NAME, raw0, raw1, used)
    });
    // idempotent
    let (_, c2) = C::from_u32(raw1);
    let raw2 = c2.raw();
    ctx.expect(raw2 == raw1 && c2 == c, "C12:raw-to-raw-not-idempotent", || format!("{} {:#x} -> {:#x} -> {:#x}", C::NAME, raw0, raw1, raw2));
    ctx.expect((raw0 as u64) < (1u64 << C::BPP), "C12:raw-does-not-fit", || format!("{} from_u32({:#x}) = {:#x}", C::NAME, v, raw0));
    // every public way to build the raw value masks alike: `Raw::from(storage)` and `Raw::new(storage)` keep exactly the
    // low BITS_PER_PIXEL bits of the storage integer (seeded change C12-r3-3 skipped the mask in `From<u32> for RawU24`)
    {
        let (via_from, via_new) = C::from_storage(v);
        let storage_mask: u64 = if C::STORAGE_BITS >= 32 { u32::MAX as u64 } else { (1u64 << C::STORAGE_BITS) - 1 };
        let want = ((v as u64 & storage_mask) & ((1u64 << C::BPP) - 1)) as u32;
        ctx.expect(via_from == want && via_new == want, "C12:raw-from-storage-not-masked", || {
            format!("{} storage {:#x}: From gives {:#x}, new gives {:#x}, expected {:#x}", C::NAME, v, via_from, via_new, want)
        });
    }
    if raw1 != raw0 {
        ctx.count("raw:unused-bits-set");
    } else if (v as u64) >= (1u64 << C::BPP) {
        ctx.count("raw:bits-beyond-bpp");
    } else {
        ctx.count("raw:plain");
    }
    format!("in={} {}", raw0, views(c, ctx))
}

fn chan_values(max: u8, rng: &mut Rng) -> [u8; 3] {
    [0, max, rng.below(max as u64 + 1) as u8]
}

impl Module for M {
    fn name(&self) -> &'static str {
        "color"
    }
    fn rule(&self) -> &'static str {
        "ops: every in-range (r,g,b) of every RGB type of at most 16 bits; every u8 channel argument (incl. out of range) \
         with the other two channels at {0, max, random} for all RGB types; every u8 luma for the gray types; every raw \
         value 0..=65535 for all types of at most 16 bits (incl. unused bits of Rgb444/Rgb555/Bgr555 and bits beyond \
         BITS_PER_PIXEL); for 24-bit types every byte lane exhaustively with the others at {0, 255, random}, all 256 \
         top-byte patterns of the u32 storage, then seeded random values. Non-trivial = op has a non-zero argument; \
         distinct = distinct op text."
    }

    fn generate(&self, _pid: &str, tier: Tier, rng: &mut Rng, emit: &mut dyn FnMut(String)) {
        emit("color.types".to_string());
        for name in RGB_TYPES {
            let m = with_color_type!(name, maxes_of());
            let bpp = with_color_type!(name, bpp_of());
            if bpp <= 16 {
                for r in 0..=m[0] {
                    for g in 0..=m[1] {
                        for b in 0..=m[2] {
                            emit(format!("color.new {} {} {} {}", name, r, g, b));
                        }
                    }
                }
            }
            // every u8 argument per channel, others at {0, max, random}
            for lane in 0..3 {
                let o1 = chan_values(m[(lane + 1) % 3], rng);
                let o2 = chan_values(m[(lane + 2) % 3], rng);
                for k in 0..3 {
                    for v in 0..=255u32 {
                        let mut a = [0u32; 3];
                        a[lane] = v;
                        a[(lane + 1) % 3] = o1[k] as u32;
                        a[(lane + 2) % 3] = o2[k] as u32;
                        emit(format!("color.new {} {} {} {}", name, a[0], a[1], a[2]));
                    }
                }
            }
            let n = match (tier, bpp > 16) {
                (Tier::Quick, true) => 20_000,
                (Tier::Quick, false) => 2_000,
                (Tier::Thorough, true) => 250_000,
                (Tier::Thorough, false) => 20_000,
            };
            for _ in 0..n {
                let x = rng.next();
                emit(format!("color.new {} {} {} {}", name, x & 255, (x >> 8) & 255, (x >> 16) & 255));
            }
        }
        for name in GRAY_TYPES {
            for l in 0..=255 {
                emit(format!("color.gray {} {}", name, l));
            }
        }
        for name in ALL_TYPES {
            let bpp = with_color_type!(name, bpp_of());
            if bpp <= 16 {
                let top = if bpp <= 8 { 1024 } else { 65536 };
                for v in 0..top {
                    emit(format!("color.raw {} {}", name, v));
                }
                // bits beyond the storage type
                for _ in 0..500 {
                    emit(format!("color.raw {} {}", name, rng.next() as u32));
                }
            } else {
                for lane in 0..4 {
                    for k in 0..3 {
                        let others: [u32; 4] = match k {
                            0 => [0; 4],
                            1 => [255; 4],
                            _ => [rng.below(256) as u32, rng.below(256) as u32, rng.below(256) as u32, rng.below(256) as u32],
                        };
                        for v in 0..=255u32 {
                            let mut b = others;
                            b[lane] = v;
                            emit(format!("color.raw {} {}", name, b[0] | (b[1] << 8) | (b[2] << 16) | (b[3] << 24)));
                        }
                    }
                }
                let n = if tier == Tier::Quick { 20_000 } else { 250_000 };
                for _ in 0..n {
                    emit(format!("color.raw {} {}", name, rng.next() as u32));
                }
            }
        }
    }

    fn execute(&self, op: &str, ctx: &mut Ctx) -> String {
        let mut t = Toks::new(op);
        match t.str() {
            "color.types" => {
                let mut v: Vec<String> = Vec::new();
                for name in ALL_TYPES {
                    v.push(with_color_type!(name, type_line()));
                }
                v.sort();
                ctx.count("types");
                v.join(";")
            }
            "color.new" => {
                let name = t.str();
                let (r, g, b) = (t.u32(), t.u32(), t.u32());
                if r | g | b != 0 {
                    ctx.nontrivial(op);
                }
                ctx.count(&format!("type:{}", name));
                with_color_type!(name, op_new(r as u8, g as u8, b as u8, ctx))
            }
            "color.gray" => {
                let name = t.str();
                let l = t.u32();
                if l != 0 {
                    ctx.nontrivial(op);
                }
                ctx.count(&format!("type:{}", name));
                with_color_type!(name, op_gray(l as u8, ctx))
            }
            "color.raw" => {
                let name = t.str();
                let v = t.u32();
                if v != 0 {
                    ctx.nontrivial(op);
                }
                ctx.count(&format!("type:{}", name));
                with_color_type!(name, op_raw(v, ctx))
            }
            other => panic!("unknown op {}", other),
        }
    }
}
