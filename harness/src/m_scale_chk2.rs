//! second group of `scale.chk.<kernel>` streams (child module of m_scale_chk.rs) — C08: range of the
//! integer arithmetic in code whose checked models are `lean/EG/Model/Checked{Triangle,Scanline,
//! RRect,Sector,Font}.lean`. Same contract as the first group: ONE public-API call per op inside
//! `catch_unwind`, canonical one-line result, `panic` for any panic; the Lean side
//! (lean/EG/Driver/ScaleChk2.lean) computes the same line from the checked kernels. Oracle: an op
//! whose arguments are all at display scale never panics.
//!
//!   scale.chk.tri.bbox x1 y1 x2 y2 x3 y3         scale.chk.tri.contains x1 y1 x2 y2 x3 y3 px py
//!   scale.chk.tri.translate x1 y1 x2 y2 x3 y3 dx dy
//!   scale.chk.tri.points x1 y1 x2 y2 x3 y3 n     (points().take(n))
//!   scale.chk.rrect.confine x y w h <8 radii: tl tr br bl, w h each>
//!   scale.chk.rrect.contains x y w h <8 radii> px py      scale.chk.rrect.offset x y w h <8 radii> o
//!   scale.chk.rrect.points x y w h <8 radii> n   (points().take(n))
//!   scale.chk.sector.contains <sec> px py        scale.chk.sector.offset <sec> o
//!   scale.chk.sector.points <sec> n              scale.chk.arc.points <sec> n
//!   scale.chk.sector.styled <sec> bk bnx bny fill stroke width align n     (pixels().take(n))
//!   scale.chk.arc.styled <sec> fill stroke width align n
//!   scale.chk.circle.styled x y d <style> n      scale.chk.circle.draw x y d <style> n
//!   scale.chk.ellipse.styled x y w h <style> n   scale.chk.ellipse.draw x y w h <style> n
//!   scale.chk.rrect.styled x y w h <8 radii> <style> n      scale.chk.rrect.draw x y w h <8 radii> <style> n
//!   scale.chk.poly.draw x0 y0 x1 y1 x2 y2 w n
//!   scale.chk.drawsub via x y w h       a DIRECT `ImageDrawable::draw_sub_image` on a 5 x 3 1 bpp `ImageRaw` (via 0) or on its
//!     sub-image (1, 1) 3 x 2 (via 1): `calls=<number of target calls>` (0 = rejected, 1 = drawn)
//!   scale.chk.glyph imgW imgH cw ch sp bl ulOff ulH stOff stH mul colours ul st baseline x y <code points>
//!     `MonoTextStyle::draw_string` with a user-defined `MonoFont` over a blank imgW x imgH atlas (glyph index
//!     `(c - 32) * mul`); colours: bit 0 text colour, bit 1 background; ul / st: 0 none, 1 text colour, 2 custom;
//!     result: every target call (`di:<pixels>`, `fc:<rect>:<colours>`, `fs:<rect>:<colour>`) and the returned position
//!     `.styled` = `into_styled(style).pixels().take(n)` as `x,y,colour;...`; `.draw` = the first n `fill_solid` calls
//!     of `draw()` on a target that returns an error from call n + 1 on, as `x,y,w,h,colour;...`;
//!     <style> = fill stroke width align (shapes.rs)
//!     <sec> = x y d start_mdeg sweep_mdeg tag lx ly rx ry: the plane sector (operation tag, left and right normal)
//!     is what the real `PlaneSector::new` returns in THIS build (hook `verif_hooks::plane_sector`, read by the
//!     generator, re-read and printed as `ps=` by `execute`); `bk bnx bny` = bevel kind and normal of the styled
//!     sector (hook `verif_bevel`, read from a small twin with the same angles). Trigonometry is not part of
//!     these kernels (m_sector.rs).
use super::{b, biased, coord, gen_simple, guard, lds, ods, pds, rds, K, OFFS, XI, XU};
use crate::common::*;
use crate::shapes::{mdeg, parse_style};
use embedded_graphics::{
    image::{ImageDrawable, ImageDrawableExt, ImageRaw},
    mono_font::{DecorationDimensions, MonoFont, MonoTextStyleBuilder},
    pixelcolor::{BinaryColor, Rgb565},
    text::{renderer::TextRenderer, Baseline, DecorationColor},
    prelude::*,
    primitives::{Arc, Circle, ContainsPoint, CornerRadii, Ellipse, OffsetOutline, Polyline, PrimitiveStyle, Rectangle, RoundedRectangle, Sector, Styled, Triangle},
    verif_hooks,
};

/// vertex coordinates beyond the display scale that keep walks along the edges short (at most
/// 2 * 70000 steps) while every `i32` product of the triangle code overflows somewhere in the list
const TV: [i64; 20] = [-70000, -65536, -46341, -40000, -32768, -20725, -16385, -16384, -8193, -8192, 8192, 8193, 16384, 16385, 20725, 32767, 40000, 46341, 65536, 70000];

fn tri_vertices(rng: &mut Rng, far: bool) -> [i64; 6] {
    let mut v = [coord(rng), coord(rng), coord(rng), coord(rng), coord(rng), coord(rng)];
    if far {
        let forced = rng.below(6) as usize;
        for (j, a) in v.iter_mut().enumerate() {
            if j == forced || rng.chance(1, 2) {
                *a = *rng.pick(&TV);
            }
        }
    } else if rng.chance(1, 6) {
        // coincident / collinear vertices
        match rng.below(4) {
            0 => {
                v[2] = v[0];
                v[3] = v[1];
            }
            1 => {
                v[4] = v[2];
                v[5] = v[3];
            }
            2 => {
                v[1] = v[3];
                v[5] = v[3];
            }
            _ => {
                v[4] = (v[0] + v[2]) / 2;
                v[5] = (v[1] + v[3]) / 2;
            }
        }
    }
    v
}

fn join6(v: &[i64; 6]) -> String {
    format!("{} {} {} {} {} {}", v[0], v[1], v[2], v[3], v[4], v[5])
}

pub fn generate(tier: Tier, rng: &mut Rng, emit: &mut dyn FnMut(String)) {
    // (the thorough tier of C08 is dominated by scale.shape / scale.text: 10 of its 15 minutes)
    let mult: usize = if tier == Tier::Quick { 1 } else { 10 };
    let n = 200 * mult;
    use K::*;

    // ---- triangles ---------------------------------------------------------------------------
    gen_simple(
        "tri.bbox",
        &[C, C, C, C, C, C],
        &["0 0 0 0 0 0", "-1024 -1024 1024 -1024 0 1024", "-2147483648 0 2147483647 0 0 0", "-1 0 2147483647 0 0 0", "0 0 2147483647 0 0 0", "0 -2147483648 0 0 0 2147483647", "0 -2 0 0 0 2147483646", "0 -1 0 0 0 2147483646", "2147483647 2147483647 2147483647 2147483647 2147483647 2147483647", "-2147483648 -2147483648 -2147483648 -2147483648 -2147483648 -2147483648", "-1073741824 0 1073741823 0 0 5", "-1073741824 0 1073741824 0 0 5"],
        n / 2,
        rng,
        emit,
    );
    gen_simple(
        "tri.translate",
        &[C, C, C, C, C, C, C, C],
        &["0 0 10 0 0 10 5 -5", "2147483647 0 0 0 0 0 1 0", "0 0 2147483647 0 0 0 1 0", "0 0 0 0 0 2147483647 0 1", "0 0 0 0 -2147483648 0 -1 0", "2147483646 0 0 0 0 0 1 0", "1073741824 1073741824 0 0 0 0 1073741823 1073741823", "1073741824 1073741824 0 0 0 0 1073741824 0"],
        n / 2,
        rng,
        emit,
    );
    for f in [
        // display scale: corners, edges, degenerate triangles
        "-1024 -1024 1024 -1024 0 1024 0 0",
        "-1024 -1024 1024 -1024 0 1024 -1024 -1024",
        "-1024 -1024 1024 -1024 0 1024 1024 1024",
        "-1024 -1024 1024 -1024 0 1024 0 1024",
        "-1024 -1024 1024 -1024 -1024 1024 1024 1024",
        "-1024 -1024 -1024 1024 1024 -1024 1024 1024",
        "-1152 -1152 2176 -1152 -1152 2176 2176 2176",
        "2176 2176 -1152 2176 2176 -1152 -1152 -1152",
        "0 0 0 0 0 0 0 0",
        "5 5 5 5 5 5 5 5",
        "0 0 10 10 20 20 10 10",
        "0 0 10 0 0 10 3 3",
        "0 0 0 10 10 0 3 3",
        "0 0 10 0 0 10 10 10",
        "0 0 10 0 0 10 5 5",
        "0 0 10 0 0 10 6 5",
        "0 0 10 0 0 10 -1 0",
        "0 0 10 0 0 10 2147483647 2147483647",
        "0 0 10 0 0 10 -2147483648 -2147483648",
        // the range of the `_ok` theorem and beyond
        "-8192 -8192 8192 -8192 -8192 8192 8192 8192",
        "8192 8192 -8192 8192 8192 -8192 -8192 -8192",
        "-8192 -8192 -8192 8192 8192 -8192 8192 8192",
        "-16383 -16383 16383 -16383 -16383 16383 16383 16383",
        "-16384 -16384 16384 -16384 -16384 16384 16384 16384",
        "-16384 -16384 16384 -16384 -16384 16384 0 0",
        "-16384 -16384 16384 -16384 -16384 16384 -16384 -16384",
        "-20725 -20725 -20725 20725 20725 -20725 0 0",
        "-20724 -20724 -20724 20724 20724 -20724 0 0",
        "0 0 65536 0 0 65536 1 1",
        "0 0 46341 0 0 46341 1 1",
        "0 0 46340 0 0 46340 1 1",
        "0 0 46340 0 0 46340 46340 46340",
        "0 0 32768 0 0 32768 32768 32768",
        "0 0 32768 0 0 32768 100 100",
        // one witness per `i32` operation of `s`, `t`, `area_doubled`, `s + t` that can be the FIRST to overflow
        // (operation number in evaluation order; the differences of coordinates cannot: the bounding box goes first)
        "5 40000 -70000 -65536 65536 -1 -70000 40000", // op 1
        "70000 32768 46340 2 1024 46340 1024 21805", // op 2
        "-16384 46340 -8192 -8192 46340 46340 -16384 -4248", // op 3
        "1 70000 46341 -1 -1 -70000 46341 70000", // op 5
        "-8192 32768 -70000 -1 65535 -1 -64361 32768", // op 6
        "8192 -8192 2 -65536 -40000 1024 8192 -65536", // op 8
        "32767 46340 -20725 -65536 -1024 2 -20725 46340", // op 9
        "46341 -1024 23170 65535 0 -32768 46341 32219", // op 10
        "23170 -40000 65536 65536 0 -46341 65536 -46341", // op 11
        "46340 40000 46340 -16384 8192 -20725 8192 -20725", // op 12
        "46340 40000 16384 -23170 16384 5 46340 -23170", // op 14
        "-1024 -40000 32767 -70000 8192 23170 28610 -21876", // op 15
        "-1 -32768 46341 1024 1024 65536 -1 65536", // op 17
        "32768 46341 -8192 -46341 2 -1024 -8192 36514", // op 18
        "0 -20725 46341 40000 -65536 -16384 20948 -20725", // op 20
        "2 -40000 40000 -65536 -20725 -1 16681 -36214", // op 22
        "65535 23170 -70000 -20725 16384 2 -48793 -10169", // op 23
        "-70000 8192 -70000 -20725 -65536 23170 -70000 23170", // op 25
        "-23170 -8192 32767 -23170 20725 65535 -23170 -23170", // op 26
        "-8192 20725 32767 1 32768 -70000 -8192 20725", // op 27
        "0 -70000 16384 -23170 -8192 65535 -8192 -35083", // op 28
        "-40000 -32768 40000 -20725 1024 5 40000 -18507", // op 29
        "0 -2147483648 0 -2147483648 0 -2147483648 0 -2147483648", // op 19: `-p2.y` of `area_doubled`
        "0 0 32768 -32768 32768 32768 32768 0", // op 28: the last sum of `area_doubled` alone
        // thin triangles at `i32::MIN`: the edge walk of `any` stops at the hit, one pull before the
        // Bresenham step that would leave `i32` (laziness of `line::Points`); the last two pull it
        "-2147483647 0 -2147483645 0 -2147483648 1 -2147483647 1",
        "-2147483647 0 -2147483644 0 -2147483648 1 -2147483647 1",
        "-2147483647 0 -2147483643 0 -2147483648 1 -2147483646 1",
        "-2147483647 0 -2147483642 0 -2147483648 1 -2147483647 1",
        "-2147483645 0 -2147483640 0 -2147483648 1 -2147483648 1",
        "-2147483645 0 -2147483640 0 -2147483648 1 -2147483641 0",
        "-2147483645 0 -2147483640 0 -2147483648 1 -2147483646 1",
        "-2147483645 0 -2147483640 0 -2147483648 1 -2147483640 1",
        // extremes that end before any walk
        "-2147483648 0 2147483647 0 0 5 0 0",
        "0 0 2147483647 0 0 5 7 1",
        "0 0 2147483646 0 0 5 2147483647 1",
        "0 0 5 0 0 2147483647 1 1",
        "-2147483648 -2147483648 -2147483648 -2147483648 -2147483648 -2147483648 -2147483648 -2147483648",
        "2147483647 2147483647 2147483647 2147483647 2147483647 2147483647 2147483647 2147483647",
        "2147483647 0 2147483647 5 2147483640 3 2147483645 3",
        "0 -2147483648 5 -2147483648 3 -2147483640 3 -2147483645",
    ] {
        emit(format!("scale.chk.tri.contains {}", f));
    }
    for i in 0..n {
        let far = i % 2 == 1;
        let v = tri_vertices(rng, far);
        // probe: mostly inside the bounding box (elsewhere the answer is immediate)
        let (x0, x1) = (v[0].min(v[2]).min(v[4]), v[0].max(v[2]).max(v[4]));
        let (y0, y1) = (v[1].min(v[3]).min(v[5]), v[1].max(v[3]).max(v[5]));
        let (px, py) = match rng.below(8) {
            0 => (*rng.pick(&XI), *rng.pick(&XI)),
            1 => (coord(rng), coord(rng)),
            2 => (*rng.pick(&[x0, x1]), *rng.pick(&[y0, y1])),
            3 => {
                let k = (rng.below(3) * 2) as usize;
                (v[k], v[k + 1])
            }
            _ => (rng.range(x0, x1), rng.range(y0, y1)),
        };
        emit(format!("scale.chk.tri.contains {} {} {}", join6(&v), px, py));
    }
    for f in [
        "-1024 -1024 1024 -1024 0 1024 40",
        "-1024 -1024 1024 -1024 0 1024 5000",
        "0 1024 1024 -1024 -1024 -1024 5000",
        "-1152 -1152 2176 -1152 -1152 2176 300",
        "0 0 0 0 0 0 5",
        "5 5 5 5 5 5 0",
        "0 0 10 10 20 20 40",
        "0 0 10 0 20 0 40",
        "0 0 0 10 0 20 40",
        "0 0 10 0 0 10 200",
        "0 0 0 10 10 0 200",
        "-8192 -8192 8192 -8192 -8192 8192 40",
        "-16384 -16384 16384 -16384 -16384 16384 40",
        "-20725 -20725 -20725 20725 20725 -20725 40",
        "-20724 -20724 -20724 20724 20724 -20724 40",
        "0 0 65536 0 0 65536 5",
        "0 0 46341 0 0 46341 5",
        "0 0 46340 0 0 46340 5",
        "0 0 32768 0 0 32768 5",
        "0 0 32767 0 0 32767 5",
        "0 0 40000 30000 -30000 40000 5",
        // `area_doubled` (in `sorted_clockwise`): one witness per operation
        "0 -20725 46341 40000 -65536 -16384 5", // op 2
        "2 -40000 40000 -65536 -20725 -1 5", // op 4
        "65535 23170 -70000 -20725 16384 2 5", // op 5
        "-70000 8192 -70000 -20725 -65536 23170 5", // op 7
        "-23170 -8192 32767 -23170 20725 65535 5", // op 8
        "-8192 20725 32767 1 32768 -70000 5", // op 9
        "0 -70000 16384 -23170 -8192 65535 5", // op 10
        "-40000 -32768 40000 -20725 1024 5 5", // op 11
        "0 -2147483648 0 -2147483648 0 -2147483648 5",
        "0 0 32768 -32768 32768 32768 5",
        "0 0 32767 -32768 32768 32768 5",
        "-2147483648 0 2147483647 0 0 5 3",
        "0 0 2147483647 0 0 5 3",
        "0 0 5 0 0 2147483647 3",
        "2147483647 2147483647 2147483647 2147483647 2147483647 2147483647 3",
        "-2147483648 -2147483648 -2147483648 -2147483648 -2147483648 -2147483648 3",
    ] {
        emit(format!("scale.chk.tri.points {}", f));
    }
    let whole = if tier == Tier::Quick { 6 } else { 30 };
    for i in 0..n {
        let far = i % 2 == 1;
        let v = tri_vertices(rng, far);
        let k = if !far && i / 2 < whole { 5000 } else if far { *rng.pick(&[0i64, 1, 5, 40]) } else { *rng.pick(&[0i64, 1, 5, 40, 300]) };
        emit(format!("scale.chk.tri.points {} {}", join6(&v), k));
    }

    // ---- rounded rectangles ------------------------------------------------------------------
    // radii: any `u32` is display scale (`confine` brings them down to the sides)
    const RV: [i64; 14] = [0, 1, 2, 3, 64, 640, 1024, 1280, 65535, 65536, (1 << 31) - 1, 1 << 31, u32::MAX as i64 - 1, u32::MAX as i64];
    // sides beyond the display scale around the limits of the quadrant arithmetic
    const RS: [i64; 12] = [4096, 4097, 8192, 23170, 23171, 46340, 46341, 46342, 65534, 65535, 65536, 70000];
    let radii = |rng: &mut Rng, w: i64, h: i64| -> String {
        let mut v: Vec<i64> = Vec::new();
        let mode = rng.below(5);
        for i in 0..8 {
            let side = if i % 2 == 0 { w } else { h };
            v.push(match mode {
                0 => *rng.pick(&RV),
                1 => rng.range(0, (side / 2).max(1)),
                2 => *rng.pick(&[side / 2, (side + 1) / 2, side, side + 1, side / 3]),
                3 => biased(rng),
                _ => {
                    if rng.chance(1, 2) {
                        *rng.pick(&RV)
                    } else {
                        biased(rng)
                    }
                }
            });
        }
        if rng.chance(1, 3) {
            // equal corners
            for i in 2..8 {
                v[i] = v[i % 2];
            }
        }
        v.iter().map(|x| (*x).clamp(0, u32::MAX as i64).to_string()).collect::<Vec<_>>().join(" ")
    };
    let rr_fixed = [
        "0 0 0 0 0 0 0 0 0 0 0 0",
        "0 0 10 10 5 5 5 5 5 5 5 5",
        "0 0 10 10 50 50 50 50 50 50 50 50",
        "0 0 20 30 50 50 50 50 50 50 50 50",
        "20 20 81 81 20 20 20 20 200 200 20 20",
        "-1152 -1152 1280 1280 640 640 640 640 640 640 640 640",
        "2176 2176 1280 1279 4294967295 4294967295 4294967295 4294967295 4294967295 4294967295 4294967295 4294967295",
        "0 0 1280 1280 4294967295 1 1 4294967295 4294967295 4294967295 0 0",
        "0 0 1 1 4294967295 4294967295 4294967295 4294967295 4294967295 4294967295 4294967295 4294967295",
        "0 0 4294967295 4294967295 4294967295 4294967295 4294967295 4294967295 4294967295 4294967295 4294967295 4294967295",
        "0 0 4294967295 1 4294967295 4294967295 4294967295 4294967295 4294967295 4294967295 4294967295 4294967295",
        "0 0 0 4294967295 4294967295 4294967295 4294967295 4294967295 4294967295 4294967295 4294967295 4294967295",
        "0 0 46340 46340 23170 23170 23170 23170 23170 23170 23170 23170",
        "0 0 46342 46342 23171 23171 23171 23171 23171 23171 23171 23171",
        "0 0 65534 65534 32767 32767 32767 32767 32767 32767 32767 32767",
        "0 0 65536 65536 32768 32768 32768 32768 32768 32768 32768 32768",
        "0 0 65536 65536 32768 1 1 1 1 1 1 1",
        "0 0 65536 65536 1 1 1 1 1 1 1 32768",
        "2147483647 2147483647 10 10 3 3 3 3 3 3 3 3",
        "2147483637 2147483637 10 10 3 3 3 3 3 3 3 3",
        "2147483636 2147483636 10 10 3 3 3 3 3 3 3 3",
        "-2147483648 -2147483648 10 10 3 3 3 3 3 3 3 3",
        "1073741823 0 10 10 3 3 3 3 3 3 3 3",
        "1073741824 0 10 10 3 3 3 3 3 3 3 3",
        "-1073741824 0 10 10 3 3 3 3 3 3 3 3",
        "-1073741825 0 10 10 3 3 3 3 3 3 3 3",
        "0 0 2147483648 10 3 3 3 3 3 3 3 3",
        "0 0 2147483647 10 3 3 3 3 3 3 3 3",
        "0 0 10 2147483648 0 0 0 0 0 0 0 0",
    ];
    for f in rr_fixed {
        emit(format!("scale.chk.rrect.confine {}", f));
        for p in ["0 0", "5 5", "9 9", "1 0", "-1 0", "1279 1279", "46339 46339", "2147483646 2147483646"] {
            emit(format!("scale.chk.rrect.contains {} {}", f, p));
        }
        for o in [-128, -3, -1, 0, 1, 128, i32::MAX as i64, i32::MIN as i64, -2147483647, 1073741824] {
            emit(format!("scale.chk.rrect.offset {} {}", f, o));
        }
        emit(format!("scale.chk.rrect.points {} 40", f));
    }
    for i in 0..n {
        let far = i % 3 == 2;
        let (mut x, mut y, mut w, mut h) = (coord(rng), coord(rng), biased(rng), biased(rng));
        if far {
            match rng.below(4) {
                0 => x = *rng.pick(&XI),
                1 => y = *rng.pick(&XI),
                2 => w = if rng.chance(1, 2) { *rng.pick(&RS) } else { *rng.pick(&XU) },
                _ => h = if rng.chance(1, 2) { *rng.pick(&RS) } else { *rng.pick(&XU) },
            }
        }
        let rd = radii(rng, w, h);
        // probe: mostly inside the rectangle, half of them near a corner
        let inside = |rng: &mut Rng, lo: i64, len: i64| -> i64 {
            let v = match rng.below(4) {
                0 => lo + rng.range(0, 3),
                1 => lo + len - 1 - rng.range(0, 3),
                2 => lo + rng.range(0, len.max(1)),
                _ => lo + rng.range(-2, len + 2),
            };
            v.clamp(i32::MIN as i64, i32::MAX as i64)
        };
        let (px, py) = if rng.chance(1, 10) { (*rng.pick(&XI), *rng.pick(&XI)) } else { (inside(rng, x, w), inside(rng, y, h)) };
        emit(format!("scale.chk.rrect.contains {} {} {} {} {} {} {}", x, y, w, h, rd, px, py));
        if i % 2 == 0 {
            emit(format!("scale.chk.rrect.confine {} {} {} {} {}", x, y, w, h, rd));
            let o = if far && rng.chance(1, 2) { *rng.pick(&XI) } else { *rng.pick(&OFFS) };
            emit(format!("scale.chk.rrect.offset {} {} {} {} {} {}", x, y, w, h, rd, o));
        }
    }
    let whole = if tier == Tier::Quick { 12 } else { 60 };
    for i in 0..n / 2 {
        let far = i % 3 == 2;
        let (mut x, mut y, mut w, mut h) = (coord(rng), coord(rng), biased(rng), biased(rng));
        if far {
            // walks along corner rows are as long as the radius: keep the sides below 70000
            match rng.below(4) {
                0 => x = *rng.pick(&XI),
                1 => y = *rng.pick(&XI),
                2 => w = *rng.pick(&RS),
                _ => h = *rng.pick(&RS),
            }
        }
        let all = !far && i / 2 < whole;
        if all {
            // small enough to be drained: every row, all four corners
            w = rng.range(0, 70);
            h = rng.range(0, 70);
        }
        let rd = radii(rng, w, h);
        let k = if all { 5000 } else if far { *rng.pick(&[0i64, 1, 5, 40]) } else { *rng.pick(&[0i64, 1, 5, 40, 300]) };
        emit(format!("scale.chk.rrect.points {} {} {} {} {} {}", x, y, w, h, rd, k));
    }

    // ---- sectors and arcs --------------------------------------------------------------------
    // `<sec>` tokens for the given circle and angles, with the plane sector of this build
    // (the hooks run the real trigonometric code: should it panic for some angles - round-5 seed C08-r5-1, fixed_point
    // build - the generator survives with placeholder values; executing the op then meets the panic inside the harness's
    // catch_unwind and reports it with this op as the failing input)
    let sec = |x: i64, y: i64, d: i64, a: i32, w: i32| -> String {
        let (tag, l, r) = std::panic::catch_unwind(|| verif_hooks::plane_sector(mdeg(a), mdeg(w))).unwrap_or((0, [0, 0], [0, 0]));
        format!("{} {} {} {} {} {} {} {} {} {}", x, y, d, a, w, tag, l[0], l[1], r[0], r[1])
    };
    let bevel = |a: i32, w: i32| -> String {
        let (k, n, _) = std::panic::catch_unwind(|| {
            Styled::new(Sector::new(Point::zero(), 10, mdeg(a), mdeg(w)), PrimitiveStyle::with_stroke(Rgb565::from_num(1), 1)).pixels().verif_bevel()
        })
        .unwrap_or((0, [0, 0], Default::default()));
        format!("{} {} {}", k, n[0], n[1])
    };
    const ANG: [i32; 22] = [0, 1, 1000, 30000, 45000, 54000, 55000, 56000, 89000, 90000, 135000, 179000, 180000, 181000, 270000, 304000, 305000, 306000, 359000, 360000, 450000, 720000];
    let angle = |rng: &mut Rng| -> i32 {
        let v = if rng.chance(2, 3) { *rng.pick(&ANG) } else { rng.range(0, 720) as i32 * 1000 + rng.range(0, 999) as i32 };
        if rng.chance(1, 2) {
            -v
        } else {
            v
        }
    };
    // sweeps that contain the top of the circle (270 degrees): the first rows of the box have hits, so
    // `find` does not scan half a large box before the first point
    const TOP: [(i32, i32); 6] = [(0, 360000), (180000, 180000), (200000, 100000), (0, -180000), (270000, 45000), (300000, -60000)];
    // diameters beyond the display scale that end at the first item of the distance iterator
    const DX: [i64; 12] = [32768, 32769, 40000, 46341, 46342, 65535, 65536, 1 << 30, (1 << 31) - 1, 1 << 31, u32::MAX as i64 - 1, u32::MAX as i64];
    for (x, y, d, a, w, px, py) in [
        (0, 0, 10, 0, 90000, 7, 7),
        (0, 0, 10, 0, 90000, 2, 2),
        (0, 0, 10, 0, 0, 9, 5),
        (0, 0, 10, 0, 0, 0, 5),
        (-1152, -1152, 1280, 45000, -300000, 2176, 2176),
        (-1152, -1152, 1280, 45000, -300000, -500, -500),
        (2176, 2176, 1280, 0, 360000, 2800, 2800),
        (0, 0, 8192, 0, 180000, 8192, 8192),
        (0, 0, 8192, 0, 180000, 4096, 6000),
        (-4096, -4096, 8192, 10000, 20000, 3000, -2000),
        (0, 0, 32767, 0, 90000, 20000, 20000),
        (0, 0, 32768, 0, 90000, 20000, 20000),
        (0, 0, 32768, 0, 90000, 0, 0),
        (0, 0, 32769, 0, 90000, 0, 0),
        (0, 0, 46341, 0, 90000, 23170, 23170),
        (0, 0, 65535, 0, 360000, 32767, 32767),
        (0, 0, 65536, 0, 360000, 32768, 32768),
        (0, 0, 1, 0, 90000, 1073741823, 0),
        (0, 0, 1, 0, 90000, 1073741824, 0),
        (0, 0, 1, 0, 90000, -1073741824, 0),
        (0, 0, 1, 0, 90000, -1073741825, 0),
        (1073741823, 0, 1, 0, 90000, 0, 0),
        (1073741824, 0, 1, 0, 90000, 0, 0),
        (2147483647, 2147483647, 2, 0, 360000, 2147483647, 2147483647),
        (0, 0, 4294967295, 0, 90000, 0, 0),
        (0, 0, 2147483648, 0, 90000, 0, 0),
    ] {
        emit(format!("scale.chk.sector.contains {} {} {}", sec(x, y, d, a, w), px, py));
    }
    for i in 0..n {
        let (mut x, mut y, mut d) = (coord(rng), coord(rng), biased(rng));
        let (mut px, mut py) = (x + rng.range(-2, d + 2), y + rng.range(-2, d + 2));
        if i % 3 == 2 {
            match rng.below(5) {
                0 => x = *rng.pick(&XI),
                1 => y = *rng.pick(&XI),
                2 => d = if rng.chance(1, 2) { *rng.pick(&DX) } else { *rng.pick(&XU) },
                3 => px = *rng.pick(&XI),
                _ => py = *rng.pick(&XI),
            }
            if rng.chance(1, 2) {
                // a probe inside a large circle: the arithmetic behind the circle test is reached
                px = (x + d / 2 + rng.range(-3, 3)).clamp(i32::MIN as i64, i32::MAX as i64);
                py = (y + d / 2 + rng.range(-3, 3)).clamp(i32::MIN as i64, i32::MAX as i64);
            }
        }
        let (a, w) = (angle(rng), angle(rng));
        emit(format!("scale.chk.sector.contains {} {} {}", sec(x, y, d, a, w), px, py));
        if i % 4 == 0 {
            let o = if i % 3 == 2 && rng.chance(1, 2) { *rng.pick(&XI) } else { *rng.pick(&OFFS) };
            emit(format!("scale.chk.sector.offset {} {}", sec(x, y, d, a, w), o));
        }
    }
    for f in ["0 0 10 0 90000", "0 0 10 2147483647", "0 0 10 -2147483648", "0 0 10 -2147483647", "0 0 4294967295 1", "0 0 4294967294 1", "-2147483648 0 10 1", "2147483647 0 10 -1", "0 0 1 1073741824", "0 0 1 -1073741825"] {
        let v: Vec<i64> = f.split(' ').map(|x| x.parse().unwrap()).collect();
        if v.len() == 4 {
            emit(format!("scale.chk.sector.offset {} {}", sec(v[0], v[1], v[2], 0, 90000), v[3]));
        }
    }
    // points() / styled pixels(): (x y d), angles, count
    let circle3 = |rng: &mut Rng, i: usize| -> (i64, i64, i64, i32, i32, i64) {
        let (mut x, mut y) = (coord(rng), coord(rng));
        match i % 4 {
            // small circles, any angles, drained
            0 | 1 => (x, y, rng.range(0, 40), angle(rng), angle(rng), 5000),
            // display-scale circles, sweeps that contain the top, a prefix
            2 => {
                let (a, w) = *rng.pick(&TOP);
                (x, y, biased(rng), a, w, *rng.pick(&[0i64, 1, 5, 40, 300]))
            }
            // beyond the display scale
            _ => {
                let (a, w) = *rng.pick(&TOP);
                let mut d = biased(rng);
                match rng.below(3) {
                    0 => x = *rng.pick(&XI),
                    1 => y = *rng.pick(&XI),
                    _ => d = if rng.chance(2, 3) { *rng.pick(&DX) } else { *rng.pick(&[1281i64, 2048, 4096, 4097, 8192, 8193, 16384, 32767]) },
                }
                (x, y, d, a, w, *rng.pick(&[0i64, 1, 5, 40]))
            }
        }
    };
    for (x, y, d, a, w, k) in [(0, 0, 10, 0, 90000, 200), (0, 0, 10, 0, 0, 200), (0, 0, 0, 0, 90000, 5), (0, 0, 1, 0, 90000, 5), (-1152, -1152, 1280, 200000, 100000, 40), (2176, 2176, 1280, 0, 360000, 40), (0, 0, 8192, 0, 360000, 40), (0, 0, 32768, 0, 360000, 5), (0, 0, 32769, 0, 360000, 5), (0, 0, 65536, 0, 360000, 5), (0, 0, 4294967295, 0, 360000, 5), (1073741823, 0, 3, 0, 360000, 20), (1073741824, 0, 3, 0, 360000, 20), (0, -1073741824, 3, 0, 360000, 20), (0, -1073741825, 3, 0, 360000, 20), (2147483647, 0, 0, 0, 360000, 5)] {
        emit(format!("scale.chk.sector.points {} {}", sec(x, y, d, a, w), k));
        emit(format!("scale.chk.arc.points {} {}", sec(x, y, d, a, w), k));
    }
    for i in 0..n / 2 {
        let (x, y, d, a, w, k) = circle3(rng, i);
        emit(format!("scale.chk.sector.points {} {}", sec(x, y, d, a, w), k));
        let (x, y, d, a, w, k) = circle3(rng, i);
        emit(format!("scale.chk.arc.points {} {}", sec(x, y, d, a, w), k));
    }
    // styled: widths beyond the display scale end in `StyledPixelsIterator::new` (count 0 = construction only)
    const WX: [i64; 16] = [129, 1024, 1025, 16384, 32768, 65535, 65536, 524287, 524288, 524289, 1048575, 1048576, 1048577, (1 << 31) - 1, 1 << 31, u32::MAX as i64];
    let style = |rng: &mut Rng, width: i64| -> String {
        let (f, s) = *rng.pick(&[("7", "9"), ("-", "9"), ("7", "-"), ("7", "9"), ("-", "-")]);
        format!("{} {} {} {}", f, s, width, rng.below(3))
    };
    for (wd, al) in [(1048575i64, 0), (1048576, 0), (1048575, 2), (1048576, 2), (524287, 2), (524288, 2), (524289, 2), (2097151, 1), (2097152, 1), (1048576, 1), (4294967295, 0), (4294967295, 1), (4294967295, 2), (2147483647, 0), (2147483648, 2), (0, 1), (128, 0), (128, 2), (127, 1)] {
        for (a, w) in [(0, 90000), (0, 30000), (10000, 330000), (0, 360000), (45000, -200000)] {
            emit(format!("scale.chk.sector.styled {} {} 7 9 {} {} 0", sec(3, 4, 9, a, w), bevel(a, w), wd, al));
            emit(format!("scale.chk.arc.styled {} 7 9 {} {} 0", sec(3, 4, 9, a, w), wd, al));
        }
    }
    for i in 0..n / 2 {
        let (x, y, d, a, w, mut k) = circle3(rng, i);
        let mut width = if rng.chance(3, 4) { *rng.pick(&super::WIDTHS) } else { rng.range(0, 128) };
        if i % 4 == 1 {
            // small circle, stroke much wider than the shape
            width = *rng.pick(&[64i64, 127, 128]);
            k = 300;
        }
        if i % 8 == 7 {
            width = *rng.pick(&WX);
            k = 0;
        }
        let st = style(rng, width);
        emit(format!("scale.chk.sector.styled {} {} {} {}", sec(x, y, d, a, w), bevel(a, w), st, k));
        let (x, y, d, a, w, k2) = circle3(rng, i);
        emit(format!("scale.chk.arc.styled {} {} {}", sec(x, y, d, a, w), st, if width > 128 { 0 } else { k2 }));
    }

    // ---- scanline-based styled shapes --------------------------------------------------------
    let sty = |rng: &mut Rng, far: bool| -> String {
        let (f, s) = *rng.pick(&[("7", "9"), ("-", "9"), ("7", "-"), ("7", "9"), ("-", "-")]);
        let w = if far && rng.chance(1, 2) {
            *rng.pick(&[129i64, 1024, 32767, 32768, 65535, 65536, (1 << 31) - 1, 1 << 31, u32::MAX as i64])
        } else if rng.chance(3, 4) {
            *rng.pick(&super::WIDTHS)
        } else {
            rng.range(0, 128)
        };
        format!("{} {} {} {}", f, s, w, rng.below(3))
    };
    // sizes beyond the display scale that end within the first rows
    const SX: [i64; 12] = [8192, 16384, 32767, 32768, 46341, 65535, 65536, 1 << 30, (1 << 31) - 1, 1 << 31, u32::MAX as i64 - 1, u32::MAX as i64];
    for i in 0..n {
        let far = i % 4 == 3;
        let (mut x, mut y) = (coord(rng), coord(rng));
        let small = i % 4 < 2;
        let (mut w, mut h) = if small { (rng.range(0, 40), rng.range(0, 40)) } else { (biased(rng), biased(rng)) };
        if far {
            match rng.below(4) {
                0 => x = *rng.pick(&XI),
                1 => y = *rng.pick(&XI),
                2 => w = *rng.pick(&SX),
                _ => h = *rng.pick(&SX),
            }
        }
        let st = sty(rng, far);
        let k = if small { 5000 } else if far { *rng.pick(&[0i64, 1, 5, 40]) } else { *rng.pick(&[0i64, 1, 5, 40, 300]) };
        let kind = if rng.chance(1, 2) { "styled" } else { "draw" };
        match i % 3 {
            0 => emit(format!("scale.chk.circle.{} {} {} {} {} {}", kind, x, y, w, st, k)),
            1 => emit(format!("scale.chk.ellipse.{} {} {} {} {} {} {}", kind, x, y, w, h, st, k)),
            _ => {
                let rd = radii(rng, w, h);
                emit(format!("scale.chk.rrect.{} {} {} {} {} {} {} {}", kind, x, y, w, h, rd, st, k));
            }
        }
    }
    for f in [
        "0 0 9 7 9 3 1 5000",
        "0 0 9 7 9 128 2 5000",
        "0 0 9 - 9 1 0 5000",
        "0 0 0 7 9 5 1 50",
        "-1024 -1024 1024 7 9 128 2 40",
        "1024 1024 1024 7 9 128 1 40",
        "0 0 32768 7 - 0 1 3",
        "0 0 32767 7 - 0 1 3",
        "0 0 65536 7 9 1 1 3",
        "0 0 9 7 9 32768 2 3",
        "0 0 9 7 9 4294967295 0 3",
        "0 0 9 7 9 4294967295 1 3",
        "0 0 9 7 9 4294967295 2 3",
        "2147483647 0 3 7 9 1 1 9",
        "1073741823 0 3 7 9 1 1 9",
        "1073741820 0 3 7 9 1 1 9",
        "-1073741824 0 3 7 9 1 1 9",
        "-1073741825 0 3 7 9 1 1 9",
    ] {
        emit(format!("scale.chk.circle.styled {}", f));
        emit(format!("scale.chk.circle.draw {}", f));
        let v: Vec<&str> = f.split(' ').collect();
        emit(format!("scale.chk.ellipse.styled {} {} {} {} {}", v[0], v[1], v[2], v[2], v[3..].join(" ")));
        emit(format!("scale.chk.ellipse.draw {} {} {} 5 {}", v[0], v[1], v[2], v[3..].join(" ")));
        emit(format!("scale.chk.rrect.draw {} {} {} {} 3 3 3 3 3 3 3 3 {}", v[0], v[1], v[2], v[2], v[3..].join(" ")));
        emit(format!("scale.chk.rrect.styled {} {} {} 7 4294967295 1 0 0 5 5 2 9 {}", v[0], v[1], v[2], v[3..].join(" ")));
    }

    // ---- a thick polyline of three vertices: draw row by row -----------------------------------
    const PC: [i64; 8] = [-40000, -32768, -30000, -16384, 16384, 30000, 32767, 40000];
    for f in ["0 0 10 0 10 10 3 200", "0 0 10 10 0 1 4 200", "0 0 10 0 20 0 2 200", "0 0 0 0 0 0 5 50", "0 0 10 0 0 0 5 50", "-1024 -1024 1024 -1024 0 1024 2 40", "-1024 -1024 1024 1024 -1024 1024 128 40", "-1024 0 1024 1 -1024 2 128 40", "-257 65 0 -256 255 65 3 40", "0 0 5 5 10 0 128 300", "-40000 0 40000 1 0 9 3 5", "0 0 32767 32767 5 5 5 5", "0 0 32768 32768 5 5 5 5"] {
        emit(format!("scale.chk.poly.draw {}", f));
    }
    for i in 0..n / 2 {
        let small = i % 2 == 0;
        let c = |rng: &mut Rng| if small { rng.range(-30, 30) } else { coord(rng) };
        let mut v = [c(rng), c(rng), c(rng), c(rng), c(rng), c(rng)];
        if i % 8 == 7 {
            let forced = rng.below(6) as usize;
            for (j, a) in v.iter_mut().enumerate() {
                if j == forced || rng.chance(1, 2) {
                    *a = *rng.pick(&PC);
                }
            }
        } else if rng.chance(1, 8) {
            v[4] = v[0];
            v[5] = v[1];
        }
        let w = if small { rng.range(2, 12) } else if rng.chance(1, 2) { *rng.pick(&[2i64, 3, 5, 64, 127, 128]) } else { rng.range(2, 128) };
        let k = if small { 5000 } else { *rng.pick(&[0i64, 1, 5, 40]) };
        emit(format!("scale.chk.poly.draw {} {} {}", join6(&v), w, k));
    }

    // ---- glyph rendering ---------------------------------------------------------------------
    // metrics of a few built-in fonts (atlas 16 glyphs per row) and degenerate / extreme user fonts
    const FONTS: [&str; 8] = [
        "64 24 4 6 0 4 6 1 3 1 1",     // FONT_4X6 like
        "64 40 8 8 0 6 9 1 4 1 1",
        "60 20 6 10 1 7 11 1 5 1 1",
        "64 64 10 20 2 15 21 2 10 1 1",
        "0 0 0 0 0 0 0 0 0 0 1",      // the null font
        "8 8 9 8 0 0 0 0 0 0 1",      // atlas narrower than a character
        "64 64 1 1 0 0 2 1 0 1 3",
        "16 16 16 16 1024 1024 1024 1 1024 1 0",
    ];
    let text_of = |rng: &mut Rng, n: i64| -> String {
        if n == 0 {
            return "-".to_string();
        }
        (0..n).map(|_| (if rng.chance(1, 8) { *rng.pick(&[0i64, 10, 31, 127, 160, 255, 8364, 0x10FFFF]) } else { rng.range(32, 126) }).to_string()).collect::<Vec<_>>().join(",")
    };
    for f in FONTS {
        for (tail, txt) in [("1 0 0 0 0 0", "65,66,67"), ("3 1 1 3 -1024 1024", "72,105"), ("2 2 0 1 1024 -1024", "32,32"), ("0 1 2 2 5 5", "65,66"), ("0 0 0 0 5 5", "65"), ("3 1 1 0 0 0", "-"), ("1 0 0 0 2147483647 0", "65"), ("1 0 0 0 2147483640 0", "65,66"), ("1 1 0 0 0 2147483647", "65"), ("1 0 0 1 0 -2147483648", "65"), ("0 1 0 0 2147483000 0", "65,66,67"), ("3 0 0 0 -2147483648 -2147483648", "65")] {
            emit(format!("scale.chk.glyph {} {} {}", f, tail, txt));
        }
    }
    for f in [
        // `char_y = row * height`: one glyph per row, huge character height
        "8 8 8 2147483648 0 0 0 0 0 0 1 1 0 0 0 0 0 34",
        "8 8 8 2147483647 0 0 0 0 0 0 1 1 0 0 0 0 0 34",
        "8 8 8 1431655766 0 0 0 0 0 0 1 1 0 0 0 0 0 35",
        "8 8 8 1431655765 0 0 0 0 0 0 1 1 0 0 0 0 0 35",
        "8 8 8 65536 0 0 0 0 0 0 65536 3 0 0 0 0 0 33",
        "8 8 8 65535 0 0 0 0 0 0 65536 3 0 0 0 0 0 33",
        // glyph index beyond u32 (truncating cast): (c - 32) * mul
        "64 8 8 8 0 0 0 0 0 0 4294967296 1 0 0 0 0 0 33,34",
        "64 8 8 8 0 0 0 0 0 0 4294967295 1 0 0 0 0 0 33,34",
        // spacing as i32 wraps; transparent arm: (width + spacing) * count in u32
        "8 8 8 8 4294967295 0 0 0 0 0 1 1 0 0 0 100 0 65,66,67",
        "8 8 8 8 2147483648 0 0 0 0 0 1 3 0 0 0 0 0 65,66",
        "8 8 8 8 4294967288 0 0 0 0 0 1 0 1 0 0 0 0 65,66",
        "8 8 8 8 4294967287 0 0 0 0 0 1 0 1 0 0 0 0 65,66",
        "8 8 8 8 2147483640 0 0 0 0 0 1 0 1 0 0 0 0 65,66",
        "8 8 8 8 4294967288 0 0 0 0 0 1 0 1 0 0 0 0 -",
        "8 8 8 8 4294967287 0 0 0 0 0 1 0 1 0 0 0 0 -",
        // `(next.x - position.x) as u32`: two advances of i32::MAX from i32::MIN
        "8 8 2147483647 8 0 0 0 0 0 0 1 1 0 0 0 -2147483648 0 65,66",
        "8 8 2147483647 8 0 0 0 0 0 0 1 1 1 0 0 -2147483648 0 65",
        "8 8 2147483647 8 1 0 0 0 0 0 1 1 1 0 0 -2147483648 0 65,66",
        "8 8 8 8 2147483639 0 0 0 0 0 1 0 1 0 0 0 0 65",
        "8 8 8 8 2147483639 0 0 0 0 0 1 0 1 0 0 1 0 65",
        // decoration offsets: `Point + Size` asserts the cast, then adds
        "8 8 8 8 0 0 2147483648 1 0 1 1 1 1 0 0 0 0 65",
        "8 8 8 8 0 0 2147483647 1 0 1 1 1 1 0 0 0 0 65",
        "8 8 8 8 0 0 2147483647 1 0 1 1 1 1 0 0 0 1 65",
        "8 8 8 8 0 0 0 1 2147483648 1 1 1 0 1 0 0 0 65",
        "8 8 8 8 0 0 0 1 4294967295 1 1 1 0 2 0 0 0 65",
        // baseline offsets saturate
        "8 8 8 4294967295 0 4294967295 0 0 0 0 1 1 0 0 1 0 0 65",
        "8 8 8 4294967295 0 4294967295 0 0 0 0 1 1 0 0 3 0 -1 65",
        "8 8 8 4294967295 0 4294967295 0 0 0 0 1 1 0 0 3 0 -2 65",
    ] {
        emit(format!("scale.chk.glyph {}", f));
    }
    for i in 0..n {
        let f = *rng.pick(&FONTS);
        let far = i % 4 == 3;
        let (mut x, mut y) = (coord(rng), coord(rng));
        if far {
            if rng.chance(1, 2) {
                x = *rng.pick(&XI);
            } else {
                y = *rng.pick(&XI);
            }
        }
        let nchars = if i % 16 == 0 { 256 } else { *rng.pick(&[0i64, 1, 2, 3, 7, 20]) };
        let tail = format!("{} {} {} {} {} {}", rng.below(4), rng.below(3), rng.below(3), rng.below(4), x, y);
        emit(format!("scale.chk.glyph {} {} {}", f, tail, text_of(rng, nchars)));
    }

    // ---- draw_sub_image called directly --------------------------------------------------------
    let dxs: [i64; 19] = [i32::MIN as i64, -(1 << 31) + 1, -65536, -6, -5, -4, -1, 0, 1, 2, 4, 5, 6, 65536, (1 << 31) - 6, (1 << 31) - 3, (1 << 31) - 2, (1 << 31) - 1, 1 << 30];
    let dws: [i64; 14] = [0, 1, 2, 3, 4, 5, 6, 65536, (1 << 31) - 1, 1 << 31, (1 << 31) + 1, u32::MAX as i64 - 5, u32::MAX as i64 - 1, u32::MAX as i64];
    let mut k = 0u64;
    for via in 0..2 {
        for &x in &dxs {
            for &y in &[i32::MIN as i64, -65536, -4, -3, -1, 0, 1, 2, 3, 4, 65536, (1 << 31) - 2, (1 << 31) - 1] {
                for &w in &dws {
                    for &h in &[0i64, 1, 2, 3, 4, 1 << 31, u32::MAX as i64 - 1, u32::MAX as i64] {
                        let small = x.abs() <= 6 && y.abs() <= 4 && w <= 6 && h <= 4;
                        k += 1;
                        if small && (tier != Tier::Quick || k % 3 == 0) || !small && k % (if tier == Tier::Quick { 25 } else { 3 }) == 0 {
                            emit(format!("scale.chk.drawsub {} {} {} {} {}", via, x, y, w, h));
                        }
                    }
                }
            }
        }
    }
}

fn tri(t: &mut Toks) -> Triangle {
    Triangle::new(t.point(), t.point(), t.point())
}
fn rrect(t: &mut Toks) -> RoundedRectangle {
    let r = t.rect();
    let (tl, tr, br, bl) = (t.size(), t.size(), t.size(), t.size());
    RoundedRectangle::new(r, CornerRadii { top_left: tl, top_right: tr, bottom_right: br, bottom_left: bl })
}
fn fmt_radii(c: &CornerRadii) -> String {
    format!("{},{};{},{};{},{};{},{}", c.top_left.width, c.top_left.height, c.top_right.width, c.top_right.height, c.bottom_right.width, c.bottom_right.height, c.bottom_left.width, c.bottom_left.height)
}
/// `<sec>`: the shape arguments and `ps=` as the hook reports the plane sector now
fn sec_args(t: &mut Toks) -> (Point, u32, i32, i32, String) {
    let tl = t.point();
    let d = t.u32();
    let (a, w) = (t.i32(), t.i32());
    for _ in 0..5 {
        t.str();
    }
    let (tag, l, r) = verif_hooks::plane_sector(mdeg(a), mdeg(w));
    (tl, d, a, w, format!("ps={},{},{},{},{}", tag, l[0], l[1], r[0], r[1]))
}
fn fmt_pixels<I: Iterator<Item = Pixel<Rgb565>>>(it: I) -> String {
    let v: Vec<String> = it.map(|Pixel(p, c)| format!("{},{},{}", p.x, p.y, c.num())).collect();
    if v.is_empty() {
        "-".to_string()
    } else {
        v.join(";")
    }
}
/// Target whose native `fill_solid` records (rectangle, colour) and fails from call `limit + 1` on; `draw_iter`
/// counts as one call without a rectangle (not used by the scanline-based shapes).
struct Calls {
    v: Vec<(Rectangle, Rgb565)>,
    limit: usize,
}
#[derive(Debug)]
struct Full;
impl Dimensions for Calls {
    fn bounding_box(&self) -> Rectangle {
        Rectangle::new(Point::new(-4096, -4096), Size::new(8192, 8192))
    }
}
impl DrawTarget for Calls {
    type Color = Rgb565;
    type Error = Full;
    fn draw_iter<I: IntoIterator<Item = Pixel<Rgb565>>>(&mut self, _pixels: I) -> Result<(), Full> {
        panic!("scale.chk: draw_iter on the call-recording target");
    }
    fn fill_solid(&mut self, area: &Rectangle, color: Rgb565) -> Result<(), Full> {
        if self.v.len() >= self.limit {
            return Err(Full);
        }
        self.v.push((*area, color));
        Ok(())
    }
}
fn fmt_calls(c: &Calls) -> String {
    if c.v.is_empty() {
        return "-".to_string();
    }
    c.v.iter().map(|(r, col)| format!("{},{},{},{},{}", r.top_left.x, r.top_left.y, r.size.width, r.size.height, col.num())).collect::<Vec<_>>().join(";")
}
fn draw_calls<D: Drawable<Color = Rgb565>>(d: &D, n: usize) -> String {
    let mut t = Calls { v: Vec::new(), limit: n };
    let _ = d.draw(&mut t);
    fmt_calls(&t)
}
/// Target that logs every call: `di:<pixel count>`, `fc:<rect>:<colour count>`, `fs:<rect>:<colour>`.
struct Log(Vec<String>);
impl Dimensions for Log {
    fn bounding_box(&self) -> Rectangle {
        Rectangle::new(Point::new(-4096, -4096), Size::new(8192, 8192))
    }
}
impl DrawTarget for Log {
    type Color = Rgb565;
    type Error = core::convert::Infallible;
    fn draw_iter<I: IntoIterator<Item = Pixel<Rgb565>>>(&mut self, pixels: I) -> Result<(), Self::Error> {
        self.0.push(format!("di:{}", pixels.into_iter().count()));
        Ok(())
    }
    fn fill_contiguous<I: IntoIterator<Item = Rgb565>>(&mut self, area: &Rectangle, colors: I) -> Result<(), Self::Error> {
        self.0.push(format!("fc:{}:{}", fmt_rect(area), colors.into_iter().count()));
        Ok(())
    }
    fn fill_solid(&mut self, area: &Rectangle, color: Rgb565) -> Result<(), Self::Error> {
        self.0.push(format!("fs:{}:{}", fmt_rect(area), color.num()));
        Ok(())
    }
}
/// counts the calls made on a `BinaryColor` target (colour iterators are drained)
struct LogB(u32);
impl Dimensions for LogB {
    fn bounding_box(&self) -> Rectangle {
        Rectangle::new(Point::new(-4096, -4096), Size::new(8192, 8192))
    }
}
impl DrawTarget for LogB {
    type Color = BinaryColor;
    type Error = core::convert::Infallible;
    fn draw_iter<I: IntoIterator<Item = Pixel<BinaryColor>>>(&mut self, pixels: I) -> Result<(), Self::Error> {
        self.0 += 1;
        let _ = pixels.into_iter().count();
        Ok(())
    }
    fn fill_contiguous<I: IntoIterator<Item = BinaryColor>>(&mut self, _area: &Rectangle, colors: I) -> Result<(), Self::Error> {
        self.0 += 1;
        let _ = colors.into_iter().count();
        Ok(())
    }
}
/// glyph index `(c - 32) * mul` in `usize` arithmetic that cannot itself panic
struct MulMapping(u64);
impl embedded_graphics::mono_font::mapping::GlyphMapping for MulMapping {
    fn index(&self, c: char) -> usize {
        ((c as u64).saturating_sub(32) as u128 * self.0 as u128).min(usize::MAX as u128) as usize
    }
}
fn tri_ds(t: &Triangle) -> bool {
    t.vertices.iter().all(|p| lds(*p))
}

/// `None` = not a kernel of this group
pub fn execute(kernel: &str, t: &mut Toks) -> Option<(String, bool)> {
    Some(match kernel {
        "tri.bbox" => {
            let tr = tri(t);
            (guard(|| fmt_rect(&tr.bounding_box())), tri_ds(&tr))
        }
        "tri.contains" => {
            let tr = tri(t);
            let p = t.point();
            // the property quantifies over every probed point
            (guard(|| b(tr.contains(p))), tri_ds(&tr))
        }
        "tri.translate" => {
            let tr = tri(t);
            let d = t.point();
            (
                guard(|| {
                    let r = tr.translate(d);
                    format!("{},{};{},{};{},{}", r.vertices[0].x, r.vertices[0].y, r.vertices[1].x, r.vertices[1].y, r.vertices[2].x, r.vertices[2].y)
                }),
                tri_ds(&tr) && pds(d),
            )
        }
        "tri.points" => {
            let tr = tri(t);
            let n = t.usize();
            (guard(|| fmt_pts(tr.points().take(n).collect::<Vec<Point>>())), tri_ds(&tr))
        }
        "rrect.confine" => {
            let rr = rrect(t);
            // total for every `u32` input
            (guard(|| fmt_radii(&rr.confine_radii().corners)), true)
        }
        "rrect.contains" => {
            let rr = rrect(t);
            let p = t.point();
            (guard(|| b(rr.contains(p))), rds(&rr.rectangle) && pds(p))
        }
        "rrect.offset" => {
            let rr = rrect(t);
            let o = t.i32();
            (
                guard(|| {
                    let r = rr.offset(o);
                    format!("{} {}", fmt_rect(&r.rectangle), fmt_radii(&r.corners))
                }),
                rds(&rr.rectangle) && ods(o),
            )
        }
        "rrect.points" => {
            let rr = rrect(t);
            let n = t.usize();
            (guard(|| fmt_pts(rr.points().take(n).collect::<Vec<Point>>())), rds(&rr.rectangle))
        }
        "sector.contains" => {
            let (tl, d, a, w, ps) = sec_args(t);
            let p = t.point();
            (guard(|| format!("{} r={}", ps, b(Sector::new(tl, d, mdeg(a), mdeg(w)).contains(p)))), lds(tl) && d <= 1024 && pds(p))
        }
        "sector.offset" => {
            let (tl, d, a, w, _) = sec_args(t);
            let o = t.i32();
            (
                guard(|| {
                    let s = Sector::new(tl, d, mdeg(a), mdeg(w)).offset(o);
                    format!("{},{},{}", s.top_left.x, s.top_left.y, s.diameter)
                }),
                lds(tl) && d <= 1024 && ods(o),
            )
        }
        "sector.points" => {
            let (tl, d, a, w, ps) = sec_args(t);
            let n = t.usize();
            (guard(|| format!("{} pts={}", ps, fmt_pts(Sector::new(tl, d, mdeg(a), mdeg(w)).points().take(n).collect::<Vec<Point>>()))), lds(tl) && d <= 1024)
        }
        "arc.points" => {
            let (tl, d, a, w, ps) = sec_args(t);
            let n = t.usize();
            (guard(|| format!("{} pts={}", ps, fmt_pts(Arc::new(tl, d, mdeg(a), mdeg(w)).points().take(n).collect::<Vec<Point>>()))), lds(tl) && d <= 1024)
        }
        "sector.styled" => {
            let (tl, d, a, w, ps) = sec_args(t);
            let bv = format!("bv={},{},{}", t.str(), t.str(), t.str());
            let style = parse_style(t);
            let n = t.usize();
            (
                guard(|| format!("{} {} px={}", ps, bv, fmt_pixels(Styled::new(Sector::new(tl, d, mdeg(a), mdeg(w)), style).pixels().take(n)))),
                lds(tl) && d <= 1024 && style.stroke_width <= 128,
            )
        }
        "arc.styled" => {
            let (tl, d, a, w, ps) = sec_args(t);
            let style = parse_style(t);
            let n = t.usize();
            (
                guard(|| format!("{} px={}", ps, fmt_pixels(Styled::new(Arc::new(tl, d, mdeg(a), mdeg(w)), style).pixels().take(n)))),
                lds(tl) && d <= 1024 && style.stroke_width <= 128,
            )
        }
        "circle.styled" | "circle.draw" => {
            let (tl, d) = (t.point(), t.u32());
            let style = parse_style(t);
            let n = t.usize();
            let s = Styled::new(Circle::new(tl, d), style);
            let ds = lds(tl) && d <= 1024 && style.stroke_width <= 128;
            if kernel == "circle.styled" {
                (guard(|| fmt_pixels(s.pixels().take(n))), ds)
            } else {
                (guard(|| draw_calls(&s, n)), ds)
            }
        }
        "ellipse.styled" | "ellipse.draw" => {
            let (tl, sz) = (t.point(), t.size());
            let style = parse_style(t);
            let n = t.usize();
            let s = Styled::new(Ellipse::new(tl, sz), style);
            let ds = lds(tl) && sz.width <= 1024 && sz.height <= 1024 && style.stroke_width <= 128;
            if kernel == "ellipse.styled" {
                (guard(|| fmt_pixels(s.pixels().take(n))), ds)
            } else {
                (guard(|| draw_calls(&s, n)), ds)
            }
        }
        "rrect.styled" | "rrect.draw" => {
            let rr = rrect(t);
            let style = parse_style(t);
            let n = t.usize();
            let s = Styled::new(rr, style);
            let ds = lds(rr.rectangle.top_left) && rr.rectangle.size.width <= 1024 && rr.rectangle.size.height <= 1024 && style.stroke_width <= 128;
            if kernel == "rrect.styled" {
                (guard(|| fmt_pixels(s.pixels().take(n))), ds)
            } else {
                (guard(|| draw_calls(&s, n)), ds)
            }
        }
        "poly.draw" => {
            let pts = [t.point(), t.point(), t.point()];
            let w = t.u32();
            let n = t.usize();
            assert!(w >= 2, "scale.chk.poly.draw: stroke width below 2");
            let ds = pts.iter().all(|p| lds(*p)) && w <= 128;
            (guard(|| draw_calls(&Polyline::new(&pts).into_styled(PrimitiveStyle::with_stroke(Rgb565::from_num(9), w)), n)), ds)
        }
        "drawsub" => {
            let via = t.u32();
            let area = Rectangle::new(Point::new(t.i64() as i32, t.i64() as i32), Size::new(t.i64() as u32, t.i64() as u32));
            let data = [0x5Au8; 3];
            let ds = pds(area.top_left) && area.size.width <= 1280 && area.size.height <= 1280;
            (
                guard(|| {
                    let raw = ImageRaw::<BinaryColor>::new(&data, Size::new(5, 3)).unwrap();
                    let mut log = LogB(0);
                    if via == 0 {
                        raw.draw_sub_image(&mut log, &area).unwrap();
                    } else {
                        raw.sub_image(&Rectangle::new(Point::new(1, 1), Size::new(3, 2))).draw_sub_image(&mut log, &area).unwrap();
                    }
                    format!("calls={}", log.0)
                }),
                ds,
            )
        }
        "glyph" => {
            let img = Size::new(t.u32(), t.u32());
            let cs = Size::new(t.u32(), t.u32());
            let (sp, bl) = (t.u32(), t.u32());
            let ul = DecorationDimensions::new(t.u32(), t.u32());
            let st = DecorationDimensions::new(t.u32(), t.u32());
            let mul = t.u64();
            let colours = t.u32();
            let (ulc, stc) = (t.u32(), t.u32());
            let baseline = [Baseline::Top, Baseline::Bottom, Baseline::Middle, Baseline::Alphabetic][t.usize()];
            let pos = t.point();
            let text: String = t.u32_list().into_iter().map(|c| char::from_u32(c).expect("scale.chk.glyph: not a scalar value")).collect();
            let len = ((img.width as usize + 7) / 8) * img.height as usize;
            assert!(len <= super::ZEROS.len(), "scale.chk.glyph: atlas too large");
            let mapping = MulMapping(mul);
            let font = MonoFont {
                image: ImageRaw::<BinaryColor>::new(&super::ZEROS[..len], img).expect("scale.chk.glyph: atlas"),
                character_size: cs,
                character_spacing: sp,
                baseline: bl,
                strikethrough: st,
                underline: ul,
                glyph_mapping: &mapping,
            };
            let deco = |k: u32| match k {
                0 => DecorationColor::None,
                1 => DecorationColor::TextColor,
                _ => DecorationColor::Custom(Rgb565::from_num(5)),
            };
            let mut b = MonoTextStyleBuilder::new().font(&font);
            if colours & 1 != 0 {
                b = b.text_color(Rgb565::from_num(1));
            }
            if colours & 2 != 0 {
                b = b.background_color(Rgb565::from_num(2));
            }
            let mut style = b.build();
            style.underline_color = deco(ulc);
            style.strikethrough_color = deco(stc);
            let ds = cs.width <= 1024 && cs.height <= 1024 && sp <= 1024 && bl <= 1024 && ul.offset <= 1024 && st.offset <= 1024 && mul <= 4 && lds(pos) && text.chars().count() <= 256;
            (
                guard(|| {
                    let mut log = Log(Vec::new());
                    let next = style.draw_string(&text, pos, baseline, &mut log).unwrap();
                    format!("calls={} next={},{}", if log.0.is_empty() { "-".to_string() } else { log.0.join("|") }, next.x, next.y)
                }),
                ds,
            )
        }
        _ => return None,
    })
}
