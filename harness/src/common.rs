//! Shared harness infrastructure: PRNG, run context, canonical formatting, recording targets.
#![allow(dead_code)]

use embedded_graphics::{
    pixelcolor::{raw::RawData, *},
    prelude::*,
    primitives::Rectangle,
    Pixel,
};
use std::collections::{BTreeMap, HashSet};
use std::fmt::Write as _;

// ---------------------------------------------------------------------------------------------
// Counting global allocator (C08): allocations are counted only while `alloc_arm(true)` is set on
// the current thread, i.e. around calls into the library with pre-built arguments and a
// non-allocating target.
// ---------------------------------------------------------------------------------------------
pub struct CountingAlloc;
thread_local! {
    static ALLOC_ARMED: std::cell::Cell<bool> = const { std::cell::Cell::new(false) };
    static ALLOC_COUNT: std::cell::Cell<u64> = const { std::cell::Cell::new(0) };
    pub static PANIC_LOC: std::cell::RefCell<String> = const { std::cell::RefCell::new(String::new()) };
    /// pixels offered to an "unbounded" recording target (`Rec::unbounded()`, +-2^20) that fell outside it and were
    /// therefore NOT recorded: (count, first such point). Read and reset by main.rs after every op (`far_pixels_take`).
    static FAR_PIXELS: std::cell::Cell<(u64, i32, i32)> = const { std::cell::Cell::new((0, 0, 0)) };
}
fn far_note(n: u64, p: Point) {
    if n > 0 {
        FAR_PIXELS.with(|f| {
            let (k, x, y) = f.get();
            f.set(if k == 0 { (n, p.x, p.y) } else { (k + n, x, y) });
        });
    }
}
/// (number of pixels an unbounded recording target had to drop since the last call, the first of them); resets.
pub fn far_pixels_take() -> (u64, i32, i32) {
    FAR_PIXELS.with(|f| f.replace((0, 0, 0)))
}
/// The box of the "unbounded" recording targets.
pub const UNBOUNDED_HALF: i32 = 1 << 20;
/// An op is of display scale when every number in its text is at most 2^18 in magnitude (so that sums of a position,
/// an offset and a size stay well inside the +-2^20 recording range): a pixel outside that range is then an alarm
/// (class `pixel-outside-the-recording-range`), whatever property is being checked.
pub fn op_is_display_scale(op: &str) -> bool {
    let mut cur: u64 = 0;
    let mut digits = 0;
    for b in op.bytes().chain(std::iter::once(b' ')) {
        if b.is_ascii_digit() {
            cur = cur.saturating_mul(10).saturating_add((b - b'0') as u64);
            digits += 1;
        } else {
            if digits > 0 && cur > (1 << 18) {
                return false;
            }
            cur = 0;
            digits = 0;
        }
    }
    true
}
unsafe impl std::alloc::GlobalAlloc for CountingAlloc {
    unsafe fn alloc(&self, l: std::alloc::Layout) -> *mut u8 {
        let _ = ALLOC_ARMED.try_with(|a| {
            if a.get() {
                let _ = ALLOC_COUNT.try_with(|c| c.set(c.get() + 1));
            }
        });
        std::alloc::System.alloc(l)
    }
    unsafe fn dealloc(&self, p: *mut u8, l: std::alloc::Layout) {
        std::alloc::System.dealloc(p, l)
    }
    unsafe fn realloc(&self, p: *mut u8, l: std::alloc::Layout, n: usize) -> *mut u8 {
        let _ = ALLOC_ARMED.try_with(|a| {
            if a.get() {
                let _ = ALLOC_COUNT.try_with(|c| c.set(c.get() + 1));
            }
        });
        std::alloc::System.realloc(p, l, n)
    }
}
/// Arm / disarm allocation counting on this thread; returns the count so far.
pub fn alloc_arm(on: bool) -> u64 {
    ALLOC_ARMED.with(|a| a.set(on));
    ALLOC_COUNT.with(|c| c.get())
}
pub fn alloc_reset() {
    ALLOC_ARMED.with(|a| a.set(false));
    ALLOC_COUNT.with(|c| c.set(0));
}

// ---------------------------------------------------------------------------------------------
// PRNG: every random choice of a run derives from one splitmix64 state seeded with VERIF_SEED.
// ---------------------------------------------------------------------------------------------
#[derive(Clone)]
pub struct Rng(pub u64);
impl Rng {
    pub fn new(seed: u64) -> Self {
        Rng(seed ^ 0x9E37_79B9_7F4A_7C15)
    }
    pub fn next(&mut self) -> u64 {
        self.0 = self.0.wrapping_add(0x9E37_79B9_7F4A_7C15);
        let mut z = self.0;
        z = (z ^ (z >> 30)).wrapping_mul(0xBF58_476D_1CE4_E5B9);
        z = (z ^ (z >> 27)).wrapping_mul(0x94D0_49BB_1331_11EB);
        z ^ (z >> 31)
    }
    /// uniform in 0..n (n > 0)
    pub fn below(&mut self, n: u64) -> u64 {
        self.next() % n
    }
    /// uniform in lo..=hi
    pub fn range(&mut self, lo: i64, hi: i64) -> i64 {
        lo + (self.next() % ((hi - lo + 1) as u64)) as i64
    }
    pub fn pick<'a, T>(&mut self, xs: &'a [T]) -> &'a T {
        &xs[self.below(xs.len() as u64) as usize]
    }
    pub fn chance(&mut self, num: u64, den: u64) -> bool {
        self.below(den) < num
    }
}

#[derive(Clone, Copy, PartialEq, Eq, Debug)]
pub enum Tier {
    Quick,
    Thorough,
}

// ---------------------------------------------------------------------------------------------
// Run context: counters for the input distribution, oracle failures, distinct non-trivial cases.
// ---------------------------------------------------------------------------------------------
pub struct Failure {
    pub op_index: usize,
    pub class: String,
    pub detail: String,
}

pub struct Ctx {
    pub tier: Tier,
    pub pid: String,
    pub counters: BTreeMap<String, u64>,
    pub failures: Vec<Failure>,
    pub cur_op: usize,
    pub nontrivial: HashSet<u64>,
    pub oracle_checks: u64,
    /// how often each oracle class was EVALUATED through `expect` (not: failed), for the evidence: a class whose
    /// `Cxx:` prefix names a property whose check never evaluates it is dead
    pub class_evals: std::collections::HashMap<String, u64>,
}
impl Ctx {
    pub fn new(tier: Tier, pid: &str) -> Self {
        Ctx {
            tier,
            pid: pid.to_string(),
            counters: BTreeMap::new(),
            failures: Vec::new(),
            cur_op: 0,
            nontrivial: HashSet::new(),
            oracle_checks: 0,
            class_evals: std::collections::HashMap::new(),
        }
    }
    pub fn count(&mut self, key: &str) {
        *self.counters.entry(key.to_string()).or_insert(0) += 1;
    }
    pub fn count_n(&mut self, key: &str, n: u64) {
        *self.counters.entry(key.to_string()).or_insert(0) += n;
    }
    /// Record an oracle failure of the current op. `class` is the mechanism key matched against
    /// known_findings.jsonl; anything not listed there is a new violation.
    pub fn fail(&mut self, class: &str, detail: String) {
        self.failures.push(Failure {
            op_index: self.cur_op,
            class: class.to_string(),
            detail,
        });
    }
    /// One evaluation of an oracle predicate (for the evidence).
    pub fn checked(&mut self) {
        self.oracle_checks += 1;
    }
    /// Check helper: records a failure when `ok` is false.
    pub fn expect(&mut self, ok: bool, class: &str, detail: impl FnOnce() -> String) {
        self.oracle_checks += 1;
        match self.class_evals.get_mut(class) {
            Some(n) => *n += 1,
            None => {
                self.class_evals.insert(class.to_string(), 1);
            }
        }
        if !ok {
            let d = detail();
            self.fail(class, d);
        }
    }
    /// Mark the current op as non-trivial by the property's rule (hash of the op text).
    pub fn nontrivial(&mut self, op: &str) {
        self.nontrivial.insert(fnv(op.as_bytes()));
    }
}

pub fn fnv(bytes: &[u8]) -> u64 {
    let mut h: u64 = 0xcbf29ce484222325;
    for b in bytes {
        h ^= *b as u64;
        h = h.wrapping_mul(0x100000001b3);
    }
    h
}

// ---------------------------------------------------------------------------------------------
// Op-line parsing helpers. An op line is `stream tok tok ...`, tokens separated by single spaces.
// ---------------------------------------------------------------------------------------------
pub struct Toks<'a> {
    it: std::str::Split<'a, char>,
}
impl<'a> Toks<'a> {
    pub fn new(s: &'a str) -> Self {
        Toks { it: s.split(' ') }
    }
    pub fn str(&mut self) -> &'a str {
        self.it.next().expect("missing token")
    }
    pub fn opt(&mut self) -> Option<&'a str> {
        self.it.next()
    }
    pub fn i32(&mut self) -> i32 {
        self.str().parse().expect("bad i32")
    }
    pub fn i64(&mut self) -> i64 {
        self.str().parse().expect("bad i64")
    }
    pub fn u32(&mut self) -> u32 {
        self.str().parse().expect("bad u32")
    }
    pub fn u64(&mut self) -> u64 {
        self.str().parse().expect("bad u64")
    }
    pub fn usize(&mut self) -> usize {
        self.str().parse().expect("bad usize")
    }
    pub fn point(&mut self) -> Point {
        let x = self.i32();
        let y = self.i32();
        Point::new(x, y)
    }
    pub fn size(&mut self) -> Size {
        let w = self.u32();
        let h = self.u32();
        Size::new(w, h)
    }
    pub fn rect(&mut self) -> Rectangle {
        let p = self.point();
        let s = self.size();
        Rectangle::new(p, s)
    }
    /// comma separated list of u32 (`-` for the empty list)
    pub fn u32_list(&mut self) -> Vec<u32> {
        let s = self.str();
        if s == "-" {
            vec![]
        } else {
            s.split(',').map(|t| t.parse().expect("bad list item")).collect()
        }
    }
    pub fn i32_list(&mut self) -> Vec<i32> {
        let s = self.str();
        if s == "-" {
            vec![]
        } else {
            s.split(',').map(|t| t.parse().expect("bad list item")).collect()
        }
    }
}

pub fn fmt_rect(r: &Rectangle) -> String {
    format!("{},{},{},{}", r.top_left.x, r.top_left.y, r.size.width, r.size.height)
}
pub fn rect_toks(r: &Rectangle) -> String {
    format!("{} {} {} {}", r.top_left.x, r.top_left.y, r.size.width, r.size.height)
}
pub fn fmt_pt(p: Point) -> String {
    format!("{},{}", p.x, p.y)
}
pub fn fmt_opt_pt(p: Option<Point>) -> String {
    match p {
        Some(p) => fmt_pt(p),
        None => "none".into(),
    }
}
/// `x,y;x,y;...` or `-` when empty.
pub fn fmt_pts<I: IntoIterator<Item = Point>>(pts: I) -> String {
    let mut s = String::new();
    for p in pts {
        if !s.is_empty() {
            s.push(';');
        }
        let _ = write!(s, "{},{}", p.x, p.y);
    }
    if s.is_empty() {
        s.push('-');
    }
    s
}
pub fn fmt_list<T: std::fmt::Display, I: IntoIterator<Item = T>>(xs: I) -> String {
    let mut s = String::new();
    for x in xs {
        if !s.is_empty() {
            s.push(',');
        }
        let _ = write!(s, "{}", x);
    }
    if s.is_empty() {
        s.push('-');
    }
    s
}

// ---------------------------------------------------------------------------------------------
// Colours as numbers.
// ---------------------------------------------------------------------------------------------
pub trait ColNum: PixelColor + PartialEq + core::fmt::Debug {
    fn num(&self) -> u32;
    fn from_num(n: u32) -> Self;
}
macro_rules! colnum {
    ($($t:ty),*) => {$(
        impl ColNum for $t {
            fn num(&self) -> u32 { let r: <$t as PixelColor>::Raw = (*self).into(); r.into_inner() as u32 }
            fn from_num(n: u32) -> Self { <$t as PixelColor>::Raw::from_u32(n).into() }
        }
    )*};
}
colnum!(
    BinaryColor, Gray2, Gray4, Gray8, Rgb332, Rgb444, Rgb555, Bgr555, Rgb565, Bgr565, Rgb666, Bgr666,
    Rgb888, Bgr888
);

// ---------------------------------------------------------------------------------------------
// Recording targets.
//   R1: implements `draw_iter` only (inherits the trait defaults).
//   R2: additionally implements `fill_contiguous`, `fill_solid`, `clear` natively with their
//       documented meaning, draining colour iterators completely and counting what it pulls.
//   Both can fail the k-th call (fault injection) with a distinguishable error value, clip to a
//   configurable (possibly non-origin, possibly empty) bounding box and log every call.
// ---------------------------------------------------------------------------------------------
/// pixel map, keyed `(y, x)` so that iteration is row-major
pub type PMap = BTreeMap<(i32, i32), u32>;

#[derive(Clone, Debug, PartialEq, Eq)]
pub enum Call {
    DrawIter(Vec<((i32, i32), u32)>),
    FillContiguous(Rectangle, Vec<u32>),
    FillSolid(Rectangle, u32),
    Clear(u32),
}
impl Call {
    pub fn fmt(&self) -> String {
        match self {
            Call::DrawIter(px) => {
                let mut s = String::from("di:");
                if px.is_empty() {
                    s.push('-');
                }
                for (i, ((x, y), c)) in px.iter().enumerate() {
                    if i > 0 {
                        s.push(';');
                    }
                    let _ = write!(s, "{},{},{}", x, y, c);
                }
                s
            }
            Call::FillContiguous(a, cs) => format!("fc:{}:{}", fmt_rect(a), fmt_list(cs.iter())),
            Call::FillSolid(a, c) => format!("fs:{}:{}", fmt_rect(a), c),
            Call::Clear(c) => format!("cl:{}", c),
        }
    }
}

#[derive(Clone, Copy, Debug, PartialEq, Eq)]
pub struct TErr(pub usize);

pub struct Rec {
    pub bbox: Rectangle,
    pub map: PMap,
    pub log: Vec<Call>,
    pub fail_at: Option<usize>,
    pub calls: usize,
    pub calls_after_error: usize,
    pub errored: bool,
    /// number of pixels offered outside the bounding box (ignored, as a display would)
    pub outside: u64,
    /// hard cap on pixels per call, so a runaway iterator is reported instead of hanging
    pub budget: u64,
    pub budget_exceeded: bool,
    /// the box is the +-2^20 box of `unbounded()`: pixels outside it are reported (`far_pixels_take`), not only counted
    pub unbounded: bool,
}
impl Rec {
    pub fn new(bbox: Rectangle) -> Self {
        let unbounded = bbox.top_left == Point::new(-UNBOUNDED_HALF, -UNBOUNDED_HALF) && bbox.size == Size::new(1 << 21, 1 << 21);
        Rec {
            unbounded,
            bbox,
            map: PMap::new(),
            log: Vec::new(),
            fail_at: None,
            calls: 0,
            calls_after_error: 0,
            errored: false,
            outside: 0,
            budget: 50_000_000,
            budget_exceeded: false,
        }
    }
    /// "Unbounded": +-2^20 in both directions. Pixels outside are NOT recorded; they are counted in `outside` and
    /// reported through `far_pixels_take` (main.rs turns them into the failure class
    /// `pixel-outside-the-recording-range` for ops of display scale), so a picture oracle on such a target is not
    /// blind to far strays.
    pub fn unbounded() -> Self {
        Rec::new(Rectangle::new(
            Point::new(-UNBOUNDED_HALF, -UNBOUNDED_HALF),
            Size::new(1 << 21, 1 << 21),
        ))
    }
    fn enter(&mut self) -> Result<(), TErr> {
        if self.errored {
            self.calls_after_error += 1;
        }
        let k = self.calls;
        self.calls += 1;
        if self.fail_at == Some(k) {
            self.errored = true;
            return Err(TErr(k));
        }
        Ok(())
    }
    /// `p` inside the box, by plain interval arithmetic in i64 (not the library's `contains`, so a
    /// defect of `Rectangle` is not shared by the recording targets and what they record).
    fn in_box(&self, p: Point) -> bool {
        let (x0, y0) = (self.bbox.top_left.x as i64, self.bbox.top_left.y as i64);
        let (x, y) = (p.x as i64, p.y as i64);
        x0 <= x && x < x0 + self.bbox.size.width as i64 && y0 <= y && y < y0 + self.bbox.size.height as i64
    }
    fn set(&mut self, p: Point, c: u32) {
        if self.in_box(p) {
            self.map.insert((p.y, p.x), c);
        } else {
            self.outside += 1;
            if self.unbounded {
                far_note(1, p);
            }
        }
    }
    /// Documented meaning of `fill_solid` / `clear`: every point of `area` that lies in the box gets
    /// colour `c`. Interval arithmetic in i64 (no `Rectangle::intersection` / `points()`); points of
    /// `area` outside the box are counted in `outside` like everywhere else.
    fn set_area(&mut self, area: &Rectangle, c: u32) {
        let (ax0, ay0) = (area.top_left.x as i64, area.top_left.y as i64);
        let (ax1, ay1) = (ax0 + area.size.width as i64, ay0 + area.size.height as i64);
        let (bx0, by0) = (self.bbox.top_left.x as i64, self.bbox.top_left.y as i64);
        let (bx1, by1) = (bx0 + self.bbox.size.width as i64, by0 + self.bbox.size.height as i64);
        // (points beyond i32::MAX do not exist)
        let lim = i32::MAX as i64 + 1;
        let (x0, x1) = (ax0.max(bx0), ax1.min(bx1).min(lim));
        let (y0, y1) = (ay0.max(by0), ay1.min(by1).min(lim));
        let mut inside = 0u64;
        if x0 < x1 && y0 < y1 {
            for y in y0..y1 {
                for x in x0..x1 {
                    self.map.insert((y as i32, x as i32), c);
                }
            }
            inside = ((x1 - x0) * (y1 - y0)) as u64;
        }
        let out = (area.size.width as u64 * area.size.height as u64).saturating_sub(inside);
        self.outside += out;
        if self.unbounded && *area != self.bbox {
            // a corner of the area that is outside the box
            let far = if ax0 < bx0 || ay0 < by0 { area.top_left } else { Point::new((ax1 - 1).min(i32::MAX as i64) as i32, (ay1 - 1).min(i32::MAX as i64) as i32) };
            far_note(out, far);
        }
    }
    pub fn fmt_map(&self) -> String {
        fmt_map(&self.map)
    }
    pub fn fmt_log(&self) -> String {
        let mut s = String::new();
        for (i, c) in self.log.iter().enumerate() {
            if i > 0 {
                s.push('|');
            }
            s.push_str(&c.fmt());
        }
        if s.is_empty() {
            s.push('-');
        }
        s
    }
}
// ---------------------------------------------------------------------------------------------
// Digests for results too long to print. One scheme for everything (the one `tri.points` /
// `line.points` use for their `h=` fields): h = 0; for every value v of a sequence, in order,
// h = h * 1000003 + v (wrapping u64). Lean side: `digestStep` / `pixDigest` / `strDigest` /
// `smallMap` / `smallText` in Driver/Util.lean.
// ---------------------------------------------------------------------------------------------
#[inline]
pub fn digest_step(h: u64, v: u64) -> u64 {
    h.wrapping_mul(1_000_003).wrapping_add(v)
}
/// Position- and colour-sensitive digest of a pixel map: the entries in row-major order (the
/// iteration order of `PMap`), three steps per entry: `y + 2^31`, `x + 2^31`, `colour + 1`.
pub fn map_digest(m: &PMap) -> u64 {
    let mut h = 0u64;
    for ((y, x), c) in m.iter() {
        h = digest_step(h, (*y as i64 + (1i64 << 31)) as u64);
        h = digest_step(h, (*x as i64 + (1i64 << 31)) as u64);
        h = digest_step(h, *c as u64 + 1);
    }
    h
}
/// Digest of a text: one step per byte (`byte + 1`).
pub fn str_digest(s: &str) -> u64 {
    s.bytes().fold(0u64, |h, b| digest_step(h, b as u64 + 1))
}
/// Pixel map as text: in full up to `SMALL_MAP` entries, beyond `big:<entries>:<map_digest>`.
pub const SMALL_MAP: usize = 600;
pub fn small_map(m: &PMap) -> String {
    if m.len() <= SMALL_MAP {
        fmt_map(m)
    } else {
        format!("big:{}:{}", m.len(), map_digest(m))
    }
}
/// A text in full up to `cap` bytes, beyond `big:<bytes>:<str_digest>`.
pub fn small_text(s: String, cap: usize) -> String {
    if s.len() <= cap {
        s
    } else {
        format!("big:{}:{}", s.len(), str_digest(&s))
    }
}
pub fn fmt_map(m: &PMap) -> String {
    let mut s = String::new();
    for ((y, x), c) in m.iter() {
        if !s.is_empty() {
            s.push(';');
        }
        let _ = write!(s, "{},{},{}", x, y, c);
    }
    if s.is_empty() {
        s.push('-');
    }
    s
}

/// `m` restricted to the box `b`, by plain interval arithmetic in i64 (not `Rectangle::contains`): what a bounded
/// target with bounding box `b` must show of a picture whose unbounded form is `m`.
pub fn restrict_map(m: &PMap, b: &Rectangle) -> PMap {
    let (x0, y0) = (b.top_left.x as i64, b.top_left.y as i64);
    let (x1, y1) = (x0 + b.size.width as i64, y0 + b.size.height as i64);
    m.iter().filter(|((y, x), _)| x0 <= *x as i64 && (*x as i64) < x1 && y0 <= *y as i64 && (*y as i64) < y1).map(|(k, v)| (*k, *v)).collect()
}
/// Degenerate target boxes for the bounded-target oracles of an object whose own (non-empty) box is `bb`:
/// an EMPTY box (0 x 0) and a FLAT one (w x 0) at the object's top-left corner, a box of zero WIDTH (0 x h), and a
/// DISJOINT box of the object's size far away (to the lower right / to the upper left in turn). Nothing may be
/// recorded on any of them; everything else the drawing returns (next text position) must be what it is on an
/// unbounded target.
pub fn degenerate_boxes(bb: &Rectangle) -> [(&'static str, Rectangle); 5] {
    let s = bb.size;
    [
        ("empty-0x0", Rectangle::new(bb.top_left, Size::new(0, 0))),
        ("flat-wx0", Rectangle::new(bb.top_left, Size::new(s.width.max(1), 0))),
        ("flat-0xh", Rectangle::new(bb.top_left + Point::new(1, 1), Size::new(0, s.height.max(1)))),
        ("disjoint-lower-right", Rectangle::new(bb.top_left + Point::new(s.width as i32 + 1000, s.height as i32 + 777), Size::new(s.width.max(1), s.height.max(1)))),
        ("disjoint-upper-left", Rectangle::new(bb.top_left - Point::new(s.width as i32 + 1000, s.height as i32 + 777), Size::new(s.width.max(1), s.height.max(1)))),
    ]
}

pub struct R1<C: ColNum> {
    pub rec: Rec,
    _c: core::marker::PhantomData<C>,
}
pub struct R2<C: ColNum> {
    pub rec: Rec,
    _c: core::marker::PhantomData<C>,
}
impl<C: ColNum> R1<C> {
    pub fn new(bbox: Rectangle) -> Self {
        R1 { rec: Rec::new(bbox), _c: Default::default() }
    }
    pub fn unbounded() -> Self {
        R1 { rec: Rec::unbounded(), _c: Default::default() }
    }
}
impl<C: ColNum> R2<C> {
    pub fn new(bbox: Rectangle) -> Self {
        R2 { rec: Rec::new(bbox), _c: Default::default() }
    }
    pub fn unbounded() -> Self {
        R2 { rec: Rec::unbounded(), _c: Default::default() }
    }
}
impl<C: ColNum> Dimensions for R1<C> {
    fn bounding_box(&self) -> Rectangle {
        self.rec.bbox
    }
}
impl<C: ColNum> Dimensions for R2<C> {
    fn bounding_box(&self) -> Rectangle {
        self.rec.bbox
    }
}
thread_local! {
    /// How the recording targets consume the iterators they are handed (see `drain_iter`). 0 = a `for` loop (`next`).
    pub static CONSUME_MODE: std::cell::Cell<u32> = const { std::cell::Cell::new(0) };
    /// number of iterators drained by recording targets since the last reset (main.rs: is a second run worthwhile?)
    pub static DRAIN_CALLS: std::cell::Cell<u64> = const { std::cell::Cell::new(0) };
    /// a `size_hint` that did not bracket the number of items the iterator then yielded
    pub static PROTOCOL_FAULT: std::cell::RefCell<Option<String>> = const { std::cell::RefCell::new(None) };
}

/// Drain an iterator a drawable handed to a recording target, in the way `CONSUME_MODE` says. A real display driver
/// is free to consume it with a `for` loop, with internal iteration (`for_each` / `fold`), after a first `next()`
/// (peeking drivers), or with `nth`; the picture must not depend on that (round-5 seeds: `fold` / `nth` / `size_hint`
/// overrides that are wrong after a `next()` or across rows). main.rs re-runs every drawing op in one of the modes
/// 1..3 and compares the result line with the `for`-loop run.
///   1  `for_each`                      2  one `next()`, then `for_each`
///   3  `size_hint()` first, then `nth(0)` until `None`; the hint must bracket the count
/// Internal iteration cannot be stopped: modes 1 and 2 are not used for a stream whose `size_hint` lower bound is above the
/// budget (an endless `repeat(..)` falls back to the loop), and panic once the budget is exceeded.
pub fn drain_iter<T, I: Iterator<Item = T>>(mut it: I, budget: u64, exceeded: &mut bool) -> Vec<T> {
    DRAIN_CALLS.with(|c| c.set(c.get() + 1));
    let mut mode = CONSUME_MODE.with(|m| m.get());
    let (lo, hi) = it.size_hint();
    // an endless std stream (`repeat(..)` and adaptors over it) announces itself by its lower bound; most library
    // iterators have no size_hint of their own ((0, None)), so the upper bound cannot be the criterion
    if (mode == 1 || mode == 2) && (lo as u64) > budget {
        mode = 0;
    }
    let mut v: Vec<T> = Vec::new();
    match mode {
        1 | 2 => {
            if mode == 2 {
                if let Some(x) = it.next() {
                    v.push(x);
                }
            }
            it.for_each(|x| {
                // internal iteration cannot be stopped: a runaway iterator ends the op with a panic (caught by main.rs;
                // the result then differs from the loop's, which stopped at the budget and reported it)
                if v.len() as u64 >= budget {
                    panic!("recording budget exceeded during internal iteration");
                }
                v.push(x)
            });
        }
        3 => {
            let mut n = 0u64;
            while let Some(x) = it.nth(0) {
                n += 1;
                if n > budget {
                    *exceeded = true;
                    break;
                }
                v.push(x);
            }
            if !*exceeded && (lo > v.len() || hi.map_or(false, |h| h < v.len())) {
                PROTOCOL_FAULT.with(|f| *f.borrow_mut() = Some(format!("size_hint ({}, {:?}) but the iterator yielded {} item(s)", lo, hi, v.len())));
            }
        }
        _ => {
            let mut n = 0u64;
            for x in it {
                n += 1;
                if n > budget {
                    *exceeded = true;
                    break;
                }
                v.push(x);
            }
        }
    }
    v
}

fn do_draw_iter<C: ColNum, I: IntoIterator<Item = Pixel<C>>>(rec: &mut Rec, pixels: I) -> Result<(), TErr> {
    rec.enter()?;
    let mut exceeded = false;
    let items = drain_iter(pixels.into_iter(), rec.budget, &mut exceeded);
    if exceeded {
        rec.budget_exceeded = true;
    }
    let mut v = Vec::with_capacity(items.len());
    for Pixel(p, c) in items {
        v.push(((p.x, p.y), c.num()));
        rec.set(p, c.num());
    }
    rec.log.push(Call::DrawIter(v));
    Ok(())
}
impl<C: ColNum> DrawTarget for R1<C> {
    type Color = C;
    type Error = TErr;
    fn draw_iter<I: IntoIterator<Item = Pixel<C>>>(&mut self, pixels: I) -> Result<(), TErr> {
        do_draw_iter(&mut self.rec, pixels)
    }
}
impl<C: ColNum> DrawTarget for R2<C> {
    type Color = C;
    type Error = TErr;
    fn draw_iter<I: IntoIterator<Item = Pixel<C>>>(&mut self, pixels: I) -> Result<(), TErr> {
        do_draw_iter(&mut self.rec, pixels)
    }
    fn fill_contiguous<I: IntoIterator<Item = C>>(&mut self, area: &Rectangle, colors: I) -> Result<(), TErr> {
        self.rec.enter()?;
        // documented meaning: colours are paired with the row-major points of `area`; the
        // iterator is drained completely and everything it yields is recorded.
        let cs: Vec<u32> = {
            let mut exceeded = false;
            let items = drain_iter(colors.into_iter(), self.rec.budget, &mut exceeded);
            if exceeded {
                self.rec.budget_exceeded = true;
            }
            items.into_iter().map(|c| c.num()).collect()
        };
        let w = area.size.width as i64;
        let h = area.size.height as i64;
        let total = (w * h) as usize;
        for (i, c) in cs.iter().enumerate() {
            if i >= total {
                break;
            }
            let x = area.top_left.x as i64 + (i as i64 % w);
            let y = area.top_left.y as i64 + (i as i64 / w);
            self.rec.set(Point::new(x as i32, y as i32), *c);
        }
        self.rec.log.push(Call::FillContiguous(*area, cs));
        Ok(())
    }
    fn fill_solid(&mut self, area: &Rectangle, color: C) -> Result<(), TErr> {
        self.rec.enter()?;
        self.rec.set_area(area, color.num());
        self.rec.log.push(Call::FillSolid(*area, color.num()));
        Ok(())
    }
    fn clear(&mut self, color: C) -> Result<(), TErr> {
        self.rec.enter()?;
        let bb = self.rec.bbox;
        self.rec.set_area(&bb, color.num());
        self.rec.log.push(Call::Clear(color.num()));
        Ok(())
    }
}

/// Iterator protocol of a cloneable library iterator (`points()`, `pixels()`, raw data iterators): whatever has been
/// consumed with `next()` so far, the remaining items reached through `fold` / `for_each`, `count`, `last`, `nth`,
/// `skip`, `step_by` are the items the plain `next()` sequence yields, and `size_hint` brackets their number
/// (round-5 seeds: `nth` / `fold` / `size_hint` overrides that disagree with `next`). `cap`: iterators longer than
/// that are not examined. Class = the caller's; evaluated once per call.
pub fn iter_protocol_check<T: PartialEq + Clone + core::fmt::Debug, I: Iterator<Item = T> + Clone>(ctx: &mut Ctx, class: &str, it0: I, cap: usize) {
    let mut reference: Vec<T> = Vec::new();
    {
        let mut it = it0.clone();
        while let Some(x) = it.next() {
            reference.push(x);
            if reference.len() > cap {
                ctx.count("obs:iter-protocol:too-long-not-examined");
                return;
            }
        }
        // exhausted: size_hint must still be answerable and bracket 0
        let (lo, _) = it.size_hint();
        if lo != 0 {
            ctx.expect(false, class, || format!("exhausted iterator reports size_hint lower bound {}", lo));
            return;
        }
    }
    let len = reference.len();
    let mut ks = vec![0usize, 1, len / 2, len.saturating_sub(1), len];
    ks.retain(|k| *k <= len);
    ks.sort();
    ks.dedup();
    let mut bad: Option<String> = None;
    'outer: for &k in &ks {
        let mut a = it0.clone();
        for _ in 0..k {
            a.next();
        }
        let rest = &reference[k..];
        let (lo, hi) = a.size_hint();
        if lo > rest.len() || hi.map_or(false, |h| h < rest.len()) {
            bad = Some(format!("after {} next(): size_hint ({}, {:?}) but {} item(s) remain", k, lo, hi, rest.len()));
            break;
        }
        let folded: Vec<T> = a.clone().fold(Vec::new(), |mut v, x| {
            v.push(x);
            v
        });
        if folded != rest {
            bad = Some(format!("after {} next(): fold yields {} item(s), next() {}", k, folded.len(), rest.len()));
            break;
        }
        let mut fe: Vec<T> = Vec::new();
        a.clone().for_each(|x| fe.push(x));
        if fe != rest {
            bad = Some(format!("after {} next(): for_each yields {} item(s), next() {}", k, fe.len(), rest.len()));
            break;
        }
        if a.clone().count() != rest.len() {
            bad = Some(format!("after {} next(): count() = {}, next() yields {}", k, a.clone().count(), rest.len()));
            break;
        }
        if a.clone().last() != rest.last().cloned() {
            bad = Some(format!("after {} next(): last() differs", k));
            break;
        }
        for j in [1usize, 2, 3, 7] {
            // nth stepping
            let mut b = a.clone();
            let mut idx = 0usize;
            loop {
                match b.nth(j) {
                    Some(x) => {
                        idx += j;
                        if idx >= rest.len() || x != rest[idx] {
                            bad = Some(format!("after {} next(): nth({}) yields {:?} where next() has {:?}", k, j, x, rest.get(idx)));
                            break 'outer;
                        }
                        idx += 1;
                    }
                    None => {
                        if idx + j < rest.len() {
                            bad = Some(format!("after {} next(): nth({}) = None with {} item(s) left", k, j, rest.len() - idx));
                            break 'outer;
                        }
                        break;
                    }
                }
            }
            let skipped: Vec<T> = a.clone().skip(j).collect();
            if skipped != rest[j.min(rest.len())..] {
                bad = Some(format!("after {} next(): skip({}) yields {} item(s), expected {}", k, j, skipped.len(), rest.len().saturating_sub(j)));
                break 'outer;
            }
            let stepped: Vec<T> = a.clone().step_by(j + 1).collect();
            let want: Vec<T> = rest.iter().step_by(j + 1).cloned().collect();
            if stepped != want {
                bad = Some(format!("after {} next(): step_by({}) yields {:?}.., expected {:?}..", k, j + 1, stepped.iter().take(3).collect::<Vec<_>>(), want.iter().take(3).collect::<Vec<_>>()));
                break 'outer;
            }
        }
    }
    ctx.expect(bad.is_none(), class, || bad.clone().unwrap_or_default());
}

/// A harness module covers one topic (`rect`, `raw`, `circle`, ...): all its stream names start
/// with `<name>.`. A property check runs one or more modules (table in main.rs). Oracle failure
/// classes may be prefixed `Cxx:`; such a failure counts only for the check of property Cxx
/// (unprefixed classes count for every property that runs the module).
pub trait Module {
    fn name(&self) -> &'static str;
    /// Produce op lines for the check of property `pid` (exhaustive small scopes first, then
    /// seeded random cases). Deterministic in (pid, tier, rng).
    fn generate(&self, pid: &str, tier: Tier, rng: &mut Rng, emit: &mut dyn FnMut(String));
    /// Run one op on the real library: returns the canonical result line; oracle failures and
    /// distribution counters go into `ctx` (`ctx.pid` is the property being checked).
    fn execute(&self, op: &str, ctx: &mut Ctx) -> String;
    /// Rule by which `distinct_nontrivial` is counted (for the evidence).
    fn rule(&self) -> &'static str;
}
