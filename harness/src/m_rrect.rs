//! module `rrect` (serves C05, C06, C18; C01 through the styled stream) — the RoundedRectangle primitive.
//!
//! Geometry tokens `<g>` = `x y w h tlw tlh trw trh brw brh blw blh` (as the `rrect` shape of shapes.rs).
//! Streams (op lines; every result line is compared with the Lean model `EG.Model.RoundedRect`):
//!   rrect.points <g>
//!       -> bb=<bounding box> cf=<the 8 radii after confine_radii()> pts=<points() list>
//!          in=<contains() bitmap, row-major, over the bounding box grown by a 3 px margin>
//!   rrect.confine w h <8 radii>
//!       -> c=<the 8 radii after confine_radii()>
//!   rrect.areas <g> width align
//!       -> s=<x,y,w,h,8 radii of offset(+outside)> f=<.. of offset(-inside)> sbb=<styled_bounding_box>
//!          (`stroke_area`/`fill_area` are crate-private: they are `offset(outside_stroke_width)` and
//!          `offset(-inside_stroke_width)`; the split used here is the documented one, the model side
//!          uses the model of `PrimitiveStyle`)
//!   rrect.styled <g> fill stroke width align tx ty tw th   (colours `-` or a number; align 0 = Inside,
//!          1 = Center, 2 = Outside; `tx ty tw th` = bounding box of the target)
//!       -> log=<call log of draw() on R2> m1=<map of draw() on R1> m2=<map of draw() on R2>
//!          px=<pixels() sequence, in iteration order>
//!
//! Oracle (the property texts as predicates on the real results). Lean statements mirrored:
//!   C05 `rrect_points_eq_filter_contains`, `rrect_contains_inside_bbox`, `rrect_points_nodup`,
//!       `rrect_points_row_major` (EG/Props/C05/RoundedRect.lean);
//!   C18 `confine_fits` (all radii, also pair sums above u32::MAX), `confine_noop`, `confine_le`,
//!       `zero_radii_eq_rectangle`, `half_radii_eq_ellipse`, `rrect_rows_contiguous`,
//!       `rrect_columns_contiguous`, `rrect_straight_part_full`, `rrect_contains_corners`,
//!       `corner_contains_iff_ideal_ellipse/_circle/_small_circle`: corner membership = ideal quarter
//!       ellipse in doubled integer coordinates (pixel centre `2p + 1`, ellipse centre `2 * inner box
//!       corner`, semi-axes `2 r`), exactly where the code uses the ellipse equation, and within half a
//!       pixel (semi-axes `2r +- 1`: the fixed band metric of this oracle) always;
//!   C06 `rrect_offset_geometry`, `styled_rrect_exact_partial` (+ `FillInStroke`, which is unproved for
//!       non-zero widths and therefore checked here: class `C06:rrect-fill-area-not-inside-stroke-area`);
//!   C01 `styled_rrect_pixels_eq_draw_stroked/_partial` (R1 map == R2 map == pixels() map).
use crate::common::*;
use embedded_graphics::{
    pixelcolor::Rgb565,
    prelude::*,
    primitives::{
        ContainsPoint, CornerRadii, Ellipse, OffsetOutline, PrimitiveStyleBuilder, Rectangle, RoundedRectangle, StrokeAlignment,
    },
};

pub struct M;

fn align_of(i: u32) -> StrokeAlignment {
    match i {
        0 => StrokeAlignment::Inside,
        1 => StrokeAlignment::Center,
        _ => StrokeAlignment::Outside,
    }
}

/// the documented split of the stroke width: (inside part, outside part)
fn split(width: u32, align: u32) -> (u32, u32) {
    match align {
        0 => (width, 0),
        1 => (width - width / 2, width / 2), // the larger half inside
        _ => (0, width),
    }
}

fn col_tok(t: &str) -> Option<u32> {
    if t == "-" {
        None
    } else {
        Some(t.parse().expect("bad colour"))
    }
}

fn parse_radii(t: &mut Toks) -> CornerRadii {
    let tl = t.size();
    let tr = t.size();
    let br = t.size();
    let bl = t.size();
    CornerRadii { top_left: tl, top_right: tr, bottom_right: br, bottom_left: bl }
}

fn parse_geometry(t: &mut Toks) -> RoundedRectangle {
    let r = t.rect();
    let c = parse_radii(t);
    RoundedRectangle::new(r, c)
}

fn fmt_radii(c: &CornerRadii) -> String {
    format!(
        "{},{},{},{},{},{},{},{}",
        c.top_left.width,
        c.top_left.height,
        c.top_right.width,
        c.top_right.height,
        c.bottom_right.width,
        c.bottom_right.height,
        c.bottom_left.width,
        c.bottom_left.height
    )
}

fn fmt_rr(r: &RoundedRectangle) -> String {
    format!("{},{}", fmt_rect(&r.rectangle), fmt_radii(&r.corners))
}

fn radii_toks(r: &[(u32, u32); 4]) -> String {
    format!("{} {} {} {} {} {} {} {}", r[0].0, r[0].1, r[1].0, r[1].1, r[2].0, r[2].1, r[3].0, r[3].1)
}

/// The four sides as (side length, radius, radius) of the two corners along it.
fn side_pairs(size: Size, c: &CornerRadii) -> [(&'static str, u64, u64, u64); 4] {
    [
        ("top", size.width as u64, c.top_left.width as u64, c.top_right.width as u64),
        ("right", size.height as u64, c.top_right.height as u64, c.bottom_right.height as u64),
        ("bottom", size.width as u64, c.bottom_left.width as u64, c.bottom_right.width as u64),
        ("left", size.height as u64, c.top_left.height as u64, c.bottom_left.height as u64),
    ]
}

/// The KNOWN FINDING of the rounded rectangle (suffix `:confined-radii`), for the oracles of other modules:
/// `true` iff `confine` rescales the radii of the stroke area or of the fill area of `rr` with this stroke
/// width / alignment AND every one of the given points lies in fill_area \ stroke_area (the only place where
/// the mechanism can show). `false` for an empty point set.
pub(crate) fn known_finding_explains(rr: &RoundedRectangle, width: u32, align: StrokeAlignment, pts: &[Point]) -> bool {
    let a = match align {
        StrokeAlignment::Inside => 0,
        StrokeAlignment::Center => 1,
        StrokeAlignment::Outside => 2,
    };
    let (ins, out) = split(width, a);
    let sa = rr.offset(out.min(i32::MAX as u32) as i32);
    let fa = rr.offset(-(ins.min(i32::MAX as u32) as i32));
    !pts.is_empty() && pts.iter().all(|p| escape_explained(&sa, &fa, *p))
}

/// `p` lies, inside the rectangle of `r`, in the box of a corner whose radius `confine` changes (the box of
/// the RAW radius, clipped to the rectangle: the rescaled ellipse lies inside it).
fn in_changed_corner_box(r: &RoundedRectangle, p: Point) -> bool {
    let rect = r.rectangle;
    if !rect.contains(p) {
        return false;
    }
    let (c, cc) = (r.corners, r.confine_radii().corners);
    let (w, h) = (rect.size.width as i64, rect.size.height as i64);
    let (px, py) = (p.x as i64 - rect.top_left.x as i64, p.y as i64 - rect.top_left.y as i64);
    let chk = |raw: Size, conf: Size, left: bool, top: bool| -> bool {
        if raw == conf {
            return false;
        }
        let (rw, rh) = ((raw.width as i64).min(w), (raw.height as i64).min(h));
        (if left { px < rw } else { px >= w - rw }) && (if top { py < rh } else { py >= h - rh })
    };
    chk(c.top_left, cc.top_left, true, true)
        || chk(c.top_right, cc.top_right, false, true)
        || chk(c.bottom_right, cc.bottom_right, false, false)
        || chk(c.bottom_left, cc.bottom_left, true, false)
}

/// The mechanism of the KNOWN FINDING at one point: `p` is in fill_area \ stroke_area, inside the stroke area's
/// rectangle, and in the corner box of a corner whose radius `confine` rescales in one of the two areas. A point
/// of fill_area \ stroke_area anywhere else (outside the stroke rectangle, on a straight side, at a corner whose
/// radii fit in both areas) is NOT the known finding.
pub(crate) fn escape_explained(sa: &RoundedRectangle, fa: &RoundedRectangle, p: Point) -> bool {
    fa.contains(p) && !sa.contains(p) && sa.rectangle.contains(p) && (in_changed_corner_box(sa, p) || in_changed_corner_box(fa, p))
}

/// `confine_radii()` changes some radius: the radii do not fit the rectangle (the complement of the
/// guard `CornerRadii.Fits` of the Lean theorem `fill_in_stroke_partial_fitting`).
fn radii_confined(r: &RoundedRectangle) -> bool {
    radii_list(&r.confine_radii().corners) != radii_list(&r.corners)
}

fn radii_list(c: &CornerRadii) -> [u32; 8] {
    [
        c.top_left.width,
        c.top_left.height,
        c.top_right.width,
        c.top_right.height,
        c.bottom_right.width,
        c.bottom_right.height,
        c.bottom_left.width,
        c.bottom_left.height,
    ]
}

/// C18 confine predicates (property text: "radii after confine_radii() never add up to more than the
/// side they share"; unchanged when they already fit; no radius grows).
fn check_confine(ctx: &mut Ctx, size: Size, before: &CornerRadii, after: &CornerRadii) {
    let fits_before = side_pairs(size, before).iter().all(|(_, s, a, b)| a + b <= *s);
    let saturates = side_pairs(size, before).iter().any(|(_, _, a, b)| a + b > u32::MAX as u64);
    if saturates {
        ctx.count("rrect:confine:pair-sum-above-u32");
    }
    for (name, s, a, b) in side_pairs(size, after) {
        if a + b > s {
            // mechanism key: a pair sum above `u32::MAX` that is clamped hides the real ratio of that side
            // (repaired defect: `saturating_add` in `confine`)
            let class = if saturates { "C18:rrect-confine-overflows-side:saturated-pair-sum" } else { "C18:rrect-confine-overflows-side" };
            ctx.expect(false, class, || format!("{} side {}: radii {} + {} after confine ({})", name, s, a, b, fmt_radii(after)));
        } else {
            ctx.checked();
        }
    }
    if fits_before {
        ctx.count("rrect:confine:already-fits");
        ctx.expect(before == after, "C18:rrect-confine-changes-fitting-radii", || format!("{} -> {}", fmt_radii(before), fmt_radii(after)));
    } else {
        ctx.count("rrect:confine:scaled");
    }
    ctx.expect(
        radii_list(before).iter().zip(radii_list(after).iter()).all(|(b, a)| a <= b),
        "C18:rrect-confine-grows-radius",
        || format!("{} -> {}", fmt_radii(before), fmt_radii(after)),
    );
}

/// Corner boxes (after confine): (box, doubled ellipse centre = 2 * inner corner of the box, radius).
fn corner_boxes(rect: &Rectangle, c: &CornerRadii) -> [(Rectangle, (i64, i64), Size); 4] {
    let (x, y) = (rect.top_left.x, rect.top_left.y);
    let (w, h) = (rect.size.width as i32, rect.size.height as i32);
    let bx = |px: i32, py: i32, r: Size| Rectangle::new(Point::new(px, py), r);
    let tl = c.top_left;
    let tr = c.top_right;
    let br = c.bottom_right;
    let bl = c.bottom_left;
    [
        (bx(x, y, tl), (2 * (x as i64 + tl.width as i64), 2 * (y as i64 + tl.height as i64)), tl),
        (bx(x + w - tr.width as i32, y, tr), (2 * (x as i64 + w as i64 - tr.width as i64), 2 * (y as i64 + tr.height as i64)), tr),
        (
            bx(x + w - br.width as i32, y + h - br.height as i32, br),
            (2 * (x as i64 + w as i64 - br.width as i64), 2 * (y as i64 + h as i64 - br.height as i64)),
            br,
        ),
        (bx(x, y + h - bl.height as i32, bl), (2 * (x as i64 + bl.width as i64), 2 * (y as i64 + h as i64 - bl.height as i64)), bl),
    ]
}

/// `Some(inside)` where the corner test of the code is the ideal ellipse equation itself (pixel centre
/// strictly inside the ellipse with semi-axes `r`), `None` for the small circular corners (radius <= 2)
/// where the code uses the circle's special thresholds.
fn ideal_exact(p: Point, c2: (i64, i64), r: Size) -> Option<bool> {
    let dx = 2 * p.x as i64 + 1 - c2.0;
    let dy = 2 * p.y as i64 + 1 - c2.1;
    let a = 2 * r.width as i64;
    let b = 2 * r.height as i64;
    if r.width == r.height && r.width <= 2 {
        None
    } else {
        Some(b * b * dx * dx + a * a * dy * dy < a * a * b * b)
    }
}
/// pixel centre strictly inside the ellipse with semi-axes `r + k/2` (doubled: `2r + k`), `k = +-1`
fn ideal_band(p: Point, c2: (i64, i64), r: Size, k: i64, strict: bool) -> bool {
    let dx = 2 * p.x as i64 + 1 - c2.0;
    let dy = 2 * p.y as i64 + 1 - c2.1;
    let a = 2 * r.width as i64 + k;
    let b = 2 * r.height as i64 + k;
    let lhs = b * b * dx * dx + a * a * dy * dy;
    if strict {
        lhs < a * a * b * b
    } else {
        lhs <= a * a * b * b
    }
}

const UNB: (i32, i32, u32, u32) = (-(1 << 20), -(1 << 20), 1 << 21, 1 << 21);

const UNEQUAL: [[(u32, u32); 4]; 20] = [
    [(1, 2), (3, 1), (0, 0), (2, 4)],
    [(9, 1), (0, 3), (4, 4), (1, 0)],
    [(4, 6), (0, 0), (0, 0), (2, 5)],
    [(0, 0), (4, 6), (0, 0), (2, 5)],
    [(2, 2), (2, 2), (0, 0), (0, 0)],
    [(0, 0), (0, 0), (3, 3), (3, 3)],
    [(5, 1), (1, 5), (5, 1), (1, 5)],
    [(60, 12), (60, 0), (0, 0), (0, 13)],
    [(20, 20), (20, 20), (200, 200), (20, 20)],
    [(1, 1), (2, 2), (3, 3), (4, 4)],
    [(8, 8), (0, 0), (8, 8), (0, 0)],
    [(0, 0), (8, 8), (0, 0), (8, 8)],
    [(3, 7), (3, 0), (3, 7), (3, 0)],
    [(0, 5), (7, 0), (0, 5), (7, 0)],
    [(100, 1), (1, 100), (100, 1), (1, 100)],
    [(1, 1), (0, 0), (0, 0), (0, 0)],
    [(0, 0), (0, 0), (0, 0), (6, 2)],
    [(4, 4), (4, 3), (3, 4), (5, 5)],
    [(2, 9), (9, 2), (1, 1), (7, 7)],
    [(50, 50), (50, 50), (50, 50), (50, 50)],
];

impl Module for M {
    fn name(&self) -> &'static str {
        "rrect"
    }
    fn rule(&self) -> &'static str {
        "rrect.points: every rectangle 0..=8 x 0..=8 (thorough 0..=14) x every equal corner radius 0..=5 x 0..=5 (thorough 0..=8) at 3 positions, \
         20 unequal radius sets (incl. radii larger than the rectangle and overlapping opposite corners) x 12 sizes, even sizes with half-side radii, \
         seeded random sizes/radii <= 100 (quick 400, thorough 50 000); rrect.confine: 4 rectangle sizes x radius grid {0,1,3,6,12,60}^4 for two corners x 3 settings of the \
         other two, plus random radii up to u32::MAX; rrect.styled/areas: sizes 0..=7 squared x widths 0..=4 x 3 alignments x 4 colour options x 2 target boxes \
         (unbounded, clipping) x 3 of 6 radius sets in rotation, 6 tall-thin / wide-flat shapes with one elongated corner radius x 4 corners x 2 alignments (the known finding `:confined-radii`), plus seeded random larger cases and a seeded random family of tall-thin / wide-flat shapes (short side 2..=9, long side 12..=64) with one or two elongated corner radii, widths 1..=3, all alignments and colour options (quick 500, thorough 6000; counter rrect:areas:confined-radii). Non-trivial: width and height >= 1 (points), and a colour set (styled), \
         some radius pair not fitting (confine); distinct = distinct op text."
    }

    fn generate(&self, pid: &str, tier: Tier, rng: &mut Rng, emit: &mut dyn FnMut(String)) {
        let quick = tier == Tier::Quick;
        let pos: [(i32, i32); 3] = [(0, 0), (-40, -17), (-5, -3)];
        if pid == "C05" || pid == "C18" {
            let smax: u32 = if quick { 8 } else { 14 };
            let rmax: u32 = if quick { 5 } else { 8 };
            for w in 0..=smax {
                for h in 0..=smax {
                    for rw in 0..=rmax {
                        for rh in 0..=rmax {
                            let (x, y) = pos[((w + h + rw + rh) % 3) as usize];
                            let r = [(rw, rh); 4];
                            emit(format!("rrect.points {} {} {} {} {}", x, y, w, h, radii_toks(&r)));
                        }
                    }
                }
            }
            let sizes: [(u32, u32); 12] =
                [(4, 7), (8, 8), (7, 3), (10, 6), (1, 5), (12, 12), (0, 4), (5, 0), (100, 10), (20, 20), (9, 14), (3, 3)];
            for (i, r) in UNEQUAL.iter().enumerate() {
                for (j, (w, h)) in sizes.iter().enumerate() {
                    let (x, y) = pos[(i + j) % 3];
                    emit(format!("rrect.points {} {} {} {} {}", x, y, w, h, radii_toks(r)));
                }
            }
            // even sides, every radius half a side (the ellipse), and neighbours of that case
            let emax: u32 = if quick { 16 } else { 40 };
            for w in (0..=emax).step_by(2) {
                for h in (0..=emax).step_by(2) {
                    let (x, y) = pos[((w / 2 + h / 2) % 3) as usize];
                    emit(format!("rrect.points {} {} {} {} {}", x, y, w, h, radii_toks(&[(w / 2, h / 2); 4])));
                }
            }
            let n = if quick { 400 } else { 50_000 };
            for _ in 0..n {
                let scale = *rng.pick(&[8i64, 64, 1024, 1 << 20]);
                let x = rng.range(-scale, scale);
                let y = rng.range(-scale, scale);
                let smax = *rng.pick(&[6i64, 12, 30, 100]);
                let smax = if quick { smax.min(40) } else { smax };
                let w = rng.range(0, smax);
                let h = rng.range(0, smax);
                let mut r = [(0u32, 0u32); 4];
                let mode = rng.below(5);
                let base = (rng.range(0, smax) as u32, rng.range(0, smax) as u32);
                for k in 0..4 {
                    r[k] = match mode {
                        0 => base,
                        1 => ((rng.range(0, w / 2 + 1)) as u32, (rng.range(0, h / 2 + 1)) as u32),
                        2 => (rng.range(0, smax.min(100)) as u32, rng.range(0, smax.min(100)) as u32),
                        // two opposite corners large (their boxes may overlap), the other two zero
                        3 => {
                            if k % 2 == (w % 2) as usize {
                                (rng.range(w / 2, w + 1) as u32, rng.range(h / 2, h + 1) as u32)
                            } else {
                                (0, 0)
                            }
                        }
                        _ => {
                            if rng.chance(1, 2) {
                                (0, 0)
                            } else {
                                (rng.range(0, w + 2) as u32, rng.range(0, h + 2) as u32)
                            }
                        }
                    };
                }
                emit(format!("rrect.points {} {} {} {} {}", x, y, w, h, radii_toks(&r)));
            }
        }
        if pid == "C18" {
            let grid: [u32; 6] = [0, 1, 3, 6, 12, 60];
            let sizes: [(u32, u32); 4] = [(100, 10), (20, 30), (7, 7), (0, 5)];
            let others: [[(u32, u32); 2]; 3] = [[(0, 0), (0, 0)], [(3, 12), (6, 1)], [(60, 60), (1, 13)]];
            for (w, h) in sizes.iter() {
                for a in grid.iter() {
                    for b in grid.iter() {
                        for c in grid.iter() {
                            for d in grid.iter() {
                                for o in others.iter() {
                                    let r = [(*a, *b), (*c, *d), o[0], o[1]];
                                    emit(format!("rrect.confine {} {} {}", w, h, radii_toks(&r)));
                                }
                            }
                        }
                    }
                }
            }
            let n = if quick { 2000 } else { 50_000 };
            for _ in 0..n {
                let big = rng.chance(1, 4);
                let smax: i64 = if big { u32::MAX as i64 } else { *rng.pick(&[4i64, 30, 200, 5000]) };
                let val = |rng: &mut Rng| -> u32 {
                    match rng.below(6) {
                        0 => 0,
                        1 => smax as u32,
                        2 => (smax / 2) as u32,
                        _ => rng.range(0, smax) as u32,
                    }
                };
                let w = val(rng);
                let h = val(rng);
                // radii up to u32::MAX: pair sums beyond u32::MAX are part of the scope (the code adds
                // them as u64 since the repair of the saturating sums)
                let rmax: i64 = if big { u32::MAX as i64 } else { 2 * smax };
                let mut r = [(0u32, 0u32); 4];
                for k in 0..4 {
                    let v = |rng: &mut Rng| -> u32 {
                        match rng.below(5) {
                            0 => 0,
                            1 => rmax as u32,
                            _ => rng.range(0, rmax) as u32,
                        }
                    };
                    r[k] = (v(rng), v(rng));
                }
                emit(format!("rrect.confine {} {} {}", w, h, radii_toks(&r)));
            }
        }
        if pid == "C06" || pid == "C01" {
            let cols: [(&str, &str); 4] = [("7", "-"), ("-", "9"), ("7", "9"), ("-", "-")];
            let boxes: [(i32, i32, u32, u32); 2] = [UNB, (2, 1, 5, 4)];
            let sets: [[(u32, u32); 4]; 6] = [
                [(0, 0); 4],
                [(1, 1); 4],
                [(2, 2); 4],
                [(3, 2); 4],
                [(2, 5); 4],
                [(1, 2), (3, 1), (0, 0), (2, 4)],
            ];
            let smax: u32 = if quick { 7 } else { 10 };
            let wmax: u32 = if quick { 4 } else { 6 };
            let mut rot = 0usize;
            for w in 0..=smax {
                for h in 0..=smax {
                    for sw in 0..=wmax {
                        for a in 0..3u32 {
                            let (x, y) = pos[((w + h + sw + a) % 3) as usize];
                            for k in 0..3 {
                                let r = &sets[(rot + 2 * k) % 6];
                                let g = format!("{} {} {} {} {}", x, y, w, h, radii_toks(r));
                                emit(format!("rrect.areas {} {} {}", g, sw, a));
                                for (f, s) in cols.iter() {
                                    for (bi, b) in boxes.iter().enumerate() {
                                        // the clipping box is placed relative to the shape so that it really clips
                                        let (bx, by) = if bi == 1 { (x + b.0, y + b.1) } else { (b.0, b.1) };
                                        emit(format!("rrect.styled {} {} {} {} {} {} {} {} {}", g, f, s, sw, a, bx, by, b.2, b.3));
                                    }
                                }
                            }
                            rot += 1;
                        }
                    }
                }
            }
            // tall thin / wide flat shapes with ONE elongated corner radius (the other corners sharp): the family in
            // which `confine` rescales the fill area's radii while the stroke area's stay (known finding
            // `:confined-radii`, witness 3x20 with top-left radius (3,20), width 1 Inside, point (1,2))
            for &(sw_, long, rs, rl, width) in
                [(3u32, 20u32, 3u32, 20u32, 1u32), (4, 24, 4, 24, 1), (5, 32, 5, 32, 2), (5, 48, 6, 48, 2), (3, 32, 4, 32, 1), (6, 32, 12, 64, 2)].iter()
            {
                for corner in 0..4usize {
                    for transposed in [false, true] {
                        for a in 0..2u32 {
                            let (w, h, rad) = if transposed { (long, sw_, (rl, rs)) } else { (sw_, long, (rs, rl)) };
                            let mut r = [(0u32, 0u32); 4];
                            r[corner] = rad;
                            let g = format!("0 0 {} {} {}", w, h, radii_toks(&r));
                            emit(format!("rrect.areas {} {} {}", g, width, a));
                            emit(format!("rrect.styled {} 7 9 {} {} -8 -8 80 80", g, width, a));
                            // fill colour only, non-zero stroke width: `draw()` paints the scanlines of the fill
                            // area, `pixels()` the fill parts of the stroke area's scanlines (the C01 face of the
                            // same finding; for Inside strokes also "an inside stroke never paints outside the shape")
                            emit(format!("rrect.styled {} 7 - {} {} -8 -8 80 80", g, width, a));
                        }
                    }
                }
            }
            // "leaf" shapes: two large, diagonally opposite corners whose boxes overlap deeply, so that a point can lie
            // in the box of a left AND of a right corner (`contains` must test both: /repo fix 25969cf; seeded change
            // C06-r3-1 reverted it: such points are in the areas but never painted)
            for &(w, h) in [(30u32, 20u32), (24, 24), (12, 9), (9, 14)].iter() {
                for diag in 0..2usize {
                    let big = (w - 2, h - 2);
                    let mut r = [(0u32, 0u32); 4];
                    r[diag] = big; // top_left or top_right
                    r[diag + 2] = big; // bottom_right or bottom_left
                    let g = format!("-3 2 {} {} {}", w, h, radii_toks(&r));
                    for (width, a) in [(0u32, 0u32), (1, 0), (2, 1), (3, 2)] {
                        emit(format!("rrect.areas {} {} {}", g, width, a));
                        emit(format!("rrect.styled {} 7 9 {} {} -8 -8 80 80", g, width, a));
                        emit(format!("rrect.styled {} 7 - {} {} -8 -8 80 80", g, width, a));
                    }
                }
            }
            // fill area inside stroke area: many random geometries with wild (oversized, unequal) radii
            let n = if quick { 6000 } else { 60_000 };
            for _ in 0..n {
                let smax: i64 = *rng.pick(&[5i64, 9, 16, 30]);
                let w = rng.range(0, smax);
                let h = rng.range(0, smax);
                let mut r = [(0u32, 0u32); 4];
                let rm = *rng.pick(&[3i64, 8, 20, 60]);
                for k in 0..4 {
                    r[k] = if rng.chance(1, 4) { (0, 0) } else { (rng.range(0, rm) as u32, rng.range(0, rm) as u32) };
                }
                let sw = rng.range(0, smax.min(8));
                let a = rng.below(3);
                emit(format!("rrect.areas {} {} {} {} {} {} {}", rng.range(-9, 9), rng.range(-9, 9), w, h, radii_toks(&r), sw, a));
            }
            // the witnesses of the repaired fill-fallback defect and larger / random cases
            let n = if quick { 300 } else { 6000 };
            for _ in 0..n {
                let scale = *rng.pick(&[8i64, 64, 1024]);
                let x = rng.range(-scale, scale);
                let y = rng.range(-scale, scale);
                let smax: i64 = if quick { 24 } else { 60 };
                let w = rng.range(0, smax);
                let h = rng.range(0, smax);
                let mut r = [(0u32, 0u32); 4];
                let equal = rng.chance(1, 2);
                let base = (rng.range(0, smax / 2) as u32, rng.range(0, smax / 2) as u32);
                for k in 0..4 {
                    r[k] = if equal { base } else { (rng.range(0, w / 2 + 2) as u32, rng.range(0, h / 2 + 2) as u32) };
                }
                let sw = if rng.chance(1, 8) { w.min(h) / 2 + rng.range(0, 3) } else { rng.range(0, if quick { 7 } else { 10 }) };
                let a = rng.below(3);
                let (f, s) = *rng.pick(&cols);
                let g = format!("{} {} {} {} {}", x, y, w, h, radii_toks(&r));
                emit(format!("rrect.areas {} {} {}", g, sw, a));
                let b = if rng.chance(1, 3) {
                    (x + rng.range(-3, w / 2), y + rng.range(-3, h / 2), rng.range(0, w + 4), rng.range(0, h + 4))
                } else {
                    (UNB.0 as i64, UNB.1 as i64, UNB.2 as i64, UNB.3 as i64)
                };
                emit(format!("rrect.styled {} {} {} {} {} {} {} {} {}", g, f, s, sw, a, b.0, b.1, b.2, b.3));
            }
            // seeded random tall-thin / wide-flat shapes with one or two ELONGATED corner radii (the family of the known
            // finding `:confined-radii`, here not hand-built: random sides, radii, corners, widths, alignments, positions
            // and colour options), so that the classifier `escape_explained` + the predicted painted values are
            // exercised on shapes they were not written for. Every failure of this family must come out with a
            // suffixed class; an unsuffixed one is a VIOLATION (the classifier is too narrow, or something else is wrong).
            let n = if quick { 500 } else { 6000 };
            let copts: [(&str, &str); 3] = [("7", "9"), ("7", "-"), ("-", "9")];
            for i in 0..n {
                let short = rng.range(2, 9);
                let long = rng.range(12, 64);
                let transposed = rng.chance(1, 2);
                let (w, h) = if transposed { (long, short) } else { (short, long) };
                let mut r = [(0u32, 0u32); 4];
                let ncorner = if rng.chance(1, 3) { 2 } else { 1 };
                for _ in 0..ncorner {
                    let k = rng.below(4) as usize;
                    // half of them near the exact fit (radius = the whole side: the stroke area's radii stay, the fill
                    // area's are rescaled), the rest anywhere from half the side to twice the side
                    let (rs, rl) = if rng.chance(1, 2) {
                        (rng.range(short, short + 1) as u32, rng.range(long, long + 2) as u32)
                    } else {
                        (rng.range(1, short + 3) as u32, rng.range(long / 2, 2 * long) as u32)
                    };
                    r[k] = if transposed { (rl, rs) } else { (rs, rl) };
                }
                if rng.chance(1, 4) {
                    for k in 0..4 {
                        if r[k] == (0, 0) {
                            r[k] = (rng.range(0, 2) as u32, rng.range(0, 2) as u32);
                        }
                    }
                }
                let width = rng.range(1, (short / 2 + 1).min(3));
                let a = rng.below(3);
                let (x, y) = (rng.range(-9, 9), rng.range(-9, 9));
                let g = format!("{} {} {} {} {}", x, y, w, h, radii_toks(&r));
                emit(format!("rrect.areas {} {} {}", g, width, a));
                let (f, s) = copts[i % 3];
                emit(format!("rrect.styled {} {} {} {} {} -40 -40 160 160", g, f, s, width, a));
            }
        }
    }

    fn execute(&self, op: &str, ctx: &mut Ctx) -> String {
        let mut t = Toks::new(op);
        match t.str() {
            "rrect.points" => {
                let rr = parse_geometry(&mut t);
                let rect = rr.rectangle;
                let tl = rect.top_left;
                let (w, h) = (rect.size.width, rect.size.height);
                ctx.count("rrect:points");
                let r8 = radii_list(&rr.corners);
                let equal = rr.corners.top_left == rr.corners.top_right
                    && rr.corners.top_left == rr.corners.bottom_right
                    && rr.corners.top_left == rr.corners.bottom_left;
                ctx.count(if r8.iter().all(|v| *v == 0) {
                    "rrect:points:zero-radii"
                } else if equal {
                    "rrect:points:equal-radii"
                } else {
                    "rrect:points:unequal-radii"
                });
                if w >= 1 && h >= 1 {
                    ctx.nontrivial(op);
                }
                let bb = rr.bounding_box();
                let confined = rr.confine_radii();
                let cf = confined.corners;
                if cf != rr.corners {
                    ctx.count("rrect:points:radii-confined");
                }
                let pts: Vec<Point> = rr.points().collect();
                if pts.len() <= 400 {
                    iter_protocol_check(ctx, "iterator-protocol:rounded-rectangle-points", rr.points(), 400);
                }
                let m = 3i32;
                let (x0, y0) = (tl.x - m, tl.y - m);
                let (x1, y1) = (tl.x + w as i32 + m, tl.y + h as i32 + m);
                let boxes = corner_boxes(&rect, &cf);
                let overlap = (0..4).any(|i| (0..4).any(|j| i < j && !boxes[i].0.intersection(&boxes[j].0).is_zero_sized()));
                if overlap {
                    ctx.count("rrect:points:corner-boxes-overlap");
                }
                let mut bits = String::new();
                let mut accepted: Vec<Point> = Vec::new();
                let mut outside_bb = None;
                let mut not_ideal = None;
                let mut off_band = None;
                let mut straight_missing = None;
                for y in y0..y1 {
                    for x in x0..x1 {
                        let p = Point::new(x, y);
                        let inside = rr.contains(p);
                        bits.push(if inside { '1' } else { '0' });
                        if inside {
                            accepted.push(p);
                            if !bb.contains(p) {
                                outside_bb = Some(p);
                            }
                        }
                        if !bb.contains(p) {
                            continue;
                        }
                        // C18: corners follow the ideal quarter ellipses; the straight part is full
                        let mut in_corner = false;
                        let mut all_exact = Some(true);
                        let mut all_shrunk = true;
                        for (bx, c2, r) in boxes.iter() {
                            if !bx.contains(p) {
                                continue;
                            }
                            in_corner = true;
                            match (all_exact, ideal_exact(p, *c2, *r)) {
                                (Some(acc), Some(v)) => all_exact = Some(acc && v),
                                _ => all_exact = None,
                            }
                            // contains -> centre strictly inside the ellipse grown by half a pixel
                            if inside && !ideal_band(p, *c2, *r, 1, true) {
                                off_band = Some(p);
                            }
                            all_shrunk = all_shrunk && ideal_band(p, *c2, *r, -1, false);
                        }
                        if in_corner {
                            if let Some(want) = all_exact {
                                if inside != want {
                                    not_ideal = Some(p);
                                }
                            }
                            // centre inside every ellipse shrunk by half a pixel -> contains
                            if all_shrunk && !inside {
                                off_band = Some(p);
                            }
                        } else if !inside {
                            straight_missing = Some(p);
                        }
                    }
                }
                // C05
                ctx.expect(pts == accepted, "C05:rrect-points-ne-contains", || {
                    format!("points {} vs contains {}", fmt_pts(pts.iter().copied()), fmt_pts(accepted.iter().copied()))
                });
                ctx.expect(outside_bb.is_none(), "C05:rrect-contains-outside-bbox", || format!("{:?}", outside_bb));
                ctx.expect(pts.iter().all(|p| bb.contains(*p)), "C05:rrect-points-outside-bbox", || "points() outside bounding box".into());
                ctx.expect(
                    pts.windows(2).all(|w| (w[0].y, w[0].x) < (w[1].y, w[1].x)),
                    "C05:rrect-points-not-row-major-once",
                    || fmt_pts(pts.iter().copied()),
                );
                let far = [
                    Point::new(tl.x - 1000, tl.y),
                    Point::new(tl.x + w as i32 + 1000, tl.y + h as i32 / 2),
                    Point::new(tl.x + w as i32 / 2, tl.y - 1000),
                    Point::new(tl.x + w as i32 / 2, tl.y + h as i32 + 1000),
                ];
                ctx.expect(far.iter().all(|p| !rr.contains(*p)), "C05:rrect-contains-outside-bbox", || "far probe accepted".into());
                // C18
                check_confine(ctx, rect.size, &rr.corners, &cf);
                ctx.expect(not_ideal.is_none(), "C18:rrect-corner-not-ideal-ellipse", || format!("{:?}", not_ideal));
                ctx.expect(off_band.is_none(), "C18:rrect-corner-outside-half-pixel-band", || format!("{:?}", off_band));
                ctx.expect(straight_missing.is_none(), "C18:rrect-straight-part-not-full", || format!("{:?}", straight_missing));
                {
                    let mut ok_rows = true;
                    let mut ok_cols = true;
                    for y in y0..y1 {
                        let xs: Vec<i32> = accepted.iter().filter(|p| p.y == y).map(|p| p.x).collect();
                        if !xs.is_empty() && (xs[xs.len() - 1] - xs[0] + 1) as usize != xs.len() {
                            ok_rows = false;
                        }
                    }
                    for x in x0..x1 {
                        let mut ys: Vec<i32> = accepted.iter().filter(|p| p.x == x).map(|p| p.y).collect();
                        ys.sort();
                        if !ys.is_empty() && (ys[ys.len() - 1] - ys[0] + 1) as usize != ys.len() {
                            ok_cols = false;
                        }
                    }
                    ctx.expect(ok_rows, "C18:rrect-row-not-contiguous", || fmt_pts(accepted.iter().copied()));
                    ctx.expect(ok_cols, "C18:rrect-column-not-contiguous", || fmt_pts(accepted.iter().copied()));
                }
                if r8.iter().all(|v| *v == 0) {
                    let want: Vec<Point> = rect.points().collect();
                    ctx.expect(accepted == want && pts == want, "C18:rrect-zero-radii-ne-rectangle", || fmt_pts(pts.iter().copied()));
                }
                if w % 2 == 0 && h % 2 == 0 && equal && rr.corners.top_left == Size::new(w / 2, h / 2) {
                    ctx.count("rrect:points:half-radii");
                    let e = Ellipse::new(tl, rect.size);
                    let mut want: Vec<Point> = Vec::new();
                    for y in y0..y1 {
                        for x in x0..x1 {
                            if e.contains(Point::new(x, y)) {
                                want.push(Point::new(x, y));
                            }
                        }
                    }
                    let epts: Vec<Point> = e.points().collect();
                    ctx.expect(accepted == want && pts == epts, "C18:rrect-half-radii-ne-ellipse", || {
                        format!("rrect {} ellipse {}", fmt_pts(accepted.iter().copied()), fmt_pts(want.iter().copied()))
                    });
                }
                format!("bb={} cf={} pts={} in={}", fmt_rect(&bb), fmt_radii(&cf), fmt_pts(pts), bits)
            }
            "rrect.confine" => {
                let size = t.size();
                let c = parse_radii(&mut t);
                ctx.count("rrect:confine");
                let rr = RoundedRectangle::new(Rectangle::new(Point::zero(), size), c);
                let cf = rr.confine_radii().corners;
                if cf != c {
                    ctx.nontrivial(op);
                }
                check_confine(ctx, size, &c, &cf);
                format!("c={}", fmt_radii(&cf))
            }
            "rrect.areas" => {
                let rr = parse_geometry(&mut t);
                let sw = t.u32();
                let a = t.u32();
                let (w, h) = (rr.rectangle.size.width, rr.rectangle.size.height);
                let tl = rr.rectangle.top_left;
                let (ins, out) = split(sw, a);
                ctx.count("rrect:areas");
                ctx.expect(ins + out == sw, "C06:stroke-width-split", || format!("{} + {} != {}", ins, out, sw));
                let sa = rr.offset(out as i32);
                let fa = rr.offset(-(ins as i32));
                let style = PrimitiveStyleBuilder::<Rgb565>::new()
                    .stroke_color(Rgb565::from_num(9))
                    .stroke_width(sw)
                    .stroke_alignment(align_of(a))
                    .build();
                let sbb = rr.into_styled(style).bounding_box();
                if w >= 1 && h >= 1 {
                    ctx.nontrivial(op);
                    // grown on every side by the outside part, every radius grown by it
                    ctx.expect(
                        sa.rectangle == Rectangle::new(tl - Point::new(out as i32, out as i32), Size::new(w + 2 * out, h + 2 * out))
                            && radii_list(&sa.corners).iter().zip(radii_list(&rr.corners).iter()).all(|(s, r)| *s == *r + out),
                        "C06:rrect-stroke-area-not-grown-by-outside-width",
                        || fmt_rr(&sa),
                    );
                    ctx.expect(sbb == sa.bounding_box(), "C06:rrect-styled-bbox-ne-stroke-area-bbox", || fmt_rect(&sbb));
                    ctx.expect(
                        radii_list(&fa.corners).iter().zip(radii_list(&rr.corners).iter()).all(|(f, r)| *f == r.saturating_sub(ins)),
                        "C06:rrect-fill-area-not-shrunk-by-inside-width",
                        || fmt_rr(&fa),
                    );
                    if w > 2 * ins && h > 2 * ins {
                        ctx.count("rrect:areas:fill-nondegenerate");
                        ctx.expect(
                            fa.rectangle == Rectangle::new(tl + Point::new(ins as i32, ins as i32), Size::new(w - 2 * ins, h - 2 * ins)),
                            "C06:rrect-fill-area-not-shrunk-by-inside-width",
                            || fmt_rr(&fa),
                        );
                    } else {
                        ctx.count("rrect:areas:fill-collapsed");
                        ctx.expect(fa.rectangle.is_zero_sized(), "C06:rrect-fill-area-not-shrunk-by-inside-width", || fmt_rr(&fa));
                    }
                }
                // every point of the fill area lies in the stroke area (Lean: `FillInStroke`, the hypothesis
                // of `styled_rrect_exact_partial`; unproved for non-zero widths, so it is checked here)
                {
                    let fb = fa.bounding_box();
                    let mut escaped = None;
                    let mut all_explained = true;
                    if fb.size.width <= 400 && fb.size.height <= 400 {
                        for p in fb.points() {
                            if fa.contains(p) && !sa.contains(p) {
                                escaped = Some(p);
                                if !escape_explained(&sa, &fa, p) {
                                    all_explained = false;
                                }
                            }
                        }
                    }
                    // KNOWN FINDING (class suffix `:confined-radii`): when `confine` rescales the radii of the fill
                    // area or of the stroke area the corner ellipses of the two areas are no longer concentric and the
                    // fill area may bulge out of the stroke area (Lean: `not_fill_in_stroke_all`). Where `confine`
                    // changes neither (the guard of `fill_in_stroke_partial_fitting`) a failure contradicts the theorem
                    // and keeps the unsuffixed class.
                    let confined = radii_confined(&sa) || radii_confined(&fa);
                    if confined {
                        ctx.count("rrect:areas:confined-radii");
                    }
                    // (the suffix needs more than `confined`: EVERY escaped point must sit at a corner whose radius is
                    // rescaled, inside the stroke area's rectangle - `escape_explained`; 75 % of the generated shapes
                    // have rescaled radii, so `confined` alone would be a blanket)
                    let cls = if confined && all_explained {
                        "C06:rrect-fill-area-not-inside-stroke-area:confined-radii"
                    } else {
                        "C06:rrect-fill-area-not-inside-stroke-area"
                    };
                    ctx.expect(escaped.is_none(), cls, || {
                        format!("{:?} in fill area {} but not in stroke area {}", escaped, fmt_rr(&fa), fmt_rr(&sa))
                    });
                }
                format!("s={} f={} sbb={}", fmt_rr(&sa), fmt_rr(&fa), fmt_rect(&sbb))
            }
            "rrect.styled" => {
                let rr = parse_geometry(&mut t);
                let fill = col_tok(t.str());
                let stroke = col_tok(t.str());
                let sw = t.u32();
                let a = t.u32();
                let tbox = t.rect();
                let (w, h) = (rr.rectangle.size.width, rr.rectangle.size.height);
                let tl = rr.rectangle.top_left;
                let mut sb = PrimitiveStyleBuilder::<Rgb565>::new().stroke_width(sw).stroke_alignment(align_of(a));
                if let Some(f) = fill {
                    sb = sb.fill_color(Rgb565::from_num(f));
                }
                if let Some(s) = stroke {
                    sb = sb.stroke_color(Rgb565::from_num(s));
                }
                let style = sb.build();
                let styled = rr.into_styled(style);
                ctx.count("rrect:styled");
                ctx.count(match (fill.is_some(), stroke.is_some()) {
                    (true, false) => "rrect:styled:fill-only",
                    (false, true) => "rrect:styled:stroke-only",
                    (true, true) => "rrect:styled:both",
                    (false, false) => "rrect:styled:none",
                });
                ctx.count(match a {
                    0 => "rrect:styled:inside",
                    1 => "rrect:styled:center",
                    _ => "rrect:styled:outside",
                });
                let (ins, out) = split(sw, a);
                match (2 * ins >= w, 2 * ins >= h) {
                    (true, true) => ctx.count("rrect:styled:fill-collapsed:both"),
                    (true, false) => ctx.count("rrect:styled:fill-collapsed:fill_w=0"),
                    (false, true) => ctx.count("rrect:styled:fill-collapsed:fill_h=0"),
                    _ => {}
                }
                if tbox.is_zero_sized() {
                    ctx.count("rrect:styled:target-empty");
                }
                if w >= 1 && h >= 1 && (fill.is_some() || stroke.is_some()) {
                    ctx.nontrivial(op);
                }
                let mut r1 = R1::<Rgb565>::new(tbox);
                let mut r2 = R2::<Rgb565>::new(tbox);
                let mut r3 = R1::<Rgb565>::new(tbox);
                let e1 = styled.draw(&mut r1);
                let e2 = styled.draw(&mut r2);
                let px: Vec<((i32, i32), u32)> = styled.pixels().map(|Pixel(p, c)| ((p.x, p.y), c.num())).collect();
                let e3 = r3.draw_iter(styled.pixels());
                ctx.expect(e1.is_ok() && e2.is_ok() && e3.is_ok(), "rrect-draw-error", || "draw returned Err".into());
                // C01: one image whichever path
                ctx.expect(r1.rec.map == r2.rec.map, "rrect-paths-differ:r1-r2", || format!("R1 {} R2 {}", r1.rec.fmt_map(), r2.rec.fmt_map()));
                // C06: the map follows fill_area / stroke_area
                let sa = rr.offset(out as i32);
                let fa = rr.offset(-(ins as i32));
                // KNOWN FINDING (suffix `:confined-radii`, see rrect.areas): when `confine` rescales the radii of the
                // fill or stroke area the fill area can leave the stroke area; with a fill colour only, `draw()` paints
                // such a point (scanlines of the fill area) and `pixels()` does not (fill parts of the stroke area's
                // scanlines). The suffixed class is emitted exactly when the two maps differ ONLY in points of
                // fill_area \ stroke_area of such a shape; any other difference keeps the unsuffixed class.
                {
                    let conf = radii_confined(&sa) || radii_confined(&fa);
                    let keys: std::collections::BTreeSet<(i32, i32)> = r1.rec.map.keys().chain(r3.rec.map.keys()).copied().collect();
                    let diff: Vec<Point> = keys
                        .iter()
                        .filter(|k| r1.rec.map.get(*k) != r3.rec.map.get(*k))
                        .map(|(y, x)| Point::new(*x, *y))
                        .collect();
                    // ... and at such a point the mechanism predicts the two values: `draw()` paints the fill colour
                    // (scanline of the fill area), `pixels()` nothing
                    let explained = conf
                        && !diff.is_empty()
                        && diff.iter().all(|p| escape_explained(&sa, &fa, *p) && fill.is_some() && r1.rec.map.get(&(p.y, p.x)).copied() == fill && r3.rec.map.get(&(p.y, p.x)).is_none());
                    let cls = if explained { "rrect-paths-differ:draw-pixels:confined-radii" } else { "rrect-paths-differ:draw-pixels" };
                    ctx.expect(diff.is_empty(), cls, || format!("draw {} pixels {}", r1.rec.fmt_map(), r3.rec.fmt_map()));
                }
                let g = (out + 3) as i32;
                let mut bad = None;
                // mismatches of the known mechanism only: a point of the fill area outside the stroke area of a
                // shape whose fill / stroke radii are rescaled by `confine` (see rrect.areas)
                let confined = radii_confined(&sa) || radii_confined(&fa);
                let mut bad_confined = None;
                let mut inside_viol = None;
                let mut inside_viol_confined = None;
                let mut outside_viol = None;
                let mut painted = 0usize;
                for y in (tl.y - g)..(tl.y + h as i32 + g) {
                    for x in (tl.x - g)..(tl.x + w as i32 + g) {
                        let p = Point::new(x, y);
                        let want: Option<u32> = if !tbox.contains(p) {
                            None
                        } else if fa.contains(p) {
                            fill
                        } else if sa.contains(p) && sw > 0 {
                            stroke
                        } else {
                            None
                        };
                        let got = r1.rec.map.get(&(y, x)).copied();
                        if got.is_some() {
                            painted += 1;
                        }
                        if got != want {
                            // known mechanism: a point of fill_area \ stroke_area is not on any scanline of the stroke
                            // area, so it is left UNPAINTED (expected: the fill colour); any other value there is not
                            // the known finding
                            if confined && escape_explained(&sa, &fa, p) && got.is_none() {
                                bad_confined = Some((p, got, want));
                            } else {
                                bad = Some((p, got, want));
                            }
                        }
                        // an inside stroke never paints outside the shape, an outside stroke never inside it
                        if a == 0 && got.is_some() && !rr.contains(p) {
                            // (Inside alignment: stroke area = the shape) the known mechanism: a painted point of
                            // fill_area \ stroke_area of a shape with rescaled radii
                            // (the painted value must be what the mechanism predicts: the FILL colour, from a scanline of
                            // the fill area drawn without a stroke colour; a stroke-coloured pixel there is something else)
                            if confined && escape_explained(&sa, &fa, p) && got == fill {
                                inside_viol_confined = Some(p);
                            } else {
                                inside_viol = Some(p);
                            }
                        }
                        if a == 2 && got.is_some() && got == stroke && fill != stroke && rr.contains(p) {
                            outside_viol = Some(p);
                        }
                    }
                }
                ctx.expect(bad.is_none(), "C06:rrect-styled-map-ne-areas", || format!("{:?}", bad));
                ctx.expect(bad_confined.is_none(), "C06:rrect-styled-map-ne-areas:confined-radii", || format!("{:?}", bad_confined));
                ctx.expect(painted == r1.rec.map.len(), "C06:rrect-styled-paints-outside-stroke-area-box", || {
                    format!("{} painted in the probe box, {} in the map", painted, r1.rec.map.len())
                });
                ctx.expect(inside_viol.is_none(), "C06:rrect-inside-stroke-paints-outside-shape", || format!("{:?}", inside_viol));
                ctx.expect(inside_viol_confined.is_none(), "C06:rrect-inside-stroke-paints-outside-shape:confined-radii", || format!("{:?}", inside_viol_confined));
                ctx.expect(outside_viol.is_none(), "C06:rrect-outside-stroke-paints-inside-shape", || format!("{:?}", outside_viol));
                let mut pxs = String::new();
                for (i, ((x, y), c)) in px.iter().enumerate() {
                    if i > 0 {
                        pxs.push(';');
                    }
                    pxs.push_str(&format!("{},{},{}", x, y, c));
                }
                if pxs.is_empty() {
                    pxs.push('-');
                }
                format!("log={} m1={} m2={} px={}", r2.rec.fmt_log(), r1.rec.fmt_map(), r2.rec.fmt_map(), pxs)
            }
            other => panic!("unknown op {}", other),
        }
    }
}
